package main

// C01 — documents the source schema accepts load into the generated Go types and round-trip.
// C11 — generated Python types round-trip documents and agree with Go on the wire format.

import (
	"fmt"
	"go/ast"
	"go/constant"
	"go/token"
	"go/types"
	"regexp"
	"sort"
	"strings"
	"text/template/parse"

	"golang.org/x/tools/go/packages"
)

func init() {
	register("C01", checkC01)
	register("C11", checkC11)
}

func checkC01(ctx *Ctx, r *Report) {
	r.Explanation = "Generator-side necessary conditions for 'accepted documents decode and round-trip', decided on cog's source: (1) wire names — the JSON key of a field is StructField.Name itself in the Go struct tag and in the keys the strict / custom unmarshal templates look up; `omitempty` is added exactly for non-required fields; (2) requiredness comes from the schema: `Required` is set from the schema's own required list / optional marker in the three front-ends; (3) sibling agreement of the OpenAPI walkers on `nullable` (every walker that builds a value type reads it) and of the JSON-family front-ends on number kinds (integer → an integer kind, number → a float kind); (4) union (un)marshal templates cover every field of the union struct / every entry of the discriminator mapping, return on the first branch that decodes and report the joined errors otherwise; the marshal templates emit the first set branch; (5) depends on C06 (optional ⇒ nullable ⇒ pointer) and C10 (numbers canonical), which are checked there."
	r.NotCovered = "everything that needs the generated code to run against the schema language's own validator: decoding of concrete documents, order of union branches, date-time re-encoding, integer widths against numeric ranges, property names that need escaping in a struct tag."
	r.Exhaustive = true
	c01GoWireNames(ctx, r)
	c01TemplateKeys(ctx, r)
	c01RequiredFromSchema(ctx, r)
	c01NullableRead(ctx, r)
	c01NumberKinds(ctx, r)
	c01UnionTemplates(ctx, r)
	c01TypeNameClauses(ctx, r)
	c01SiblingReplacements(ctx, r)
	c06NullableGuardExact(ctx, r)
	c06EnumMemberNamesVerbatim(ctx, r)
	c01DiscriminatorDistinct(ctx, r)
	c01MapOnlyWithoutProperties(ctx, r)
	c01GoFieldTypeOverride(ctx, r)
	c01StrictEmptyList(ctx, r)
	c01StrictDecoderNulls(ctx, r)
	c01CueDefaultBranch(ctx, r)
	c01OpenAPIWidestDefault(ctx, r)
	c01GoByteSliceTrap(ctx, r)
	c01UnionClassifiedWithoutNull(ctx, r)
	c01OmitEmptyOnCollections(ctx, r)
	c01GoDateTimeKeepsText(ctx, r)
	c01EnumNullMember(ctx, r)
	c08UnionReuseComparesBranches(ctx, r)
	c01GoNamedDateTimeIsAlias(ctx, r)
	c01GoTemplateVariablesEscaped(ctx, r)
	c01SixthRound(ctx, r)
	c01SeventhRound(ctx, r, true)
	c01LoopLocalResult(ctx, r)
	c12UnionWrapperClassified(ctx, r)
	c01AbsentDefaultedField(ctx, r)
	c01DefinitionIdentity(ctx, r)
}

func checkC11(ctx *Ctx, r *Report) {
	r.Explanation = "Generator-side necessary conditions for 'Python round-trips documents and agrees with Go on the wire': (1) the keys written by to_json and read by from_json are StructField.Name itself (the Python identifier is derived separately); (2) to_json emits a field unconditionally exactly when it is required and under `is not None` exactly when it is not — the same property (StructField.Required) that decides Go's `omitempty`, so both SDKs omit the same keys; (3) from_json reaches nested objects at every depth: the shortcuts that leave a list / map undecoded only accept leaf kinds, struct references are decoded through the referee's from_json, unions through their discriminator mapping; (4) a value whose type is nullable is not handed to a nested from_json without a None test (finding)."
	r.NotCovered = "behaviour of the generated Python code on concrete documents, the runtime encoder, equality of the JSON produced by Go and Python, enum member naming."
	r.Exhaustive = true
	c11PythonWire(ctx, r)
	c11FromJSON(ctx, r)
	c11DecodingMapComplete(ctx, r)
	c11EncoderTruthiness(ctx, r)
	c11ComprehensionVar(ctx, r)
	// the Go side of the omission agreement
	c01GoWireNames(ctx, r)
	c11HuntedRules(ctx, r)
	c02PythonIdentifierCharacters(ctx, r)
	c11AbsentStaysAbsent(ctx, r)
	c12GoByteArrays(ctx, r)
	c12UnionWrapperClassified(ctx, r)
	c05OpenAPIMappingNames(ctx, r)
	c11ThirdRound(ctx, r)
	c11FourthRound(ctx, r)
	c11FifthRound(ctx, r)
	c11SixthRound(ctx, r)
	c11SeventhRound(ctx, r, true)
	c02PythonMethodNamesEscaped(ctx, r)
	// Python keeps an empty optional collection (`is not None`), Go's bare `omitempty` drops it
	c01OmitEmptyOnCollections(ctx, r)
	c01GoDateTimeKeepsText(ctx, r)
	c06NullableGuardExact(ctx, r)
	c11HintMonotone(ctx, r)
	c11GoPointerLast(ctx, r)
	c01GoFieldTypeOverride(ctx, r)
	c06ResolveBeforeKindTest(ctx, r)
	inProgressRestored(ctx, r, []string{"internal/jennies/python/rawtypes.go"}, 1)
}

// ---------------------------------------------------------------------------
// C01

func c01GoWireNames(ctx *Ctx, r *Report) {
	fn := ctx.LookupMethod("internal/jennies/golang", "typeFormatter", "formatField")
	fd, p := ctx.DeclOf(fn)
	if fd == nil {
		r.Undecided("anchor lost: golang.typeFormatter.formatField")
		return
	}
	info := p.TypesInfo
	nameF := astField(ctx, "StructField", "Name")
	requiredF := astField(ctx, "StructField", "Required")
	// the Sprintf that writes the tag
	var call *ast.CallExpr
	ast.Inspect(fd.Body, func(n ast.Node) bool {
		c, ok := n.(*ast.CallExpr)
		if !ok || len(c.Args) == 0 {
			return true
		}
		if lit, ok := c.Args[0].(*ast.BasicLit); ok && strings.Contains(lit.Value, "json:") {
			call = c
		}
		return true
	})
	if call == nil {
		r.Undecided("anchor changed: no format string with `json:` in golang.typeFormatter.formatField")
		return
	}
	format := call.Args[0].(*ast.BasicLit).Value
	// position of the verb that follows json:\"
	before := format[:strings.Index(format, "json:")]
	verbIdx := strings.Count(before, "%s") + strings.Count(before, "%v")
	okName, okOmit := false, false
	whyOmit := "the omitempty suffix is no longer decided by def.Required"
	if verbIdx+1 < len(call.Args) {
		if s, ok := ast.Unparen(call.Args[1+verbIdx]).(*ast.SelectorExpr); ok && fieldOf(info, s) == nameF {
			okName = true
		}
	}
	if verbIdx+2 < len(call.Args) {
		if id, ok := ast.Unparen(call.Args[2+verbIdx]).(*ast.Ident); ok {
			suffix := objOf(info, id)
			parents := parentMap(fd)
			assigns := 0
			ast.Inspect(fd.Body, func(n ast.Node) bool {
				as, ok := n.(*ast.AssignStmt)
				if !ok || len(as.Lhs) != 1 || !isIdentOf(info, as.Lhs[0], suffix) {
					return true
				}
				assigns++
				if lit, ok := as.Rhs[0].(*ast.BasicLit); ok {
					if lit.Value == `""` && as.Tok == token.DEFINE {
						return true
					}
					if lit.Value == `",omitempty"` {
						conds := enclosingConds(parents, as)
						if len(conds) == 1 && !conds[0].inElse {
							if u, ok := ast.Unparen(conds[0].stmt.Cond).(*ast.UnaryExpr); ok && u.Op == token.NOT {
								if s, ok := ast.Unparen(u.X).(*ast.SelectorExpr); ok && fieldOf(info, s) == requiredF {
									okOmit = true
								}
							}
						}
						if !okOmit {
							whyOmit = "`,omitempty` is added under another condition than `!def.Required`"
						}
					}
				}
				return true
			})
			if assigns != 2 {
				okOmit = false
			}
		}
	}
	r.Check(okName, "skeleton/wire-name", "golang formatField json tag name", call.Pos(), "the tag's name is def.Name itself", "the name written after `json:\"` is no longer StructField.Name itself: the generated Go type reads and writes another key than the one the schema declares")
	r.Check(okOmit, "skeleton/wire-name", "golang formatField omitempty", call.Pos(), "`,omitempty` is added exactly under !def.Required", whyOmit+": required fields can vanish from the encoding, or optional ones are always written")
}

func c01TemplateKeys(ctx *Ctx, r *Report) {
	ts, err := loadTemplates(ctx, "golang")
	if err != nil {
		r.Undecided("cannot parse golang templates: %v", err)
		return
	}
	n := 0
	for _, name := range ts.names() {
		if !strings.Contains(ts.file[name], "json_unmarshal") {
			continue
		}
		// (a) text `["` followed by an action: the action is a bare field chain ending in Name / Discriminator
		var visit func(l *parse.ListNode)
		visit = func(l *parse.ListNode) {
			if l == nil {
				return
			}
			for i, nd := range l.Nodes {
				switch x := nd.(type) {
				case *parse.TextNode:
					if strings.HasSuffix(string(x.Text), `["`) && i+1 < len(l.Nodes) {
						if an, ok := l.Nodes[i+1].(*parse.ActionNode); ok {
							n++
							ps := strings.TrimSpace(an.Pipe.String())
							bare := len(an.Pipe.Cmds) == 1 && len(an.Pipe.Cmds[0].Args) == 1 && (strings.HasSuffix(ps, ".Name") || strings.HasSuffix(ps, ".Discriminator"))
							r.Check(bare, "skeleton/wire-name", fmt.Sprintf("golang template %s key %s", name, ps), token.NoPos, "the key looked up is the schema's own name",
								fmt.Sprintf("%s: the JSON key looked up by the generated decoder is `%s`, not the field's / discriminator's own name", ts.posOf(ctx, name, an), ps))
						}
					}
				case *parse.IfNode:
					visit(x.List)
					visit(x.ElseList)
				case *parse.RangeNode:
					visit(x.List)
					visit(x.ElseList)
				case *parse.WithNode:
					visit(x.List)
					visit(x.ElseList)
				}
			}
		}
		visit(ts.trees[name].Root)
		// (b) `print "fields[" (<x>.Name|formatScalar) "]"`: the key is <x>.Name quoted by formatScalar
		walkTmpl(ts.trees[name].Root, func(m parse.Node) bool {
			cmd, ok := m.(*parse.CommandNode)
			if !ok || len(cmd.Args) < 3 {
				return true
			}
			if id, ok := cmd.Args[0].(*parse.IdentifierNode); !ok || id.Ident != "print" {
				return true
			}
			if s, ok := cmd.Args[1].(*parse.StringNode); !ok || s.Text != "fields[" {
				return true
			}
			n++
			ks := strings.TrimSpace(cmd.Args[2].String())
			okKey := strings.HasSuffix(ks, ".Name | formatScalar") || strings.HasSuffix(ks, ".Name|formatScalar")
			r.Check(okKey, "skeleton/wire-name", fmt.Sprintf("golang template %s strict key", name), token.NoPos, "fields[<field.Name>]",
				fmt.Sprintf("%s: the strict decoder looks a field up under `%s`, not under its own name", ts.posOf(ctx, name, cmd), ks))
			return true
		})
	}
	r.Count("JSON keys looked up by the Go decoding templates", n)
	r.Floor("JSON keys looked up by the Go decoding templates", 3)
}

func c01RequiredFromSchema(ctx *Ctx, r *Report) {
	requiredF := astField(ctx, "StructField", "Required")
	n := 0
	for _, rel := range []string{"internal/jsonschema", "internal/openapi", "internal/simplecue"} {
		p := ctx.Pkg(rel)
		if p == nil {
			r.Undecided("package %s not found", rel)
			continue
		}
		info := p.TypesInfo
		for _, f := range p.Syntax {
			var fn string
			ast.Inspect(f, func(m ast.Node) bool {
				if fd, ok := m.(*ast.FuncDecl); ok {
					fn = fd.Name.Name
				}
				as, ok := m.(*ast.AssignStmt)
				if !ok || len(as.Lhs) != 1 || len(as.Rhs) != 1 {
					return true
				}
				sel, ok := ast.Unparen(as.Lhs[0]).(*ast.SelectorExpr)
				if !ok || fieldOf(info, sel) != requiredF {
					return true
				}
				n++
				rhs := exprString(as.Rhs[0])
				okSrc := false
				switch rel {
				case "internal/simplecue":
					// !<iterator>.IsOptional()
					if u, ok := ast.Unparen(as.Rhs[0]).(*ast.UnaryExpr); ok && u.Op == token.NOT {
						if c, ok := ast.Unparen(u.X).(*ast.CallExpr); ok {
							if fnc := callee(info, c); fnc != nil && fnc.Name() == "IsOptional" {
								okSrc = true
							}
						}
					}
				default:
					// tools.ItemInList(<property name>, schema.Required)
					if c, ok := ast.Unparen(as.Rhs[0]).(*ast.CallExpr); ok && len(c.Args) == 2 {
						if fnc := callee(info, c); fnc != nil && fnc.Name() == "ItemInList" {
							if s2, ok := ast.Unparen(c.Args[1]).(*ast.SelectorExpr); ok && s2.Sel.Name == "Required" {
								if lf := fieldOf(info, s2); lf != nil && lf.Pkg() != nil && !strings.HasPrefix(lf.Pkg().Path(), modulePath) {
									okSrc = true
								}
							}
						}
					}
				}
				r.Check(okSrc, "frontier/required-from-schema", fmt.Sprintf("%s.%s sets Required", rel, fn), as.Pos(), "from the schema's own required list / optional marker ("+rhs+")",
					fmt.Sprintf("%s.%s sets StructField.Required from `%s`, not from the schema's own required list / optional marker: optional properties become mandatory in the generated types (or conversely)", rel, fn, rhs))
				return true
			})
		}
	}
	r.Count("assignments of StructField.Required in the front-ends", n)
	r.Floor("assignments of StructField.Required in the front-ends", 4)
}

// c01NullableRead: every OpenAPI walker that builds a value type reads schema.Nullable.
var c01NullableExempt = map[string]string{
	"walkDefinitions": "dispatcher", "walkSchemaRef": "dispatcher", "walkRef": "siblings of $ref are ignored in OpenAPI 3.0",
	"walkAny": "any already accepts null", "walkAllOf": "composition keyword", "walkDisjunctions": "helper over branches",
	// walkOneOf, walkAnyOf and walkEnum were listed here until §24.3 ("null is expressed as a branch", "a nullable enum
	// must list null"): kin-openapi, the reference validator, accepts null for `nullable: true` next to all three.
}

func c01NullableRead(ctx *Ctx, r *Report) {
	p := ctx.Pkg("internal/openapi")
	if p == nil {
		r.Undecided("package internal/openapi not found")
		return
	}
	info := p.TypesInfo
	n := 0
	for _, f := range p.Syntax {
		for _, d := range f.Decls {
			fd, ok := d.(*ast.FuncDecl)
			if !ok || fd.Body == nil || !strings.HasPrefix(fd.Name.Name, "walk") {
				continue
			}
			n++
			cons := "internal/openapi." + fd.Name.Name + " reads nullable"
			if why, ok := c01NullableExempt[fd.Name.Name]; ok {
				r.OK("frontier/nullable-read", cons, fd.Pos(), "reviewed: "+why)
				continue
			}
			reads := false
			ast.Inspect(fd.Body, func(m ast.Node) bool {
				if s, ok := m.(*ast.SelectorExpr); ok && s.Sel.Name == "Nullable" {
					if lf := fieldOf(info, s); lf != nil && lf.Pkg() != nil && !strings.HasPrefix(lf.Pkg().Path(), modulePath) {
						reads = true
					}
				}
				return true
			})
			// … on every successful way out: a `return <type>, nil` must return the variable that received the node's
			// nullable (assigned before, in a block enclosing the return) or delegate to another walker
			if reads {
				parents := parentMap(fd)
				isLibNullable := func(e ast.Node) bool {
					found := false
					ast.Inspect(e, func(q ast.Node) bool {
						if s, ok := q.(*ast.SelectorExpr); ok && s.Sel.Name == "Nullable" {
							if lf := fieldOf(info, s); lf != nil && lf.Pkg() != nil && !strings.HasPrefix(lf.Pkg().Path(), modulePath) {
								found = true
							}
						}
						return true
					})
					return found
				}
				k := 0
				ast.Inspect(fd.Body, func(m ast.Node) bool {
					if _, ok := m.(*ast.FuncLit); ok {
						return false
					}
					rs, ok := m.(*ast.ReturnStmt)
					if !ok || len(rs.Results) != 2 || !isNilIdent(info, rs.Results[1]) {
						return true
					}
					k++
					good := false
					switch x := ast.Unparen(rs.Results[0]).(type) {
					case *ast.Ident:
						v := objOf(info, x)
						ast.Inspect(fd.Body, func(q ast.Node) bool {
							as, ok := q.(*ast.AssignStmt)
							if !ok || as.Pos() > rs.Pos() || len(as.Lhs) != 1 || len(as.Rhs) != 1 {
								return true
							}
							sel, ok := ast.Unparen(as.Lhs[0]).(*ast.SelectorExpr)
							if !ok || sel.Sel.Name != "Nullable" || !isLibNullable(as.Rhs[0]) {
								return true
							}
							if id, ok := ast.Unparen(sel.X).(*ast.Ident); !ok || objOf(info, id) != v {
								return true
							}
							// the assignment's block encloses the return
							blk := parents[as]
							for a := parents[rs]; a != nil; a = parents[a] {
								if a == blk {
									good = true
								}
							}
							return true
						})
					case *ast.CallExpr:
						if fn := callee(info, x); fn != nil && fn.Pkg() == p.Types && strings.HasPrefix(fn.Name(), "walk") {
							good = true
						}
						if isLibNullable(x) {
							good = true
						}
						if fn := callee(info, x); fn != nil && fn.Pkg() != nil && fn.Pkg().Path() == astPkgPath && fn.Name() == "Any" {
							good = true // `any` already accepts null
						}
					default:
						good = isLibNullable(x)
					}
					r.Check(good, "frontier/nullable-read", fmt.Sprintf("%s on successful return #%d", cons, k), rs.Pos(), "the returned type received the node's `nullable`",
						fmt.Sprintf("internal/openapi.%s returns %s without giving it the node's `nullable` (the other ways out of the walker do): for that shape of schema a required nullable property becomes a plain Go value and null does not round-trip", fd.Name.Name, exprString(rs.Results[0])))
					return true
				})
			}
			r.Check(reads, "frontier/nullable-read", cons, fd.Pos(), "carries `nullable` into the IR",
				fmt.Sprintf("internal/openapi.%s builds a type without reading the node's `nullable`: a document with null there is accepted by the schema, but the generated Go field is not a pointer — null decodes to the zero value and is re-encoded as false / 0 / \"\" (the sibling walkers carry it)", fd.Name.Name))
		}
	}
	r.Count("OpenAPI walkers", n)
	r.Floor("OpenAPI walkers", 12)
}

// c01NumberKinds: "integer" yields an integer kind, "number" a float kind.
func c01NumberKinds(ctx *Ctx, r *Report) {
	intKinds := map[string]bool{"KindInt8": true, "KindInt16": true, "KindInt32": true, "KindInt64": true, "KindUint8": true, "KindUint16": true, "KindUint32": true, "KindUint64": true}
	floatKinds := map[string]bool{"KindFloat32": true, "KindFloat64": true}
	check := func(rel, fnName string, want map[string]bool, label string) {
		p := ctx.Pkg(rel)
		if p == nil {
			return
		}
		var fd *ast.FuncDecl
		for _, f := range p.Syntax {
			for _, d := range f.Decls {
				if x, ok := d.(*ast.FuncDecl); ok && x.Name.Name == fnName {
					fd = x
				}
			}
		}
		if fd == nil {
			r.Undecided("anchor lost: %s.%s", rel, fnName)
			return
		}
		var bad []string
		found := 0
		ast.Inspect(fd.Body, func(m ast.Node) bool {
			if s, ok := m.(*ast.SelectorExpr); ok && strings.HasPrefix(s.Sel.Name, "Kind") && (intKinds[s.Sel.Name] || floatKinds[s.Sel.Name]) {
				found++
				if !want[s.Sel.Name] {
					bad = append(bad, s.Sel.Name)
				}
			}
			return true
		})
		r.Check(found > 0 && len(bad) == 0, "kinds/number-kind-agreement", rel+"."+fnName+" "+label, fd.Pos(), "only "+label+" kinds",
			fmt.Sprintf("%s.%s builds %v for a schema `%s`: values the schema accepts do not fit the generated Go field (or fractional values are truncated)", rel, fnName, bad, label))
	}
	check("internal/openapi", "walkInteger", intKinds, "integer")
	check("internal/openapi", "walkNumber", floatKinds, "number")
	// jsonschema.walkNumber handles both: the float kind is chosen under the test for "number", the integer kind otherwise
	p := ctx.Pkg("internal/jsonschema")
	if p == nil {
		return
	}
	var fd *ast.FuncDecl
	for _, f := range p.Syntax {
		for _, d := range f.Decls {
			if x, ok := d.(*ast.FuncDecl); ok && x.Name.Name == "walkNumber" {
				fd = x
			}
		}
	}
	if fd == nil {
		r.Undecided("anchor lost: jsonschema.walkNumber")
		return
	}
	parents := parentMap(fd)
	okShape := true
	why := ""
	seen := 0
	ast.Inspect(fd.Body, func(m ast.Node) bool {
		s, ok := m.(*ast.SelectorExpr)
		if !ok || !(intKinds[s.Sel.Name] || floatKinds[s.Sel.Name]) {
			return true
		}
		seen++
		underNumber := false
		for _, c := range enclosingConds(parents, s) {
			if strings.Contains(exprString(c.stmt.Cond), "typeNumber") && !c.inElse && !strings.Contains(exprString(c.stmt.Cond), "!=") {
				underNumber = true
			}
		}
		if floatKinds[s.Sel.Name] != underNumber {
			okShape = false
			why = s.Sel.Name + " is chosen " + map[bool]string{true: "under", false: "outside"}[underNumber] + " the test for type \"number\""
		}
		return true
	})
	r.Check(seen >= 2 && okShape, "kinds/number-kind-agreement", "internal/jsonschema.walkNumber", fd.Pos(), "a float kind exactly under the test for \"number\", an integer kind otherwise",
		"jsonschema.walkNumber: "+why+": `number` values do not fit an integer field / `integer` fields become floats")
}

func c01UnionTemplates(ctx *Ctx, r *Report) {
	ts, err := loadTemplates(ctx, "golang")
	if err != nil {
		return
	}
	type spec struct{ file, over, what string }
	for _, sp := range []spec{
		{"types/disjunction_of_scalars.json_unmarshal.tmpl", "Struct.Fields", "every field of the union struct is tried"},
		{"types/disjunction_of_scalars.json_marshal.tmpl", "Struct.Fields", "every field of the union struct can be emitted"},
		{"types/disjunction_of_refs.json_marshal.tmpl", "Struct.Fields", "every field of the union struct can be emitted"},
		{"types/disjunction_of_refs.json_unmarshal.tmpl", "DiscriminatorMapping", "every entry of the discriminator mapping has a case"},
	} {
		tree := ts.trees[sp.file]
		if tree == nil {
			r.Undecided("anchor lost: golang template %s", sp.file)
			continue
		}
		var rng *parse.RangeNode
		walkTmpl(tree.Root, func(m parse.Node) bool {
			if x, ok := m.(*parse.RangeNode); ok && rng == nil {
				rng = x
			}
			return true
		})
		okR := rng != nil && strings.HasSuffix(strings.TrimSpace(rng.Pipe.String()[strings.LastIndex(rng.Pipe.String(), "=")+1:]), sp.over)
		// no filter directly under the range, except the catch-all test of the mapping
		if okR {
			for _, nd := range rng.List.Nodes {
				if in, ok := nd.(*parse.IfNode); ok && !strings.Contains(in.Pipe.String(), "cog_discriminator_catch_all") && in.ElseList == nil {
					if !strings.Contains(in.Pipe.String(), ".Type.Kind") {
						okR = false
					}
				}
			}
		}
		r.Check(okR, "traverse/union-template", "golang "+sp.file, token.NoPos, sp.what,
			fmt.Sprintf("%s no longer ranges over %s without a filter: some branches of a union are never decoded / encoded", sp.file, sp.over))
		txt := tmplText(tree.Root)
		if strings.Contains(sp.file, "scalars.json_unmarshal") {
			body := tmplText(rng.List)
			r.Check(strings.Contains(body, "return nil") && strings.Contains(body, "errList = append(errList, err)") && strings.Contains(txt, "errors.Join(errList...)"), "traverse/union-template", "golang "+sp.file+" outcome", token.NoPos,
				"returns on the first branch that decodes, reports the joined errors when none does", sp.file+": the decoder no longer returns on the first branch that decodes, or no longer reports an error when no branch does")
		}
		if strings.Contains(sp.file, "json_marshal") {
			body := tmplText(rng.List)
			r.Check(strings.Contains(body, "!= nil") && strings.Contains(body, "return json.Marshal(resource."), "traverse/union-template", "golang "+sp.file+" outcome", token.NoPos,
				"the first set branch is what gets encoded", sp.file+": the encoder no longer writes the value of the branch that is set")
		}
	}
}

// ---------------------------------------------------------------------------
// C11

func c11PythonWire(ctx *Ctx, r *Report) {
	p := ctx.Pkg("internal/jennies/python")
	if p == nil {
		r.Undecided("package internal/jennies/python not found")
		return
	}
	info := p.TypesInfo
	nameF := astField(ctx, "StructField", "Name")
	requiredF := astField(ctx, "StructField", "Required")
	n := 0
	for _, fnName := range []string{"generateToJSONMethod", "generateFromJSONMethod"} {
		var fd *ast.FuncDecl
		for _, f := range p.Syntax {
			for _, d := range f.Decls {
				if x, ok := d.(*ast.FuncDecl); ok && x.Name.Name == fnName {
					fd = x
				}
			}
		}
		if fd == nil {
			r.Undecided("anchor lost: python.RawTypes.%s", fnName)
			continue
		}
		parents := parentMap(fd)
		k := 0
		ast.Inspect(fd.Body, func(m ast.Node) bool {
			c, ok := m.(*ast.CallExpr)
			if !ok || len(c.Args) < 2 {
				return true
			}
			fn := callee(info, c)
			if fn == nil || fn.FullName() != "fmt.Sprintf" {
				return true
			}
			// the format may be a concatenation of literals
			format := ""
			ast.Inspect(c.Args[0], func(q ast.Node) bool {
				if lit, ok := q.(*ast.BasicLit); ok && lit.Kind == token.STRING {
					format += strings.Trim(lit.Value, "`\"")
				}
				return true
			})
			// verbs that sit between quotes: JSON keys
			verb := 0
			for i := 0; i < len(format); i++ {
				if format[i] != '%' || i+1 >= len(format) {
					continue
				}
				j := i + 1
				explicit := -1
				if format[j] == '[' {
					end := strings.IndexByte(format[j:], ']')
					fmt.Sscanf(format[j+1:j+end], "%d", &explicit)
					j += end + 1
				}
				if j >= len(format) || format[j] == '%' {
					i = j
					continue
				}
				argIdx := verb
				if explicit > 0 {
					argIdx = explicit - 1
				} else {
					verb++
				}
				quotedKey := i > 0 && (format[i-1] == '"' || (i > 1 && format[i-2:i] == `\"`)) && j+1 < len(format) && (format[j+1] == '"' || format[j+1] == '\\')
				// `args["%s"]` indexes the keyword arguments of the constructor: a Python identifier, not a JSON key
				if quotedKey && i >= 6 && strings.HasSuffix(format[:i-1], "args[") {
					quotedKey = false
				}
				i = j
				if !quotedKey || 1+argIdx >= len(c.Args) {
					continue
				}
				n++
				k++
				arg := c.Args[1+argIdx]
				s, isSel := ast.Unparen(arg).(*ast.SelectorExpr)
				okKey := isSel && fieldOf(info, s) == nameF
				r.Check(okKey, "skeleton/wire-name", fmt.Sprintf("python %s key #%d", fnName, k), c.Pos(), "the quoted key is field.Name itself",
					fmt.Sprintf("python.RawTypes.%s writes `%s` between the quotes of a JSON key: the generated Python code reads / writes another key than the one the schema declares (Go uses StructField.Name)", fnName, exprString(arg)))
			}
			return true
		})
		if fnName == "generateToJSONMethod" {
			// the two loops: unconditional entries under `!field.Required → continue`, conditional ones under `field.Required → continue`
			var guards []string
			ast.Inspect(fd.Body, func(m ast.Node) bool {
				is, ok := m.(*ast.IfStmt)
				if !ok || len(is.Body.List) != 1 {
					return true
				}
				if b, ok := is.Body.List[0].(*ast.BranchStmt); !ok || b.Tok != token.CONTINUE {
					return true
				}
				if _, inLoop := parents[parents[ast.Node(is)]].(*ast.RangeStmt); !inLoop {
					return true
				}
				cond := ast.Unparen(is.Cond)
				neg := false
				if u, ok := cond.(*ast.UnaryExpr); ok && u.Op == token.NOT {
					neg = true
					cond = ast.Unparen(u.X)
				}
				if s, ok := cond.(*ast.SelectorExpr); ok && fieldOf(info, s) == requiredF {
					guards = append(guards, map[bool]string{true: "skip-optional", false: "skip-required"}[neg])
				} else {
					guards = append(guards, "other:"+exprString(is.Cond))
				}
				return true
			})
			okSplit := len(guards) == 2 && guards[0] == "skip-optional" && guards[1] == "skip-required"
			r.Check(okSplit, "skeleton/omission-agreement", "python to_json required/optional split", fd.Pos(), "required fields are always written, the others only when set — the split is StructField.Required, as for Go's omitempty",
				fmt.Sprintf("python.RawTypes.generateToJSONMethod no longer splits the fields on StructField.Required (%v): Python omits (or always writes) keys that Go's `omitempty` treats the other way, so the two SDKs disagree on the wire", guards))
		}
	}
	r.Count("JSON keys written by the Python to_json / from_json generators", n)
	r.Floor("JSON keys written by the Python to_json / from_json generators", 4)
}

func c11FromJSON(ctx *Ctx, r *Report) {
	p := ctx.Pkg("internal/jennies/python")
	if p == nil {
		return
	}
	info := p.TypesInfo
	var fd *ast.FuncDecl
	for _, f := range p.Syntax {
		for _, d := range f.Decls {
			if x, ok := d.(*ast.FuncDecl); ok && x.Name.Name == "fromJSONForTypeRec" {
				fd = x
			}
		}
	}
	if fd == nil {
		r.Undecided("anchor lost: python.RawTypes.fromJSONForTypeRec")
		return
	}
	// (3a) shortcuts accept leaf kinds only
	shortcuts := 0
	ast.Inspect(fd.Body, func(m ast.Node) bool {
		c, ok := m.(*ast.CallExpr)
		if !ok {
			return true
		}
		fn := callee(info, c)
		if fn == nil || (fn.Name() != "IsArrayOf" && fn.Name() != "IsMapOf") {
			return true
		}
		shortcuts++
		var extra []string
		for _, a := range c.Args {
			if s := exprString(a); !strings.HasSuffix(s, "KindScalar") {
				extra = append(extra, s)
			}
		}
		r.Check(len(extra) == 0, "kinds/wholesale-leaf-only", "python fromJSONForTypeRec "+fn.Name(), c.Pos(), "only collections of scalars are left undecoded",
			fmt.Sprintf("collections of %v are left as decoded JSON: the objects below them never go through from_json, so to_json / attribute access on them fails or yields another document", extra))
		return true
	})
	r.Count("python from_json shortcuts", shortcuts)
	r.Floor("python from_json shortcuts", 2)
	// (3b) struct references are decoded by the referee's from_json; arrays, maps recurse with the value type; unions use the mapping
	txt := map[string]bool{}
	ast.Inspect(fd.Body, func(m ast.Node) bool {
		if lit, ok := m.(*ast.BasicLit); ok && lit.Kind == token.STRING {
			txt[strings.Trim(lit.Value, "`\"")] = true
		}
		return true
	})
	hasFromJSON := false
	for t := range txt {
		if strings.Contains(t, ".from_json(") {
			hasFromJSON = true
		}
	}
	recursesOn := map[string]bool{}
	ast.Inspect(fd.Body, func(m ast.Node) bool {
		if as, ok := m.(*ast.AssignStmt); ok && len(as.Lhs) == 1 && len(as.Rhs) == 1 {
			rs := exprString(as.Rhs[0])
			if strings.HasSuffix(rs, ".Array.ValueType") {
				recursesOn["array"] = true
			}
			if strings.HasSuffix(rs, ".Map.ValueType") {
				recursesOn["map"] = true
			}
		}
		if c, ok := m.(*ast.CallExpr); ok {
			if fn := callee(info, c); fn != nil && fn.Name() == "disjunctionFromJSON" {
				recursesOn["disjunction"] = true
			}
		}
		return true
	})
	r.Check(hasFromJSON && recursesOn["array"] && recursesOn["map"] && recursesOn["disjunction"], "traverse/from-json-reach", "python fromJSONForTypeRec reaches nested objects", fd.Pos(),
		"struct references → from_json, arrays and maps → their value type, unions → discriminator mapping",
		fmt.Sprintf("python.RawTypes.fromJSONForTypeRec no longer decodes struct references through from_json or no longer recurses into arrays / maps / unions (%v): nested objects stay plain dicts", recursesOn))
	// (4) nullable-aware decoding
	nullableF := astField(ctx, "Type", "Nullable")
	reads := false
	// (the method generator reads Nullable for another purpose — explicit nulls of defaulted properties — which says
	// nothing about the nested from_json calls: only the two functions that write those calls count)
	for _, name := range []string{"fromJSONForTypeRec", "disjunctionFromJSON"} {
		for _, f := range p.Syntax {
			for _, d := range f.Decls {
				if x, ok := d.(*ast.FuncDecl); ok && x.Name.Name == name && x.Body != nil {
					ast.Inspect(x.Body, func(m ast.Node) bool {
						if s, ok := m.(*ast.SelectorExpr); ok && fieldOf(info, s) == nullableF {
							reads = true
						}
						return true
					})
					for t := range txt {
						if strings.Contains(t, "is not None") || strings.Contains(t, "is None") {
							reads = true
						}
					}
				}
			}
		}
	}
	r.Check(reads, "flow/nullable-decoded", "python from_json handles null", fd.Pos(), "a nullable value is tested against None before a nested from_json",
		"the from_json generators never consult Type.Nullable nor emit a None test: for `inner: Inner | null` the document {\"inner\": null} reaches `Inner.from_json(None)`, which raises TypeError — a document the schema accepts (and Go decodes) cannot be loaded")
}

var _ = types.Universe
var _ *packages.Package

// ---------------------------------------------------------------------------
// rules added after the independent seeds for C01 / C11

// c01TypeNameClauses: in a switch over JSON type names of a JSON-family front-end, the clause for "integer" builds
// integer kinds only and the clause for "number" float kinds only — a clause that lists both and builds one kind merges them.
func c01TypeNameClauses(ctx *Ctx, r *Report) {
	intKinds := map[string]bool{"KindInt8": true, "KindInt16": true, "KindInt32": true, "KindInt64": true, "KindUint8": true, "KindUint16": true, "KindUint32": true, "KindUint64": true}
	floatKinds := map[string]bool{"KindFloat32": true, "KindFloat64": true}
	n := 0
	for _, rel := range []string{"internal/jsonschema", "internal/openapi"} {
		p := ctx.Pkg(rel)
		if p == nil {
			continue
		}
		for _, f := range p.Syntax {
			var fn string
			ast.Inspect(f, func(m ast.Node) bool {
				if fd, ok := m.(*ast.FuncDecl); ok {
					fn = fd.Name.Name
				}
				cc, ok := m.(*ast.CaseClause)
				if !ok {
					return true
				}
				// clauses of a switch over type *names* (strings), not of a Go type switch
				if len(cc.List) == 0 {
					return true
				}
				if b, ok := p.TypesInfo.TypeOf(cc.List[0]).(*types.Basic); !ok || b.Info()&types.IsString == 0 {
					return true
				}
				hasInt, hasNum := false, false
				for _, e := range cc.List {
					s := strings.ToLower(exprString(e))
					if strings.HasSuffix(s, "integer") {
						hasInt = true
					}
					if strings.HasSuffix(s, "number") {
						hasNum = true
					}
				}
				if !hasInt && !hasNum {
					return true
				}
				var kinds []string
				for _, st := range cc.Body {
					ast.Inspect(st, func(k ast.Node) bool {
						if s, ok := k.(*ast.SelectorExpr); ok && (intKinds[s.Sel.Name] || floatKinds[s.Sel.Name]) {
							kinds = append(kinds, s.Sel.Name)
						}
						return true
					})
				}
				if len(kinds) == 0 {
					return true // the clause delegates (walkNumber / walkInteger are checked on their own)
				}
				n++
				bad := ""
				for _, k := range kinds {
					if hasInt && floatKinds[k] {
						bad = "the clause for \"integer\" builds " + k
					}
					if hasNum && intKinds[k] {
						bad = "the clause for \"number\" builds " + k
					}
				}
				r.Check(bad == "", "kinds/number-kind-agreement", fmt.Sprintf("%s.%s clause %s", rel, fn, exprString(cc.List[0])), cc.Pos(), "integer → integer kind, number → float kind",
					fmt.Sprintf("%s.%s: %s: integers beyond 2^53 lose precision when decoded into float64 (or fractional numbers do not fit an integer field)", rel, fn, bad))
				return true
			})
		}
	}
	r.Count("type-name clauses building number kinds", n)
	r.Floor("type-name clauses building number kinds", 2)
}

// c01SiblingReplacements: within one function, the replacements built by the same constructor call (same printed
// arguments) set Nullable under the same condition.
func c01SiblingReplacements(ctx *Ctx, r *Report) {
	p := ctx.Pkg("internal/ast/compiler")
	if p == nil {
		return
	}
	info := p.TypesInfo
	nullableF := astField(ctx, "Type", "Nullable")
	n := 0
	for _, f := range p.Syntax {
		for _, d := range f.Decls {
			fd, ok := d.(*ast.FuncDecl)
			if !ok || fd.Body == nil {
				continue
			}
			fobj, _ := info.Defs[fd.Name].(*types.Func)
			parents := parentMap(fd)
			// constructor text -> list of nullable treatments
			groups := map[string][]string{}
			pos := map[string]token.Pos{}
			ast.Inspect(fd.Body, func(m ast.Node) bool {
				as, ok := m.(*ast.AssignStmt)
				if !ok || as.Tok != token.DEFINE || len(as.Lhs) != 1 || len(as.Rhs) != 1 {
					return true
				}
				c, ok := as.Rhs[0].(*ast.CallExpr)
				if !ok {
					return true
				}
				fn := callee(info, c)
				if fn == nil || fn.Pkg() == nil || fn.Pkg().Path() != astPkgPath || fn.Name() != "NewRef" {
					return true
				}
				id, ok := as.Lhs[0].(*ast.Ident)
				if !ok {
					return true
				}
				refObj := objOf(info, id)
				blk, ok := parents[ast.Node(as)].(*ast.BlockStmt)
				if !ok {
					return true
				}
				var treat []string
				ast.Inspect(blk, func(k ast.Node) bool {
					a2, ok := k.(*ast.AssignStmt)
					if !ok || a2.Pos() < as.Pos() {
						return true
					}
					for i, l := range a2.Lhs {
						if s, ok := ast.Unparen(l).(*ast.SelectorExpr); ok && fieldOf(info, s) == nullableF && isIdentOf(info, s.X, refObj) && i < len(a2.Rhs) {
							t := exprString(a2.Rhs[i])
							for _, ce := range enclosingConds(parents, a2) {
								if ce.stmt.Pos() > as.Pos() {
									t += " if " + exprString(ce.stmt.Cond)
								}
							}
							treat = append(treat, t)
						}
					}
					return true
				})
				key := exprString(c)
				groups[key] = append(groups[key], strings.Join(treat, "; "))
				pos[key] = as.Pos()
				return true
			})
			for key, ts := range groups {
				if len(ts) < 2 {
					continue
				}
				n++
				same := true
				for _, t := range ts {
					if t != ts[0] {
						same = false
					}
				}
				r.Check(same, "siblings/replacement-agreement", fmt.Sprintf("%s replacements %s", ctx.FuncName(fobj), key), pos[key], "every occurrence sets Nullable the same way ("+ts[0]+")",
					fmt.Sprintf("%s builds the same replacement %s at %d places and sets its Nullable differently (%s): the second occurrence of a type is treated differently from the first — e.g. a union containing null keeps its nullability only where its struct is first generated", ctx.FuncName(fobj), key, len(ts), strings.Join(ts, " | ")))
			}
		}
	}
	r.Count("functions building one replacement at several places", n)
	r.Floor("functions building one replacement at several places", 1)
}

// c01LoopLocalResult: in the strict decoder template, the variable that receives a nested decode inside an emitted loop
// is declared inside that loop (a variable shared by all iterations accumulates the elements of earlier entries).
func c01LoopLocalResult(ctx *Ctx, r *Report) {
	ts, err := loadTemplates(ctx, "golang")
	if err != nil {
		return
	}
	tree := ts.trees[recStrict.define]
	if tree == nil {
		r.Undecided("anchor lost: template %q", recStrict.define)
		return
	}
	n := 0
	var visit func(l *parse.ListNode)
	visit = func(l *parse.ListNode) {
		if l == nil {
			return
		}
		loopAt := -1
		for i, nd := range l.Nodes {
			if tx, ok := nd.(*parse.TextNode); ok && i+2 < len(l.Nodes) {
				if loopHeadRe.MatchString(strings.TrimRight(string(tx.Text), " ")) {
					if nx, ok := l.Nodes[i+2].(*parse.TextNode); ok && strings.HasPrefix(strings.TrimLeft(string(nx.Text), " "), ":= range") {
						loopAt = i
					}
				}
			}
			switch x := nd.(type) {
			case *parse.IfNode:
				visit(x.List)
				visit(x.ElseList)
			case *parse.RangeNode:
				visit(x.List)
			case *parse.WithNode:
				visit(x.List)
			case *parse.TemplateNode:
				if x.Name != recStrict.define || loopAt < 0 {
					continue
				}
				into := strings.TrimSpace(dictArgs(x.Pipe)["UnmarshalInto"])
				if !strings.HasPrefix(into, "$") {
					continue
				}
				n++
				// where is `var {{ $into }}` emitted?
				declAt := -1
				for j, nd2 := range l.Nodes {
					if tx, ok := nd2.(*parse.TextNode); ok && strings.HasSuffix(strings.TrimRight(string(tx.Text), " "), "var") && j+1 < len(l.Nodes) {
						if an, ok := l.Nodes[j+1].(*parse.ActionNode); ok && strings.TrimSpace(an.Pipe.String()) == into {
							declAt = j
						}
					}
				}
				r.Check(declAt > loopAt, "skeleton/loop-local-result", fmt.Sprintf("%s: %s declared inside its loop", recStrict.define, into), token.NoPos, "declared after the loop header, once per iteration",
					fmt.Sprintf("%s: the variable %s that receives the nested decode is not declared inside the emitted loop: every iteration decodes into the same variable, so slices / maps of later entries start with the elements of earlier ones", ts.posOf(ctx, recStrict.define, x), into))
			}
		}
	}
	visit(tree.Root)
	r.Count("nested decodes inside emitted loops of the strict decoder", n)
	r.Floor("nested decodes inside emitted loops of the strict decoder", 2)
}

// c11DecodingMapComplete: python disjunctionFromJSON puts every discriminator value of the mapping into the decoding
// map: the only `continue` of the loop over the mapping's keys is the one for the catch-all entry.
func c11DecodingMapComplete(ctx *Ctx, r *Report) {
	p := ctx.Pkg("internal/jennies/python")
	if p == nil {
		return
	}
	var fd *ast.FuncDecl
	for _, f := range p.Syntax {
		for _, d := range f.Decls {
			if x, ok := d.(*ast.FuncDecl); ok && x.Name.Name == "disjunctionFromJSON" {
				fd = x
			}
		}
	}
	if fd == nil {
		r.Undecided("anchor lost: python.RawTypes.disjunctionFromJSON")
		return
	}
	parents := parentMap(fd)
	var loop *ast.RangeStmt
	ast.Inspect(fd.Body, func(m ast.Node) bool {
		if rs, ok := m.(*ast.RangeStmt); ok && loop == nil && strings.Contains(strings.ToLower(exprString(rs.X)), "discriminator") {
			loop = rs
		}
		return true
	})
	if loop == nil {
		r.Undecided("anchor changed: no loop over the discriminator values in python.RawTypes.disjunctionFromJSON")
		return
	}
	bad := ""
	fills := false
	ast.Inspect(loop.Body, func(m ast.Node) bool {
		switch x := m.(type) {
		case *ast.BranchStmt:
			if x.Tok == token.CONTINUE || x.Tok == token.BREAK {
				okSkip := false
				for _, ce := range enclosingConds(parents, x) {
					if strings.Contains(exprString(ce.stmt.Cond), "DiscriminatorCatchAll") && !ce.inElse {
						okSkip = true
					}
				}
				if !okSkip {
					bad = "an entry can be skipped at " + ctx.Pos(x.Pos())
				}
			}
		case *ast.AssignStmt:
			if len(x.Lhs) == 1 && strings.Contains(exprString(x.Lhs[0]), "decodingMap") {
				if len(enclosingConds(parents, x)) == 0 || true {
					conds := 0
					for _, ce := range enclosingConds(parents, x) {
						if ce.stmt.Pos() > loop.Pos() {
							conds++
						}
					}
					if conds == 0 {
						fills = true
					}
				}
			}
		}
		return true
	})
	if !fills && bad == "" {
		bad = "the decoding map is no longer filled unconditionally in the loop"
	}
	r.Check(bad == "", "traverse/decoding-map-complete", "python disjunctionFromJSON decoding map", loop.Pos(), "every discriminator value except the catch-all gets an entry",
		"python.RawTypes.disjunctionFromJSON: "+bad+": a discriminator value the mapping declares has no entry in the generated decoding map — from_json raises KeyError for it (or silently decodes it as the catch-all class)")
}

// c11EncoderTruthiness: in the Python runtime encoder, the result of a to_json() call is never tested for truthiness:
// an object whose properties are all optional and unset encodes to {} — which is falsy.
var pyAssignFromToJSON = regexp.MustCompile(`^\s*([A-Za-z_][A-Za-z0-9_]*)\s*=\s*.*to_json\w*\(`)

func c11EncoderTruthiness(ctx *Ctx, r *Report) {
	ts, err := loadTemplates(ctx, "python")
	if err != nil {
		r.Undecided("cannot parse python templates: %v", err)
		return
	}
	tree := ts.trees["runtime/encoder.tmpl"]
	if tree == nil {
		r.Undecided("anchor lost: python runtime/encoder.tmpl")
		return
	}
	src := tmplText(tree.Root)
	vars := map[string]bool{}
	for _, line := range strings.Split(src, "\n") {
		if m := pyAssignFromToJSON.FindStringSubmatch(line); m != nil {
			vars[m[1]] = true
		}
	}
	bad := ""
	for i, line := range strings.Split(src, "\n") {
		t := strings.TrimSpace(line)
		for v := range vars {
			for _, pat := range []string{"if " + v + ":", "if not " + v + ":", "elif " + v + ":", "return " + v + " or ", "if " + v + " and", "while " + v + ":"} {
				if strings.HasPrefix(t, pat) {
					bad = fmt.Sprintf("line %d tests the truthiness of %s, which holds the result of to_json()", i+1, v)
				}
			}
		}
		if strings.Contains(t, "to_json() or ") || strings.Contains(t, "to_json() and ") {
			bad = fmt.Sprintf("line %d tests the truthiness of a to_json() result", i+1)
		}
	}
	hasReturn := strings.Contains(src, "to_json")
	r.Check(bad == "" && hasReturn, "skeleton/encoder-total", "python runtime encoder returns to_json() results as they are", token.NoPos, "no truthiness test on a to_json() result",
		"python runtime/encoder.tmpl: "+bad+": an object with only unset optional properties encodes to {} (falsy), so the encoder falls through to the base class and raises `TypeError: … is not JSON serializable`")
}

// c11ComprehensionVar: the dict comprehension emitted for a map takes its loop variable from the nesting depth: a
// constant name would be shadowed by the comprehension of a nested map, whose value expression indexes every level.
func c11ComprehensionVar(ctx *Ctx, r *Report) {
	p := ctx.Pkg("internal/jennies/python")
	if p == nil {
		return
	}
	var fd *ast.FuncDecl
	for _, f := range p.Syntax {
		for _, d := range f.Decls {
			if x, ok := d.(*ast.FuncDecl); ok && x.Name.Name == "fromJSONForTypeRec" {
				fd = x
			}
		}
	}
	if fd == nil {
		return
	}
	n := 0
	ast.Inspect(fd.Body, func(m ast.Node) bool {
		lit, ok := m.(*ast.BasicLit)
		if !ok || lit.Kind != token.STRING {
			return true
		}
		v := strings.Trim(lit.Value, "`\"")
		i := strings.Index(v, " for ")
		if i < 0 || !strings.HasPrefix(v, "{") {
			return true
		}
		n++
		rest := v[i+5:]
		r.Check(strings.HasPrefix(rest, "%"), "skeleton/comprehension-var-fresh", "python fromJSONForTypeRec dict comprehension", lit.Pos(), "the loop variable is a parameter of the format (it depends on the nesting depth)",
			"the dict comprehension emitted for maps hard-codes its loop variable (`"+strings.SplitN(rest, " ", 2)[0]+"`): for a map of maps the inner comprehension shadows it and its value expression indexes both levels with the inner key — KeyError on any accepted document")
		return true
	})
	r.Count("dict comprehensions emitted by the python from_json generator", n)
	r.Floor("dict comprehensions emitted by the python from_json generator", 1)
}

// c01DiscriminatorDistinct: the field DisjunctionInferMapping picks as discriminator must tell the members apart: the
// statement that selects it has to depend on the candidates' *values* (the found-flag alone says the field exists, not
// that it discriminates). With a constant shared by all members the mapping collapses to one entry and every document is
// decoded as the same member.
func c01DiscriminatorDistinct(ctx *Ctx, r *Report) {
	fn := ctx.LookupMethod("internal/ast/compiler", "DisjunctionInferMapping", "inferDiscriminatorField")
	fd, p := ctx.DeclOf(fn)
	if fd == nil {
		r.Undecided("anchor lost: DisjunctionInferMapping.inferDiscriminatorField")
		return
	}
	info := p.TypesInfo
	parents := parentMap(fd)
	// the result variable: first result of the final return
	var result types.Object
	if rs, ok := fd.Body.List[len(fd.Body.List)-1].(*ast.ReturnStmt); ok && len(rs.Results) > 0 {
		if id, ok := ast.Unparen(rs.Results[0]).(*ast.Ident); ok {
			result = objOf(info, id)
		}
	}
	if result == nil {
		r.Undecided("anchor lost: result variable of inferDiscriminatorField")
		return
	}
	// values read from a map of maps of any (the candidates), and what they flow into
	tainted := map[types.Object]bool{}
	for round := 0; round < 3; round++ {
		ast.Inspect(fd.Body, func(m ast.Node) bool {
			as, ok := m.(*ast.AssignStmt)
			if !ok {
				return true
			}
			// value, ok := candidates[a][b]
			if len(as.Lhs) == 2 && len(as.Rhs) == 1 {
				if ix, ok := ast.Unparen(as.Rhs[0]).(*ast.IndexExpr); ok {
					if _, inner := ast.Unparen(ix.X).(*ast.IndexExpr); inner {
						if id, ok := as.Lhs[0].(*ast.Ident); ok && id.Name != "_" {
							tainted[objOf(info, id)] = true
						}
					}
				}
			}
			// set[value] = … / x = f(value)
			uses := false
			for _, e := range as.Rhs {
				ast.Inspect(e, func(q ast.Node) bool {
					if id, ok := q.(*ast.Ident); ok && tainted[objOf(info, id)] {
						uses = true
					}
					return true
				})
			}
			for _, l := range as.Lhs {
				if ix, ok := ast.Unparen(l).(*ast.IndexExpr); ok {
					keyTainted := false
					ast.Inspect(ix.Index, func(q ast.Node) bool {
						if id, ok := q.(*ast.Ident); ok && tainted[objOf(info, id)] {
							keyTainted = true
						}
						return true
					})
					if keyTainted || uses {
						if id, ok := ast.Unparen(ix.X).(*ast.Ident); ok {
							tainted[objOf(info, id)] = true
						}
					}
				} else if id, ok := ast.Unparen(l).(*ast.Ident); ok && uses {
					tainted[objOf(info, id)] = true
				}
			}
			return true
		})
	}
	n := 0
	ast.Inspect(fd.Body, func(m ast.Node) bool {
		as, ok := m.(*ast.AssignStmt)
		if !ok || len(as.Lhs) != 1 || as.Tok != token.ASSIGN {
			return true
		}
		if id, ok := as.Lhs[0].(*ast.Ident); !ok || objOf(info, id) != result {
			return true
		}
		n++
		dependsOnValues := false
		for _, ctl := range controllingIfs(parents, fd, as) {
			ast.Inspect(ctl.Cond, func(q ast.Node) bool {
				if id, ok := q.(*ast.Ident); ok && tainted[objOf(info, id)] {
					dependsOnValues = true
				}
				return true
			})
		}
		// … and on *all* of them being different: the number of distinct values is compared for equality with the number of members
		allDistinct := false
		for _, ctl := range controllingIfs(parents, fd, as) {
			ast.Inspect(ctl.Cond, func(q ast.Node) bool {
				be, ok := q.(*ast.BinaryExpr)
				if !ok || be.Op != token.EQL {
					return true
				}
				lenOf := func(e ast.Expr) (ast.Expr, bool) {
					c, ok := ast.Unparen(e).(*ast.CallExpr)
					if !ok || len(c.Args) != 1 {
						return nil, false
					}
					if id, ok := c.Fun.(*ast.Ident); !ok || id.Name != "len" {
						return nil, false
					}
					return c.Args[0], true
				}
				a, okA := lenOf(be.X)
				b, okB := lenOf(be.Y)
				if !okA || !okB {
					return true
				}
				ta, tb := false, false
				if id, ok := ast.Unparen(a).(*ast.Ident); ok && tainted[objOf(info, id)] {
					ta = true
				}
				if id, ok := ast.Unparen(b).(*ast.Ident); ok && tainted[objOf(info, id)] {
					tb = true
				}
				if ta != tb {
					allDistinct = true
				}
				return true
			})
		}
		if dependsOnValues {
			r.Check(allDistinct, "flow/discriminator-distinct", "DisjunctionInferMapping.inferDiscriminatorField requires pairwise distinct values", as.Pos(), "the number of distinct values equals the number of members",
				"inferDiscriminatorField accepts a candidate whose values are not all different (the test is weaker than `len(distinct) == len(members)`): with three members of which two share the constant, one member loses its mapping entry and its documents are decoded as another member")
		}
		r.Check(dependsOnValues, "flow/discriminator-distinct", "DisjunctionInferMapping.inferDiscriminatorField selects a field", as.Pos(), "the selection depends on the values the field takes in the members",
			"inferDiscriminatorField selects a field knowing only that every member has it as a constant: a constant shared by the members (`apiVersion: \"v1\"`) that sorts before the real discriminator is chosen, the mapping collapses to one entry and every document is decoded as the same member")
		return true
	})
	r.Count("statements selecting the inferred discriminator", n)
	r.Floor("statements selecting the inferred discriminator", 1)
}

// c11HintMonotone: Python's from_json generator derives the names it emits (comprehension variables by nesting depth,
// decoding-map names) from the `hint` string it threads through the recursion. Every recursive call must hand down a hint
// that extends the one it received (`hint + "_x"`): a hint rebuilt from something else resets the depth count, two nested
// comprehensions share their variable, and the inner value expression indexes both levels with the inner key.
func c11HintMonotone(ctx *Ctx, r *Report) {
	p := ctx.Pkg("internal/jennies/python")
	fn := ctx.LookupMethod("internal/jennies/python", "RawTypes", "fromJSONForTypeRec")
	fd, _ := ctx.DeclOf(fn)
	if p == nil || fd == nil {
		r.Undecided("anchor lost: python.RawTypes.fromJSONForTypeRec")
		return
	}
	info := p.TypesInfo
	// index and object of the parameter named hint
	idx, k := -1, 0
	var hint types.Object
	for _, f := range fd.Type.Params.List {
		for _, nm := range f.Names {
			if nm.Name == "hint" {
				idx, hint = k, info.Defs[nm]
			}
			k++
		}
	}
	if idx < 0 {
		r.Undecided("anchor lost: parameter `hint` of fromJSONForTypeRec")
		return
	}
	n := 0
	ast.Inspect(fd.Body, func(m ast.Node) bool {
		c, ok := m.(*ast.CallExpr)
		if !ok {
			return true
		}
		callee := callee(info, c)
		if callee == nil || len(c.Args) <= idx {
			return true
		}
		// recursive calls, and calls of the helpers of the same generator that take a hint at the same rank or by name
		hintArg := ast.Expr(nil)
		if callee == fn {
			hintArg = c.Args[idx]
		} else if cfd, _ := ctx.DeclOf(callee); cfd != nil && callee.Pkg() == p.Types {
			j := 0
			for _, f := range cfd.Type.Params.List {
				for _, nm := range f.Names {
					if nm.Name == "hint" && j < len(c.Args) {
						hintArg = c.Args[j]
					}
					j++
				}
			}
		}
		if hintArg == nil {
			return true
		}
		n++
		extends := false
		if be, ok := ast.Unparen(hintArg).(*ast.BinaryExpr); ok && be.Op == token.ADD {
			if id, ok := ast.Unparen(be.X).(*ast.Ident); ok && objOf(info, id) == hint {
				extends = true
			}
		}
		if id, ok := ast.Unparen(hintArg).(*ast.Ident); ok && objOf(info, id) == hint {
			extends = true
		}
		r.Check(extends, "skeleton/hint-monotone", fmt.Sprintf("python fromJSONForTypeRec hands a hint to %s #%d", callee.Name(), n), c.Pos(), "the hint handed down extends the one received",
			fmt.Sprintf("fromJSONForTypeRec calls %s with the hint %s, which does not start with the hint it received: the nesting depth counted from the hint restarts, a map nested behind this point reuses the comprehension variable of the enclosing map (KeyError, or values read under the wrong key)", callee.Name(), exprString(hintArg)))
		return true
	})
	r.Count("hints handed down by the python from_json generator", n)
	r.Floor("hints handed down by the python from_json generator", 4)
}

// c11GoPointerLast: Go's type formatter turns a nullable scalar into a pointer by prefixing the type name with `*`; every
// replacement of the name by another value type (time.Time for date-time strings) has to happen before that, otherwise
// the optional field is a plain value with `omitempty` — Go then writes "0001-01-01T00:00:00Z" where Python omits the key.
// Slices and maps, which have their own nil, may replace the name afterwards.
func c11GoPointerLast(ctx *Ctx, r *Report) {
	p := ctx.Pkg("internal/jennies/golang")
	fn := ctx.LookupMethod("internal/jennies/golang", "typeFormatter", "doFormatType")
	fd, _ := ctx.DeclOf(fn)
	if p == nil || fd == nil {
		r.Undecided("anchor lost: golang.typeFormatter.doFormatType")
		return
	}
	info := p.TypesInfo
	n := 0
	// blocks in which a variable receives "*" + itself
	ast.Inspect(fd.Body, func(m ast.Node) bool {
		blk, ok := m.(*ast.BlockStmt)
		if !ok {
			return true
		}
		for _, st := range blk.List {
			is, ok := st.(*ast.IfStmt)
			if !ok {
				continue
			}
			var ptrVar types.Object
			ast.Inspect(is.Body, func(q ast.Node) bool {
				as, ok := q.(*ast.AssignStmt)
				if !ok || len(as.Lhs) != 1 || len(as.Rhs) != 1 {
					return true
				}
				be, ok := ast.Unparen(as.Rhs[0]).(*ast.BinaryExpr)
				if !ok || be.Op != token.ADD {
					return true
				}
				if lit, ok := ast.Unparen(be.X).(*ast.BasicLit); ok && lit.Value == `"*"` {
					if id, ok := as.Lhs[0].(*ast.Ident); ok && strings.Contains(exprString(is.Cond), "Nullable") {
						ptrVar = objOf(info, id)
					}
				}
				return true
			})
			if ptrVar == nil {
				continue
			}
			n++
			// later statements of the same block assigning a literal value type to the same variable
			bad := ""
			for _, later := range blk.List {
				if later.Pos() <= is.Pos() {
					continue
				}
				ast.Inspect(later, func(q ast.Node) bool {
					as, ok := q.(*ast.AssignStmt)
					if !ok || len(as.Lhs) != 1 || len(as.Rhs) != 1 {
						return true
					}
					id, ok := as.Lhs[0].(*ast.Ident)
					if !ok || objOf(info, id) != ptrVar {
						return true
					}
					if tv, ok := info.Types[as.Rhs[0]]; ok && tv.Value != nil {
						v := strings.Trim(tv.Value.ExactString(), `"`)
						if !strings.HasPrefix(v, "[]") && !strings.HasPrefix(v, "map[") && bad == "" {
							bad = v
						}
					}
					return true
				})
			}
			r.Check(bad == "", "skeleton/go-pointer-last", fmt.Sprintf("golang.typeFormatter.doFormatType pointer prefix #%d", n), is.Pos(), "no value type replaces the name after the pointer prefix",
				fmt.Sprintf("doFormatType replaces the type name by %q after the `*` of nullable types was prepended: an optional field of that type is declared as a plain value with omitempty — absent and zero are no longer told apart, and Go writes a zero value where Python omits the key", bad))
		}
		return true
	})
	r.Count("pointer prefixes in golang.doFormatType", n)
	r.Floor("pointer prefixes in golang.doFormatType", 1)
}

// c06ResolveBeforeKindTest (contradiction rule): a function of a compiler pass that resolves one element of a list of
// types before asking for its kind (`schema.Resolve(branches[0])`) believes that the elements may be references; a loop of
// the same function that asks the kind of the other elements directly contradicts it — for a branch that is a reference
// to a named scalar the two answers differ.
func c06ResolveBeforeKindTest(ctx *Ctx, r *Report) {
	p := ctx.Pkg("internal/ast/compiler")
	if p == nil {
		return
	}
	info := p.TypesInfo
	ka := newKindAnalysis(ctx)
	n := 0
	for _, file := range p.Syntax {
		for _, d := range file.Decls {
			fd, ok := d.(*ast.FuncDecl)
			if !ok || fd.Body == nil {
				continue
			}
			fobj, _ := info.Defs[fd.Name].(*types.Func)
			isResolve := func(c *ast.CallExpr) bool {
				fn := callee(info, c)
				return fn != nil && (fn.Name() == "Resolve" || fn.Name() == "ResolveToType" || fn.Name() == "ResolveRefs") && len(c.Args) == 1
			}
			// collections one element of which is resolved by constant index
			resolvedColl := map[string]bool{}
			ast.Inspect(fd.Body, func(m ast.Node) bool {
				if c, ok := m.(*ast.CallExpr); ok && isResolve(c) {
					if ix, ok := ast.Unparen(c.Args[0]).(*ast.IndexExpr); ok {
						resolvedColl[exprString(ix.X)] = true
					}
				}
				return true
			})
			if len(resolvedColl) == 0 {
				continue
			}
			// what is asked of resolved values in this function (method names on variables bound to a Resolve result)
			resolvedVars := map[types.Object]bool{}
			ast.Inspect(fd.Body, func(m ast.Node) bool {
				if as, ok := m.(*ast.AssignStmt); ok && len(as.Rhs) == 1 {
					if c, ok := ast.Unparen(as.Rhs[0]).(*ast.CallExpr); ok && isResolve(c) {
						if id, ok := as.Lhs[0].(*ast.Ident); ok {
							resolvedVars[objOf(info, id)] = true
						}
					}
				}
				return true
			})
			askedOfResolved := map[string]bool{}
			ast.Inspect(fd.Body, func(m ast.Node) bool {
				if sel, ok := m.(*ast.SelectorExpr); ok {
					if id, ok := ast.Unparen(sel.X).(*ast.Ident); ok && resolvedVars[objOf(info, id)] {
						askedOfResolved[sel.Sel.Name] = true
					}
				}
				return true
			})
			ast.Inspect(fd.Body, func(m ast.Node) bool {
				rs, ok := m.(*ast.RangeStmt)
				if !ok || !resolvedColl[exprString(rs.X)] {
					return true
				}
				v, ok := rs.Value.(*ast.Ident)
				if !ok {
					return true
				}
				vo := info.Defs[v]
				n++
				direct := ""
				ast.Inspect(rs.Body, func(q ast.Node) bool {
					switch x := q.(type) {
					case *ast.CallExpr:
						if sel, ok := x.Fun.(*ast.SelectorExpr); ok {
							if id, ok := ast.Unparen(sel.X).(*ast.Ident); ok && objOf(info, id) == vo {
								if fn := callee(info, x); fn != nil && ka.predicates[fn.Origin()] != "" && askedOfResolved[fn.Name()] && direct == "" {
									direct = exprString(x)
								}
							}
						}
					case *ast.SelectorExpr:
						if id, ok := ast.Unparen(x.X).(*ast.Ident); ok && objOf(info, id) == vo && x.Sel.Name == "Kind" && askedOfResolved["Kind"] && direct == "" {
							direct = exprString(x)
						}
					}
					return true
				})
				r.Check(direct == "", "siblings/resolve-before-kind-test", fmt.Sprintf("%s loop over %s", ctx.FuncName(fobj), exprString(rs.X)), rs.Pos(), "elements are resolved before their kind is asked, like the element resolved outside the loop",
					fmt.Sprintf("%s resolves %s[k] before testing its kind but asks `%s` of the loop's elements directly: a branch that is a reference to a named scalar answers differently in the two places (the union is not collapsed and gets no custom (un)marshalling)", ctx.FuncName(fobj), exprString(rs.X), direct))
				return true
			})
		}
	}
	r.Count("loops over type lists one element of which is resolved in the same function", n)
	r.Floor("loops over type lists one element of which is resolved in the same function", 1)
}

// c01MapOnlyWithoutProperties: an object with declared properties is a struct, whatever its additionalProperties say; both
// JSON-family front-ends build a map only for objects without properties. A map built for an object that has properties
// declares every property with the type of the additional ones: accepted documents no longer decode.
func c01MapOnlyWithoutProperties(ctx *Ctx, r *Report) {
	newMap := ctx.LookupFunc("internal/ast", "NewMap")
	n := 0
	for _, rel := range []string{"internal/openapi", "internal/jsonschema"} {
		p := ctx.Pkg(rel)
		if p == nil || newMap == nil {
			r.Undecided("anchor lost: %s / ast.NewMap", rel)
			continue
		}
		info := p.TypesInfo
		for _, file := range p.Syntax {
			for _, d := range file.Decls {
				fd, ok := d.(*ast.FuncDecl)
				if !ok || fd.Body == nil || fd.Name.Name != "walkObject" {
					continue
				}
				parents := parentMap(fd)
				noProps := func(cond ast.Expr, truth bool) bool {
					// len(X.Properties) == 0 (truth) / != 0, > 0 (negated)
					found := false
					ast.Inspect(cond, func(q ast.Node) bool {
						be, ok := q.(*ast.BinaryExpr)
						if !ok {
							return true
						}
						c, ok := ast.Unparen(be.X).(*ast.CallExpr)
						if !ok {
							return true
						}
						id, ok := c.Fun.(*ast.Ident)
						if !ok || id.Name != "len" || len(c.Args) != 1 || !strings.HasSuffix(exprString(c.Args[0]), ".Properties") {
							return true
						}
						if tv, ok := info.Types[be.Y]; ok && tv.Value != nil && tv.Value.String() == "0" {
							if (be.Op == token.EQL) == truth && (be.Op == token.EQL || be.Op == token.NEQ || be.Op == token.GTR) {
								found = true
							}
						}
						return true
					})
					return found
				}
				ast.Inspect(fd.Body, func(m ast.Node) bool {
					c, ok := m.(*ast.CallExpr)
					if !ok || callee(info, c) != newMap {
						return true
					}
					n++
					guarded := false
					for _, ce := range enclosingConds(parents, c) {
						if noProps(ce.stmt.Cond, !ce.inElse) {
							guarded = true
						}
					}
					r.Check(guarded, "frontier/map-only-without-properties", rel+".walkObject builds a map", c.Pos(), "only for objects without declared properties",
						rel+".walkObject can build a map for an object that declares properties (additionalProperties is looked at first): the declared properties get the type of the additional ones and documents the schema accepts fail to decode")
					return true
				})
			}
		}
	}
	r.Count("maps built by the JSON-family object walkers", n)
	r.Floor("maps built by the JSON-family object walkers", 2)
}

// c01GoFieldTypeOverride: Go declares a field that refers to a *constant* with the constant's own scalar type. Replacing
// the field's type by the resolved one drops what the field itself says (its nullability: optional fields are pointers):
// it is only sound for constants. The override in formatField must sit under IsConcreteScalar() of the resolved type.
func c01GoFieldTypeOverride(ctx *Ctx, r *Report) {
	p := ctx.Pkg("internal/jennies/golang")
	fn := ctx.LookupMethod("internal/jennies/golang", "typeFormatter", "formatField")
	fd, _ := ctx.DeclOf(fn)
	if p == nil || fd == nil {
		r.Undecided("anchor lost: golang.typeFormatter.formatField")
		return
	}
	info := p.TypesInfo
	parents := parentMap(fd)
	typeT := ctx.LookupType("internal/ast", "Type")
	n := 0
	ast.Inspect(fd.Body, func(m ast.Node) bool {
		as, ok := m.(*ast.AssignStmt)
		if !ok || as.Tok != token.ASSIGN || len(as.Lhs) != 1 || len(as.Rhs) != 1 {
			return true
		}
		lid, ok := as.Lhs[0].(*ast.Ident)
		if !ok || namedOf(info.TypeOf(lid)) != typeT {
			return true
		}
		rid, ok := ast.Unparen(as.Rhs[0]).(*ast.Ident)
		if !ok {
			return true
		}
		n++
		concrete := false
		for _, ce := range enclosingConds(parents, as) {
			if ce.inElse {
				continue
			}
			ast.Inspect(ce.stmt.Cond, func(q ast.Node) bool {
				if c, ok := q.(*ast.CallExpr); ok {
					if sel, ok := c.Fun.(*ast.SelectorExpr); ok && sel.Sel.Name == "IsConcreteScalar" {
						if id, ok := ast.Unparen(sel.X).(*ast.Ident); ok && objOf(info, id) == objOf(info, rid) {
							concrete = true
						}
					}
				}
				return true
			})
		}
		r.Check(concrete, "skeleton/go-field-type-override", "golang.typeFormatter.formatField replaces the field's type", as.Pos(), "only by a resolved type that is a constant (IsConcreteScalar)",
			fmt.Sprintf("formatField replaces the field's type by %s without establishing that it is a constant: for a reference to a named scalar the field's own nullability is lost — an optional field becomes a plain value with omitempty and its zero value disappears on encoding", rid.Name))
		return true
	})
	r.Count("type overrides in golang.formatField", n)
	r.Floor("type overrides in golang.formatField", 1)
}

// c11ThirdRound: (a) Python from_json: a decoding expression may rely on declarations emitted beforehand (the
// `decoding_map_…` of a discriminated union): every fromJSONCode built from the result of a recursive call forwards that
// result's Setup together with its DecodingCall — a container that forwards only the call refers to a name that was never
// declared (NameError); (b) Go's marshaller of a union of scalars picks the branch that is set with `!= nil`: an emptiness
// test (`len(x) != 0`) skips an empty list / map branch and falls through to `null`.
func c11ThirdRound(ctx *Ctx, r *Report) {
	// (a)
	p := ctx.Pkg("internal/jennies/python")
	fn := ctx.LookupMethod("internal/jennies/python", "RawTypes", "fromJSONForTypeRec")
	fd, _ := ctx.DeclOf(fn)
	if p == nil || fd == nil {
		r.Undecided("anchor lost: python.RawTypes.fromJSONForTypeRec")
	} else {
		info := p.TypesInfo
		n := 0
		ast.Inspect(fd.Body, func(m ast.Node) bool {
			cl, ok := m.(*ast.CompositeLit)
			if !ok {
				return true
			}
			if nt := namedOf(info.TypeOf(cl)); nt == nil || nt.Obj().Name() != "fromJSONCode" {
				return true
			}
			// results of recursive calls mentioned in DecodingCall
			var callExpr, setupExpr ast.Expr
			for _, el := range cl.Elts {
				if kv, ok := el.(*ast.KeyValueExpr); ok {
					if id, ok := kv.Key.(*ast.Ident); ok {
						switch id.Name {
						case "DecodingCall":
							callExpr = kv.Value
						case "Setup":
							setupExpr = kv.Value
						}
					}
				}
			}
			if callExpr == nil {
				return true
			}
			var inner []types.Object
			ast.Inspect(callExpr, func(q ast.Node) bool {
				if s, ok := q.(*ast.SelectorExpr); ok && s.Sel.Name == "DecodingCall" {
					if id, ok := ast.Unparen(s.X).(*ast.Ident); ok {
						inner = append(inner, objOf(info, id))
					}
				}
				return true
			})
			for _, o := range inner {
				n++
				forwarded := false
				if setupExpr != nil {
					ast.Inspect(setupExpr, func(q ast.Node) bool {
						if s, ok := q.(*ast.SelectorExpr); ok && s.Sel.Name == "Setup" {
							if id, ok := ast.Unparen(s.X).(*ast.Ident); ok && objOf(info, id) == o {
								forwarded = true
							}
						}
						return true
					})
				}
				r.Check(forwarded, "skeleton/setup-forwarded", fmt.Sprintf("python fromJSONForTypeRec wraps %s.DecodingCall #%d", o.Name(), n), cl.Pos(), "the Setup of the wrapped result is forwarded with its DecodingCall",
					fmt.Sprintf("fromJSONForTypeRec wraps %s.DecodingCall into a container expression without forwarding %s.Setup: the declarations the expression relies on (decoding_map_… of a discriminated union) are never emitted — from_json raises NameError for a map / list of unions", o.Name(), o.Name()))
			}
			return true
		})
		r.Count("container decodings wrapping a recursive result", n)
		r.Floor("container decodings wrapping a recursive result", 2)
	}
	// (b)
	ts, err := loadTemplates(ctx, "golang")
	if err != nil {
		r.Undecided("cannot parse golang templates: %v", err)
		return
	}
	k := 0
	for _, name := range ts.names() {
		if !strings.Contains(ts.file[name], "disjunction_of_scalars.json_marshal") {
			continue
		}
		txt := tmplText(ts.trees[name].Root)
		for _, line := range strings.Split(txt, "\n") {
			if !strings.Contains(line, "if ") || !strings.Contains(line, "resource.") {
				continue
			}
			k++
			r.Check(strings.Contains(line, "!= nil") && !strings.Contains(line, "len("), "skeleton/union-branch-presence", fmt.Sprintf("go union marshaller branch test #%d", k), token.NoPos, "the branch that is set is recognised by `!= nil`",
				ts.file[name]+": a branch of the union is selected by another test than `!= nil` (`"+strings.TrimSpace(line)+"`): an empty list or map is a value of the union, an emptiness test skips it and the marshaller writes null")
		}
	}
	r.Count("branch tests of the Go union marshaller", k)
	r.Floor("branch tests of the Go union marshaller", 1)
}

// c01StrictEmptyList: the strict decoder decodes a list of non-scalar elements element by element and appends each to
// the target. For an empty list the loop does not run: unless the target is set to an empty (non-nil) list outside the
// loop it stays nil and is re-encoded as `null` — the document `{"items": []}` does not round-trip (and `null` is not
// accepted by the source schema for a required list).
func c01StrictEmptyList(ctx *Ctx, r *Report) {
	ts, err := loadTemplates(ctx, "golang")
	if err != nil {
		r.Undecided("cannot parse golang templates: %v", err)
		return
	}
	tree := ts.trees[recStrict.define]
	if tree == nil {
		r.Undecided("anchor lost: template %q", recStrict.define)
		return
	}
	checkTemporariesDepthNamed(ctx, r, ts, recStrict)
	txt := tmplText(tree.Root)
	i := strings.Index(txt, "partialArray :=")
	if i < 0 {
		r.Undecided("anchor lost: the element-wise list branch of %q", recStrict.define)
		return
	}
	rest := txt[i:]
	j := strings.Index(rest, "partialMap :=")
	if j > 0 {
		rest = rest[:j]
	}
	loop := strings.Index(rest, "for i")
	r.Count("element-wise list branches of the strict decoder", 1)
	assignedOutside := false
	for _, m := range regexp.MustCompile(`⟦\s*\.UnmarshalInto\s*⟧\s*=`).FindAllStringIndex(rest, -1) {
		if loop < 0 || m[0] < loop {
			assignedOutside = true
		}
	}
	// … or after the loop's closing brace under an emptiness test
	if !assignedOutside && strings.Contains(rest, "len(partialArray) == 0") {
		assignedOutside = true
	}
	r.Check(assignedOutside, "skeleton/strict-empty-list", "strict decoder list branch initialises the target", token.NoPos, "the target is set to an empty list outside the per-element loop",
		ts.file[recStrict.define]+": a list of objects is only built by appending inside the per-element loop: for `[]` the target stays nil and is re-encoded as null — {\"items\": []} does not round-trip through UnmarshalJSONStrict (the standard decoder gives [])")
}

// c01CueDefaultBranch: the CUE front-end removes the default from the branches of a union when it merely designates one
// of the values another branch allows (`string | *"abc"`). A default of another kind (`int | *"auto"`) is a branch of
// its own: the statement that skips the default's branch must be conditioned on a subsumption test against the other
// branches, otherwise the generated type cannot hold a value the schema accepts.
func c01CueDefaultBranch(ctx *Ctx, r *Report) {
	fn := ctx.LookupMethod("internal/simplecue", "generator", "declareDisjunction")
	fd, p := ctx.DeclOf(fn)
	if fd == nil {
		r.Undecided("anchor lost: simplecue.generator.declareDisjunction")
		return
	}
	info := p.TypesInfo
	parents := parentMap(fd)
	subsumes := func(e ast.Node) bool {
		found := false
		ast.Inspect(e, func(q ast.Node) bool {
			c, ok := q.(*ast.CallExpr)
			if !ok {
				return true
			}
			if sel, ok := c.Fun.(*ast.SelectorExpr); ok && sel.Sel.Name == "Subsume" {
				found = true
			}
			if f := callee(info, c); f != nil && f.Pkg() == p.Types {
				if hfd, _ := ctx.DeclOf(f); hfd != nil && hfd.Body != nil {
					ast.Inspect(hfd.Body, func(z ast.Node) bool {
						if s, ok := z.(*ast.SelectorExpr); ok && s.Sel.Name == "Subsume" {
							found = true
						}
						return true
					})
				}
			}
			return true
		})
		return found
	}
	n := 0
	ast.Inspect(fd.Body, func(m ast.Node) bool {
		br, ok := m.(*ast.BranchStmt)
		if !ok || br.Tok != token.CONTINUE {
			return true
		}
		// a `continue` under a test of equality with the default
		underDefault, underSubsume := false, false
		for _, ce := range enclosingConds(parents, br) {
			cs := exprString(ce.stmt.Cond)
			if strings.Contains(cs, "Equals(") && strings.Contains(strings.ToLower(cs), "default") {
				underDefault = true
			}
			if subsumes(ce.stmt.Cond) {
				underSubsume = true
			}
		}
		if !underDefault {
			return true
		}
		n++
		r.Check(underSubsume, "frontier/cue-default-branch-subsumed", "simplecue.declareDisjunction skips the default's branch", br.Pos(), "only when another branch subsumes it",
			"declareDisjunction drops the branch that equals the default without asking whether another branch allows that value: for `int | *\"auto\"` the field becomes a plain int64 — the document {\"v\": \"auto\"}, which the schema accepts (it is the default), does not decode")
		return true
	})
	r.Count("branches skipped as 'the default' by the CUE front-end", n)
	r.Floor("branches skipped as 'the default' by the CUE front-end", 1)
}

// c01OpenAPIWidestDefault: OpenAPI `number` / `integer` without a `format` are not limited to the narrow formats: the
// default clause of the walkers' switch on the format must build the widest kind of the family (float64 / int64). A
// narrower default loses digits of documents the schema accepts.
func c01OpenAPIWidestDefault(ctx *Ctx, r *Report) {
	p := ctx.Pkg("internal/openapi")
	if p == nil {
		return
	}
	info := p.TypesInfo
	n := 0
	for _, w := range []struct{ fn, widest string }{{"walkNumber", "KindFloat64"}, {"walkInteger", "KindInt64"}} {
		var fd *ast.FuncDecl
		for _, file := range p.Syntax {
			for _, d := range file.Decls {
				if x, ok := d.(*ast.FuncDecl); ok && x.Name.Name == w.fn {
					fd = x
				}
			}
		}
		if fd == nil {
			r.Undecided("anchor lost: openapi.%s", w.fn)
			continue
		}
		ast.Inspect(fd.Body, func(m ast.Node) bool {
			sw, ok := m.(*ast.SwitchStmt)
			if !ok || sw.Tag == nil || !strings.HasSuffix(exprString(sw.Tag), ".Format") {
				return true
			}
			hasDefault := false
			for _, st := range sw.Body.List {
				cc := st.(*ast.CaseClause)
				if cc.List != nil {
					continue
				}
				hasDefault = true
				n++
				kinds := ""
				for _, s := range cc.Body {
					ast.Inspect(s, func(q ast.Node) bool {
						if sel, ok := q.(*ast.SelectorExpr); ok && strings.HasPrefix(sel.Sel.Name, "Kind") {
							if _, isConst := info.Uses[sel.Sel].(*types.Const); isConst {
								kinds += sel.Sel.Name + " "
							}
						}
						return true
					})
				}
				r.Check(strings.TrimSpace(kinds) == w.widest, "kinds/openapi-widest-default", "openapi."+w.fn+" without format", cc.Pos(), "builds "+w.widest,
					fmt.Sprintf("openapi.%s builds %s for a schema without `format`: the narrow kind loses digits of values the schema accepts (3.141592653589793 re-encoded as 3.1415927)", w.fn, strings.TrimSpace(kinds)))
			}
			if !hasDefault {
				n++
				r.Bad("kinds/openapi-widest-default", "openapi."+w.fn+" without format", sw.Pos(), "the switch on the format has no default clause: a schema without `format` gets no kind")
			}
			return true
		})
	}
	r.Count("format switches of the OpenAPI number walkers", n)
	r.Floor("format switches of the OpenAPI number walkers", 2)
}

// c01GoByteSliceTrap: encoding/json writes any slice whose element kind is uint8 as a base64 *string*. A schema list of
// 8-bit unsigned integers (`[...uint8]`) is declared `[]uint8` by the Go jenny: the document `[1,2,3]` decodes, and is
// re-encoded as "AQID" — not JSON-equal, and not accepted by the source schema. The array formatter must treat the uint8
// element kind specially (widen it, or emit a marshaller); it does not.
func c01GoByteSliceTrap(ctx *Ctx, r *Report) {
	fn := ctx.LookupMethod("internal/jennies/golang", "typeFormatter", "formatArray")
	fd, _ := ctx.DeclOf(fn)
	if fd == nil {
		r.Undecided("anchor lost: golang.typeFormatter.formatArray")
		return
	}
	special := false
	ast.Inspect(fd.Body, func(m ast.Node) bool {
		switch x := m.(type) {
		case *ast.SelectorExpr:
			if x.Sel.Name == "KindUint8" || x.Sel.Name == "KindBytes" {
				special = true
			}
		case *ast.BasicLit:
			if strings.Contains(x.Value, "uint8") || strings.Contains(x.Value, "byte") {
				special = true
			}
		}
		return true
	})
	r.Count("array formatters of the Go jenny", 1)
	r.Check(special, "kinds/go-byte-slice-trap", "golang.typeFormatter.formatArray element kind uint8", fd.Pos(), "lists of uint8 are not declared as a byte slice",
		"formatArray declares a list of uint8 as `[]uint8`: encoding/json encodes every slice of uint8 as a base64 string — {\"levels\":[1,2,3]} is re-encoded as {\"levels\":\"AQID\"}")
}

// c01GoDateTimeKeepsText: a string with the date-time format is a string on the wire. A Go type that parses it has to
// write back the text it read: `time.Time` does not (its MarshalJSON writes the shortest fraction and `Z` for a zero
// offset), so "…05.000Z" and "…05+00:00" come back "…05Z". Every place of the Go jenny that picks a type name under the
// date-time hint is an obligation; declaring such strings as `string` (no such place) satisfies the rule.
func c01GoDateTimeKeepsText(ctx *Ctx, r *Report) {
	p := ctx.Pkg("internal/jennies/golang")
	if p == nil {
		r.Undecided("anchor lost: internal/jennies/golang")
		return
	}
	n := 0
	for _, f := range p.Syntax {
		for _, d := range f.Decls {
			fd, ok := d.(*ast.FuncDecl)
			if !ok || fd.Body == nil {
				continue
			}
			ast.Inspect(fd.Body, func(m ast.Node) bool {
				is, ok := m.(*ast.IfStmt)
				if !ok || !strings.Contains(exprString(is.Cond), "HintStringFormatDateTime") {
					return true
				}
				for _, st := range is.Body.List {
					as, ok := st.(*ast.AssignStmt)
					if !ok || len(as.Rhs) != 1 {
						continue
					}
					lit, ok := ast.Unparen(as.Rhs[0]).(*ast.BasicLit)
					if !ok || lit.Kind != token.STRING {
						continue
					}
					n++
					r.Check(!strings.Contains(lit.Value, "time.Time"), "kinds/go-datetime-keeps-text", "golang."+fd.Name.Name+" type of a date-time string", lit.Pos(),
						"date-time strings are declared with a type that writes back the text it read",
						"a string with the date-time format is declared `time.Time`, whose MarshalJSON writes the shortest fraction and `Z` for a zero offset: {\"at\":\"2024-01-02T03:04:05.000Z\"} is re-encoded {\"at\":\"2024-01-02T03:04:05Z\"} — not JSON-equal, and not what Python (which keeps the string) writes")
				}
				return true
			})
		}
	}
	r.Count("type names picked under the date-time hint (Go)", n)
}

// c01EnumNullMember: JSON Schema and OpenAPI describe a nullable enum by listing `null` among the values. `null` is not
// a member (it has no name and no literal in any target language): every loop of a schema front-end that turns the
// values of the schema library into ast.EnumValue leaves the iteration when the value is nil, before it builds the
// member.
func c01EnumNullMember(ctx *Ctx, r *Report) {
	n := 0
	for _, rel := range []string{"internal/jsonschema", "internal/openapi"} {
		p := ctx.Pkg(rel)
		if p == nil {
			r.Undecided("anchor lost: " + rel)
			continue
		}
		info := p.TypesInfo
		for _, f := range p.Syntax {
			for _, d := range f.Decls {
				fd, ok := d.(*ast.FuncDecl)
				if !ok || fd.Body == nil {
					continue
				}
				ast.Inspect(fd.Body, func(m ast.Node) bool {
					rs, ok := m.(*ast.RangeStmt)
					if !ok {
						return true
					}
					vid, ok := rs.Value.(*ast.Ident)
					if !ok || vid.Name == "_" {
						return true
					}
					// the ranged values are `any` values (what the schema libraries hold in `Enum`)
					if it, ok := info.TypeOf(vid).Underlying().(*types.Interface); !ok || !it.Empty() {
						return true
					}
					var member *ast.CompositeLit
					ast.Inspect(rs.Body, func(k ast.Node) bool {
						if cl, ok := k.(*ast.CompositeLit); ok && member == nil && namedName(info.TypeOf(cl)) == "EnumValue" {
							member = cl
						}
						return true
					})
					if member == nil {
						return true
					}
					n++
					guarded := false
					for _, st := range rs.Body.List {
						if st.Pos() > member.Pos() {
							break
						}
						is, ok := st.(*ast.IfStmt)
						if !ok || !endsInExit(is.Body) {
							continue
						}
						if be, ok := ast.Unparen(is.Cond).(*ast.BinaryExpr); ok && be.Op == token.EQL {
							x, y := ast.Unparen(be.X), ast.Unparen(be.Y)
							isVar := func(e ast.Expr) bool { id, ok := e.(*ast.Ident); return ok && objOf(info, id) == objOf(info, vid) }
							isNil := func(e ast.Expr) bool { id, ok := e.(*ast.Ident); return ok && id.Name == "nil" }
							if (isVar(x) && isNil(y)) || (isNil(x) && isVar(y)) {
								guarded = true
							}
						}
					}
					r.Check(guarded, "frontier/enum-null-member", rel+"."+fd.Name.Name+" members from "+exprString(rs.X), rs.Pos(),
						"`null` listed among the values of an enum is skipped before a member is built from it",
						rel+"."+fd.Name.Name+" builds an enum member from every value of "+exprString(rs.X)+", `null` included: {\"enum\": [\"a\", \"b\", null]} (the way JSON Schema and OpenAPI 3.0 write a nullable enum) gives a member named `<nil>` without value — the generated Go does not parse and the run fails, the Python class has a member `_nil_ = None`")
					return true
				})
			}
		}
	}
	r.Count("loops building enum members from schema values", n)
	r.Floor("loops building enum members from schema values", 2)
}

// c11HuntedRules: (a) the names held by a discriminator mapping are object names; Python classes are named
// formatObjectName(object name): every mapping value written by disjunctionFromJSON goes through formatObjectName;
// (b) an enum member whose name is empty (the empty string of a string enum) needs a name: every member name written by
// the Python jenny goes through formatEnumMemberName, which tests for the empty name.
func c11HuntedRules(ctx *Ctx, r *Report) {
	p := ctx.Pkg("internal/jennies/python")
	if p == nil {
		return
	}
	info := p.TypesInfo
	// (a)
	fn := ctx.LookupMethod("internal/jennies/python", "RawTypes", "disjunctionFromJSON")
	fd, _ := ctx.DeclOf(fn)
	fmtObj := ctx.LookupFunc("internal/jennies/python", "formatObjectName")
	if fd == nil || fmtObj == nil {
		r.Undecided("anchor lost: python.disjunctionFromJSON / formatObjectName")
	} else {
		parents := parentMap(fd)
		n := 0
		ast.Inspect(fd.Body, func(m ast.Node) bool {
			ix, ok := m.(*ast.IndexExpr)
			if !ok || !strings.HasSuffix(exprString(ix.X), ".DiscriminatorMapping") {
				return true
			}
			// the comma-ok form binds the value to a variable: follow it
			uses := []ast.Node{ix}
			if as, ok := parents[ast.Node(ix)].(*ast.AssignStmt); ok && len(as.Lhs) >= 1 {
				if id, ok := as.Lhs[0].(*ast.Ident); ok {
					o := objOf(info, id)
					uses = nil
					ast.Inspect(fd.Body, func(q ast.Node) bool {
						if u, ok := q.(*ast.Ident); ok && u != id && objOf(info, u) == o {
							uses = append(uses, u)
						}
						return true
					})
				}
			}
			for _, u := range uses {
				n++
				formatted := false
				if c, ok := parents[u].(*ast.CallExpr); ok && callee(info, c) == fmtObj {
					formatted = true
				}
				// or through a local closure every result of which is a formatted class name: formatObjectName(name), or
				// the fully qualified reference of the branch the name designates
				if c, ok := parents[u].(*ast.CallExpr); ok && !formatted {
					if id, ok := ast.Unparen(c.Fun).(*ast.Ident); ok {
						var lit *ast.FuncLit
						ast.Inspect(fd.Body, func(q ast.Node) bool {
							if as, ok := q.(*ast.AssignStmt); ok && len(as.Lhs) == 1 && len(as.Rhs) == 1 {
								if l, ok := as.Lhs[0].(*ast.Ident); ok && objOf(info, l) == objOf(info, id) {
									lit, _ = as.Rhs[0].(*ast.FuncLit)
								}
							}
							return true
						})
						// every result of the closure is a formatted class name, directly or through another local closure of which
						// the same holds (`classOf`, which follows aliases before formatting the reference)
						localLit := func(fun ast.Expr) *ast.FuncLit {
							lid, ok := ast.Unparen(fun).(*ast.Ident)
							if !ok {
								return nil
							}
							var found *ast.FuncLit
							ast.Inspect(fd.Body, func(q ast.Node) bool {
								if as, ok := q.(*ast.AssignStmt); ok && len(as.Lhs) == 1 && len(as.Rhs) == 1 {
									if l, ok := as.Lhs[0].(*ast.Ident); ok && objOf(info, l) == objOf(info, lid) {
										if fl, ok := as.Rhs[0].(*ast.FuncLit); ok {
											found = fl
										}
									}
								}
								return true
							})
							return found
						}
						var formats func(l *ast.FuncLit, depth int) bool
						formats = func(l *ast.FuncLit, depth int) bool {
							all, any := true, false
							ast.Inspect(l.Body, func(q ast.Node) bool {
								if inner, ok := q.(*ast.FuncLit); ok && inner != l {
									return false
								}
								rs, ok := q.(*ast.ReturnStmt)
								if !ok || len(rs.Results) != 1 {
									return true
								}
								any = true
								rc, ok := ast.Unparen(rs.Results[0]).(*ast.CallExpr)
								if !ok {
									all = false
									return true
								}
								if f := callee(info, rc); f != nil && (f == fmtObj || f.Name() == "formatFullyQualifiedRef") {
									return true
								}
								if inner := localLit(rc.Fun); inner != nil && depth < 2 && formats(inner, depth+1) {
									return true
								}
								all = false
								return true
							})
							return all && any
						}
						if lit != nil {
							formatted = formats(lit, 0)
						}
					}
				}
				r.Check(formatted, "skeleton/python-class-names-formatted", fmt.Sprintf("python.disjunctionFromJSON mapping value #%d", n), u.Pos(), "written through formatObjectName",
					"disjunctionFromJSON writes a name taken from the discriminator mapping as it is: classes are named formatObjectName(object name) — for an object that is not UpperCamelCase (`cat_event`) from_json refers to a class that does not exist (NameError)")
			}
			return true
		})
		r.Count("discriminator mapping values written by the python jenny", n)
		r.Floor("discriminator mapping values written by the python jenny", 1)
	}
	// (c) an alias of a struct is emitted as a forward reference (a string at run time): `.from_json` must be called on
	// the class at the end of the chain of aliases, i.e. on a reference re-bound in a loop from the referred object's own type
	if ffn := ctx.LookupMethod("internal/jennies/python", "RawTypes", "fromJSONForTypeRec"); ffn != nil {
		ffd, _ := ctx.DeclOf(ffn)
		k := 0
		ast.Inspect(ffd.Body, func(m ast.Node) bool {
			c, ok := m.(*ast.CallExpr)
			if !ok || len(c.Args) < 1 {
				return true
			}
			sel, ok := c.Fun.(*ast.SelectorExpr)
			if !ok || sel.Sel.Name != "formatFullyQualifiedRef" {
				return true
			}
			k++
			followed := false
			if id, ok := ast.Unparen(c.Args[0]).(*ast.Ident); ok {
				o := objOf(info, id)
				ast.Inspect(ffd.Body, func(q ast.Node) bool {
					loop, ok := q.(*ast.ForStmt)
					if !ok {
						return true
					}
					ast.Inspect(loop.Body, func(z ast.Node) bool {
						if as, ok := z.(*ast.AssignStmt); ok && as.Tok == token.ASSIGN && len(as.Lhs) == 1 {
							if l, ok := as.Lhs[0].(*ast.Ident); ok && objOf(info, l) == o && strings.Contains(exprString(as.Rhs[0]), ".Type.") {
								followed = true
							}
						}
						return true
					})
					return true
				})
			}
			r.Check(followed, "skeleton/python-from-json-on-class", fmt.Sprintf("python.fromJSONForTypeRec from_json target #%d", k), c.Pos(), "the reference is followed through aliases down to the struct",
				"fromJSONForTypeRec calls from_json on the reference as it is written: for `Alias: Inner` the name Alias is a string at run time (forward reference) — AttributeError: 'str' object has no attribute 'from_json'")
			return true
		})
		r.Count("from_json targets of the python jenny", k)
		r.Floor("from_json targets of the python jenny", 1)
	}
	// (b)
	enumValueT := ctx.LookupType("internal/ast", "EnumValue")
	member := ctx.LookupFunc("internal/jennies/python", "formatEnumMemberName")
	if member == nil {
		r.Bad("skeleton/python-enum-member-name", "python.formatEnumMemberName", token.NoPos, "the helper that names enum members (and gives the empty name a name) is gone")
		return
	}
	mfd, _ := ctx.DeclOf(member)
	handlesEmpty := false
	ast.Inspect(mfd.Body, func(m ast.Node) bool {
		if be, ok := m.(*ast.BinaryExpr); ok && be.Op == token.EQL {
			if tv, ok := info.Types[be.Y]; ok && tv.Value != nil && tv.Value.ExactString() == `""` {
				handlesEmpty = true
			}
		}
		return true
	})
	r.Check(handlesEmpty, "skeleton/python-enum-member-name", "python.formatEnumMemberName handles the empty name", mfd.Pos(), "an empty member name gets a name",
		"formatEnumMemberName no longer tests for the empty name: a string enum with an empty member is emitted as `     = \"\"` — SyntaxError on import of the module")
	k := 0
	for _, file := range p.Syntax {
		var fname string
		ast.Inspect(file, func(m ast.Node) bool {
			if d, ok := m.(*ast.FuncDecl); ok {
				fname = d.Name.Name
			}
			c, ok := m.(*ast.CallExpr)
			if !ok || len(c.Args) != 1 {
				return true
			}
			s, ok := ast.Unparen(c.Args[0]).(*ast.SelectorExpr)
			if !ok || s.Sel.Name != "Name" || namedOf(info.TypeOf(s.X)) != enumValueT {
				return true
			}
			f := callee(info, c)
			if f == nil {
				return true
			}
			k++
			r.Check(f == member, "skeleton/python-enum-member-name", fmt.Sprintf("python.%s names a member #%d", fname, k), c.Pos(), "through formatEnumMemberName",
				fmt.Sprintf("python.%s builds an enum member name with %s: the member whose name is empty is written without a name (SyntaxError), or referred to under another name than the one the class declares", fname, f.Name()))
			return true
		})
	}
	r.Count("enum member names written by the python jenny", k)
	r.Floor("enum member names written by the python jenny", 3)
}

// c01UnionClassifiedWithoutNull: `null` is not a branch to discriminate. The passes that decide "this union is a union
// of references" (discriminator inference, mapping, the struct's disjunction hint, the any fallback) must ask
// HasOnlyRefs of the non-null branches: asked of all branches it is false for `Cat | Dog | null`, the union gets no
// discriminator and the generated Go type no custom (un)marshaller.
func c01UnionClassifiedWithoutNull(ctx *Ctx, r *Report) {
	p := ctx.Pkg("internal/ast/compiler")
	if p == nil {
		return
	}
	info := p.TypesInfo
	n := 0
	for _, file := range p.Syntax {
		for _, d := range file.Decls {
			fd, ok := d.(*ast.FuncDecl)
			if !ok || fd.Body == nil {
				continue
			}
			fobj, _ := info.Defs[fd.Name].(*types.Func)
			// locals bound to a NonNullTypes() result
			nonNull := map[types.Object]bool{}
			ast.Inspect(fd.Body, func(m ast.Node) bool {
				if as, ok := m.(*ast.AssignStmt); ok && len(as.Lhs) == 1 && len(as.Rhs) == 1 && strings.HasSuffix(exprString(as.Rhs[0]), ".NonNullTypes()") {
					if id, ok := as.Lhs[0].(*ast.Ident); ok {
						nonNull[objOf(info, id)] = true
					}
				}
				return true
			})
			ast.Inspect(fd.Body, func(m ast.Node) bool {
				c, ok := m.(*ast.CallExpr)
				if !ok {
					return true
				}
				sel, ok := c.Fun.(*ast.SelectorExpr)
				if !ok || sel.Sel.Name != "HasOnlyRefs" {
					return true
				}
				n++
				good := strings.HasSuffix(exprString(sel.X), ".NonNullTypes()")
				if id, ok := ast.Unparen(sel.X).(*ast.Ident); ok && nonNull[objOf(info, id)] {
					good = true
				}
				r.Check(good, "kinds/union-classified-without-null", fmt.Sprintf("%s asks HasOnlyRefs of %s", ctx.FuncName(fobj), exprString(sel.X)), c.Pos(), "of the non-null branches",
					fmt.Sprintf("%s asks HasOnlyRefs of %s, null branch included: `Cat | Dog | null` is not recognised as a union of references — no discriminator, no custom (un)marshaller in Go: documents decode without error and are re-encoded as {}", ctx.FuncName(fobj), exprString(sel.X)))
				return true
			})
		}
	}
	r.Count("classifications of a union as 'references only'", n)
	r.Floor("classifications of a union as 'references only'", 3)
}

// c01OmitEmptyOnCollections: Go's `omitempty` drops a slice or map that is *empty*, not one that is *absent*: an
// optional list given as [] (or map as {}) disappears on re-encoding. formatField adds `,omitempty` to every optional
// field whatever its type; optional collections need a pointer, `omitzero`, or a marshaller that omits nil only.
func c01OmitEmptyOnCollections(ctx *Ctx, r *Report) {
	fn := ctx.LookupMethod("internal/jennies/golang", "typeFormatter", "formatField")
	fd, _ := ctx.DeclOf(fn)
	if fd == nil {
		r.Undecided("anchor lost: golang.typeFormatter.formatField")
		return
	}
	distinguishes := false
	ast.Inspect(fd.Body, func(m ast.Node) bool {
		is, ok := m.(*ast.IfStmt)
		if !ok {
			return true
		}
		sets := false
		ast.Inspect(is.Body, func(q ast.Node) bool {
			if bl, ok := q.(*ast.BasicLit); ok && strings.Contains(bl.Value, "omitempty") {
				sets = true
			}
			return true
		})
		if sets {
			cs := exprString(is.Cond)
			if strings.Contains(cs, "IsArray") || strings.Contains(cs, "IsMap") || strings.Contains(cs, "KindArray") || strings.Contains(cs, "KindMap") {
				distinguishes = true
			}
		}
		return true
	})
	r.Count("omitempty decisions of the Go jenny", 1)
	r.Check(distinguishes, "skeleton/omitempty-not-on-collections", "golang.typeFormatter.formatField omitempty", fd.Pos(), "optional lists and maps are not given a bare `omitempty`",
		"formatField adds `,omitempty` to every optional field: for a list or a map it omits the *empty* value, not the absent one — {\"tags\": []} is re-encoded without `tags` by both decoders")
}

// c01StrictDecoderNulls: clauses of the strict decoder about `null` (second hunting round).
//
//	skeleton/strict-null-on-any        the branch that reports "required field is null" is not taken for a field of
//	                                   kind any: null is one of the values an empty schema / CUE `_` accepts.
//	skeleton/strict-null-elements      in the branch that decodes an element through UnmarshalJSONStrict on a freshly
//	                                   allocated struct (lists and maps of references), a nullable element is tested for
//	                                   `null` first: `[{…}, null]` is a valid list of `#Slot | null`.
//	skeleton/strict-append-on-nil-ptr  the append branch for a nullable reference to a list dereferences the target
//	                                   (`append(*x, …)`) only after it was given a value: an optional reference to a named
//	                                   list of objects starts nil.
func c01StrictDecoderNulls(ctx *Ctx, r *Report) {
	ts, err := loadTemplates(ctx, "golang")
	if err != nil {
		r.Undecided("cannot parse golang templates: %v", err)
		return
	}
	file := "types/struct.strict.json_unmarshal.tmpl"
	root := ts.trees[file]
	rec := ts.trees[recStrict.define]
	if root == nil || rec == nil {
		r.Undecided("anchor lost: %s / %s", file, recStrict.define)
		return
	}
	// (1) the "required field is null" branch
	found := false
	walkTmpl(root.Root, func(n parse.Node) bool {
		in, ok := n.(*parse.IfNode)
		if !ok {
			return true
		}
		if !strings.Contains(tmplText(in.List), "required field is null") {
			return true
		}
		// innermost such if
		inner := false
		walkTmpl(in.List, func(m parse.Node) bool {
			if i2, ok := m.(*parse.IfNode); ok && strings.Contains(tmplText(i2.List), "required field is null") {
				inner = true
			}
			return true
		})
		if inner {
			return true
		}
		found = true
		cond := in.Pipe.String()
		r.Check(strings.Contains(cond, "IsAny"), "skeleton/strict-null-on-any", "strict decoder: required field is null", token.NoPos, ts.posOf(ctx, file, in)+": the branch excludes fields of kind any",
			ts.posOf(ctx, file, in)+": the strict decoder reports `required field is null` under `"+cond+"`, which holds for a required field of kind any: {\"payload\": null} is accepted by the schema (an empty schema, CUE `_`) and by json.Unmarshal, and rejected by UnmarshalJSONStrict")
		return true
	})
	if !found {
		r.Undecided("anchor lost: the branch emitting `required field is null`")
	}
	// (2) elements decoded through UnmarshalJSONStrict
	n := 0
	walkTmpl(rec.Root, func(m parse.Node) bool {
		in, ok := m.(*parse.IfNode)
		if !ok {
			return true
		}
		for _, br := range ifChain(in) {
			if br.body == nil {
				continue
			}
			txt := tmplText(br.body)
			if !strings.Contains(txt, ".UnmarshalJSONStrict(") {
				continue
			}
			// only the leaf branch (no nested chain holding the call)
			nested := false
			walkTmpl(br.body, func(q parse.Node) bool {
				// (a two-way choice inside the branch — which struct to allocate — is part of the leaf; a dispatch has
				// more branches)
				if i2, ok := q.(*parse.IfNode); ok && i2 != in && strings.Contains(tmplText(i2.List), ".UnmarshalJSONStrict(") && len(ifChain(i2)) >= 3 {
					nested = true
				}
				return true
			})
			if nested {
				continue
			}
			n++
			tests := strings.Contains(txt, `"null"`)
			r.Check(tests, "skeleton/strict-null-elements", fmt.Sprintf("strict decoder: struct elements branch #%d", n), token.NoPos, ts.posOf(ctx, recStrict.define, br.body)+": the raw value is compared with null before a struct is allocated for it",
				ts.posOf(ctx, recStrict.define, br.body)+": the branch allocates a struct and calls UnmarshalJSONStrict on the raw element whatever it is: for a list or map of nullable references (`[...(#Slot | null)]`) the valid element null is decoded as an object and reported as `required field is missing`")
		}
		return false
	})
	r.Count("strict decoder branches decoding an element through UnmarshalJSONStrict", n)
	r.Floor("strict decoder branches decoding an element through UnmarshalJSONStrict", 1)
	// (3) append through a pointer that can be nil: a `*` emitted under a nullable-reference condition right after
	// the text `append(` dereferences the target; an initialisation of the target under the same condition must come first
	derefs, initialised := 0, 0
	var scan func(list *parse.ListNode, initSeen bool)
	scan = func(list *parse.ListNode, initSeen bool) {
		if list == nil {
			return
		}
		for idx, node := range list.Nodes {
			switch x := node.(type) {
			case *parse.IfNode:
				cond := x.Pipe.String()
				body := tmplText(x.List)
				if strings.Contains(cond, "Nullable") && strings.Contains(cond, "IsRef") {
					if strings.Contains(body, "cog.ToPtr(") && strings.Contains(body, "{}") && strings.Contains(body, " = ") {
						initSeen = true
					}
					if strings.TrimSpace(body) == "*" && idx > 0 {
						if t, ok := list.Nodes[idx-1].(*parse.TextNode); ok && strings.HasSuffix(strings.TrimRight(string(t.Text), " \t"), "append(") {
							derefs++
							if initSeen {
								initialised++
							}
						}
					}
				}
				scan(x.List, initSeen)
				scan(x.ElseList, initSeen)
			case *parse.RangeNode:
				scan(x.List, initSeen)
			case *parse.WithNode:
				scan(x.List, initSeen)
			}
		}
	}
	scan(rec.Root, false)
	r.Count("strict decoder appends through a dereferenced target", derefs)
	r.Floor("strict decoder appends through a dereferenced target", 1)
	r.Check(derefs == initialised, "skeleton/strict-append-on-nil-ptr", "strict decoder: append through an optional list reference", token.NoPos, "the target is given a value, under the same condition, before it is dereferenced",
		"the array branch emits `x = cog.ToPtr(append(*x, item))` for a nullable reference to a list and never initialises x: `items?: #Items` with `#Items: [...#Item]` starts as a nil pointer — UnmarshalJSONStrict panics on the valid document {\"items\":[{…}]}")
}

// c11AbsentStaysAbsent: from_json builds the loaded object with the constructor, which sets constants and schema
// defaults. For a property that is not required the document may not hold it, and to_json writes whatever is not
// None: the function that writes from_json resets, under `"<name>" not in data`, the non-required properties the
// constructor sets (constants, constant references, defaults).
func c11AbsentStaysAbsent(ctx *Ctx, r *Report) {
	fn := ctx.LookupMethod("internal/jennies/python", "RawTypes", "generateFromJSONMethod")
	fd, _ := ctx.DeclOf(fn)
	if fd == nil || fd.Body == nil {
		r.Undecided("anchor lost: python.RawTypes.generateFromJSONMethod")
		return
	}
	selects, resets := false, false
	ast.Inspect(fd.Body, func(m ast.Node) bool {
		switch x := m.(type) {
		case *ast.IfStmt:
			c := exprString(x.Cond)
			if strings.Contains(c, "Required") && strings.Contains(c, "IsConcreteScalar") && strings.Contains(c, "Default") {
				selects = true
			}
		case *ast.BasicLit:
			if x.Kind == token.STRING && strings.Contains(x.Value, "not in data") && strings.Contains(x.Value, "= None") {
				resets = true
			}
		}
		return true
	})
	r.Check(selects && resets, "skeleton/python-absent-stays-absent", "python from_json resets what the constructor set for absent optional properties", fd.Pos(),
		"non-required constants and defaulted properties are collected and reset under `not in data`",
		"from_json returns cls(**args) as it is: an optional constant (`kind?: \"root\"`) or an optional property with a default is set by the constructor although the document does not hold it, and to_json writes it — {\"name\":\"x\"} comes back as {\"kind\":\"root\",\"name\":\"x\"}, while Go re-emits the document unchanged")
}

// c11FourthRound: the discriminator mapping holds bare object names, which do not tell `liba.Cat` from `libb.Cat`, nor
// an alias from the class it names. The Python decoding map has to (a) choose among same-named branches by the value
// their discriminator field holds — disjunctionFromJSON looks that field up in the branch's struct
// (FieldByName(<disjunction>.Discriminator)) — and (b) follow aliases to a class (a loop over LocateObjectByRef), an
// alias being a string at run time.
func c11FourthRound(ctx *Ctx, r *Report) {
	fn := ctx.LookupMethod("internal/jennies/python", "RawTypes", "disjunctionFromJSON")
	fd, p := ctx.DeclOf(fn)
	if fd == nil || fd.Body == nil {
		r.Undecided("anchor lost: python.RawTypes.disjunctionFromJSON")
		return
	}
	info := p.TypesInfo
	byValue, followsAliases := false, false
	ast.Inspect(fd.Body, func(m ast.Node) bool {
		switch x := m.(type) {
		case *ast.CallExpr:
			if f := callee(info, x); f != nil && f.Name() == "FieldByName" && len(x.Args) == 1 && strings.HasSuffix(exprString(x.Args[0]), ".Discriminator") {
				byValue = true
			}
		case *ast.ForStmt:
			ast.Inspect(x.Body, func(q ast.Node) bool {
				if c, ok := q.(*ast.CallExpr); ok {
					if f := callee(info, c); f != nil && strings.HasPrefix(f.Name(), "LocateObject") {
						followsAliases = true
					}
				}
				return true
			})
		}
		return true
	})
	r.Count("hunted clauses of the Python union decoder (4th round)", 2)
	r.Check(byValue, "selectors/python-branch-by-discriminator-value", "python.disjunctionFromJSON tells same-named branches apart", fd.Pos(), "the branch is chosen by the value of its discriminator field",
		"the decoding map resolves each mapping entry to the first branch with that *name*: for `liba.Cat | libb.Cat` both entries give liba.Cat — a catb document is decoded as a liba.Cat and written back as another document, silently")
	r.Check(followsAliases, "selectors/python-branch-by-discriminator-value", "python.disjunctionFromJSON follows aliases to a class", fd.Pos(), "a branch that is an alias is replaced by the class it names",
		"the decoding map holds the branch as it is: for `MyCat: Cat; pet: MyCat | Dog` that is the alias, a string at run time — AttributeError: 'str' object has no attribute 'from_json'")
}

// c01AbsentDefaultedField: a required field that has a default may be left out of a document (the source schema fills
// it in). The strict decoder accepts its absence — the "missing" error is only written when the field has no default —
// but then has to give the field that default: otherwise the zero value is kept and written back (`replicas: 0` for
// `int & >=1 | *1`), a document the schema rejects. The rule: some branch of the struct template taken when the field
// is absent and has a default (`ne $field.Type.Default nil` or the else-part of the `eq … nil` test) assigns the field.
func c01AbsentDefaultedField(ctx *Ctx, r *Report) {
	ts, err := loadTemplates(ctx, "golang")
	if err != nil {
		r.Undecided("templates of golang: %v", err)
		return
	}
	name := "types/struct.strict.json_unmarshal.tmpl"
	tree := ts.trees[name]
	if tree == nil {
		r.Undecided("anchor lost: golang template %s", name)
		return
	}
	tested, assigns := false, false
	walkTmpl(tree.Root, func(n parse.Node) bool {
		in, ok := n.(*parse.IfNode)
		if !ok {
			return true
		}
		cond := in.Pipe.String()
		if !strings.Contains(cond, ".Type.Default") {
			return true
		}
		tested = true
		writes := func(l *parse.ListNode) bool {
			found := false
			if l == nil {
				return false
			}
			walkTmpl(l, func(q parse.Node) bool {
				switch x := q.(type) {
				case *parse.TextNode:
					if strings.Contains(string(x.Text), "resource.") && strings.Contains(string(x.Text), " = ") {
						found = true
					}
				case *parse.TemplateNode:
					if strings.Contains(x.Name, "default") {
						found = true
					}
				}
				return true
			})
			return found
		}
		negative := strings.Contains(cond, "eq ") && !strings.Contains(cond, "not (eq")
		if negative && writes(in.ElseList) || !negative && writes(in.List) {
			assigns = true
		}
		return true
	})
	if !tested {
		r.Undecided("anchor changed: %s no longer tests the default of a field", name)
		return
	}
	r.Count("tests of a field's default in the Go strict decoder", 1)
	r.Check(assigns, "skeleton/absent-defaulted-field-gets-default", "golang strict decoder gives an absent field its default", token.NoPos, ts.file[name]+": the branch taken for an absent field that has a default assigns it",
		ts.file[name]+": the absence of a required field that has a default is accepted and nothing assigns that default: the field keeps its zero value and is written back (`{\"name\":\"x\"}` for `replicas: int & >=1 | *1` comes back as `\"replicas\":0`, which the schema rejects); the standard decoder has the same hole (no UnmarshalJSON starts from the constructor's value)")
}

// c01DefinitionIdentity: the JSON Schema front-end names an object after the last segment of the reference that leads
// to it and keeps the names it has declared; a name alone does not identify a schema (`…/Folder/properties/id`,
// `…/User/properties/id`). declareDefinition must compare the *location* of the schema with the one recorded for the
// name before it answers "already declared".
func c01DefinitionIdentity(ctx *Ctx, r *Report) {
	fn := ctx.LookupMethod("internal/jsonschema", "generator", "declareDefinition")
	fd, p := ctx.DeclOf(fn)
	if fd == nil || fd.Body == nil {
		r.Undecided("anchor lost: jsonschema.generator.declareDefinition")
		return
	}
	info := p.TypesInfo
	compares := false
	ast.Inspect(fd.Body, func(m ast.Node) bool {
		be, ok := m.(*ast.BinaryExpr)
		if !ok || (be.Op != token.NEQ && be.Op != token.EQL) {
			return true
		}
		for _, side := range []ast.Expr{be.X, be.Y} {
			if sel, ok := ast.Unparen(side).(*ast.SelectorExpr); ok && sel.Sel.Name == "Location" {
				if f := fieldOf(info, sel); f != nil && f.Pkg() != nil && strings.Contains(f.Pkg().Path(), "santhosh-tekuri/jsonschema") {
					compares = true
				}
			}
		}
		return true
	})
	r.Count("definition registries of the JSON Schema front-end", 1)
	r.Check(compares, "frontier/definition-identity-by-location", "jsonschema.declareDefinition identifies a schema by its location", fd.Pos(), "the location of the schema is compared with the one recorded under the name",
		"a name already declared is taken for the same definition whatever it points to: `#/definitions/Folder/properties/id` (a string) and `#/definitions/User/properties/id` (an integer) become one type `Id` — the accepted document {\"folderId\":\"f-1\",\"userId\":7} can not be decoded by either Go decoder")
}

// c11FifthRound — fourth hunt of the Python wire format:
//   - the class of an enum is called formatObjectName(name) everywhere, also where a constant reference designates one of
//     its members (`pet_kind & "cat"` → `PetKind.CAT`);
//   - whatever is written between `"""` goes through escapeDocstring: a backslash or a triple quote in a comment of the
//     schema otherwise makes the whole module a syntax error;
//   - the constructor reads None as "not given" and sets the default: from_json puts an explicit null back for the
//     nullable properties that have a default.
func c11FifthRound(ctx *Ctx, r *Report) {
	p := ctx.Pkg("internal/jennies/python")
	if p == nil {
		r.Undecided("anchor lost: internal/jennies/python")
		return
	}
	info := p.TypesInfo
	n := 0
	// (a)
	if fn := ctx.LookupMethod("internal/jennies/python", "typeFormatter", "formatEnumValue"); fn == nil {
		r.Undecided("anchor lost: python.typeFormatter.formatEnumValue")
	} else if fd, _ := ctx.DeclOf(fn); fd != nil {
		k := 0
		ast.Inspect(fd.Body, func(m ast.Node) bool {
			c, ok := m.(*ast.CallExpr)
			if !ok {
				return true
			}
			if f := callee(info, c); f == nil || f.Name() != "Sprintf" {
				return true
			}
			for _, a := range c.Args[1:] {
				raw := false
				if sel, ok := ast.Unparen(a).(*ast.SelectorExpr); ok && sel.Sel.Name == "Name" && namedName(info.TypeOf(sel.X)) == "Object" {
					raw = true
				}
				formatted := false
				if call, ok := ast.Unparen(a).(*ast.CallExpr); ok {
					if f := callee(info, call); f != nil && f.Name() == "formatObjectName" {
						formatted = true
					}
				}
				if !raw && !formatted {
					continue
				}
				k++
				n++
				r.Check(formatted, "skeleton/python-class-names-formatted", fmt.Sprintf("python.typeFormatter.formatEnumValue class name #%d", k), a.Pos(), "written through formatObjectName",
					"formatEnumValue writes the name of the enum object as it is: for `pet_kind: \"cat\" | \"dog\"; kind: pet_kind & \"cat\"` the constructor says `pet_kind.CAT` while the class is PetKind — NameError on every document")
			}
			return true
		})
	}
	// (b) Go side
	esc := ctx.LookupFunc("internal/jennies/python", "escapeDocstring")
	for _, file := range p.Syntax {
		for _, d := range file.Decls {
			fd, ok := d.(*ast.FuncDecl)
			if !ok || fd.Body == nil {
				continue
			}
			opens := false
			ast.Inspect(fd.Body, func(m ast.Node) bool {
				if lit, ok := m.(*ast.BasicLit); ok && lit.Kind == token.STRING && strings.Contains(lit.Value, `"""`) && !strings.Contains(lit.Value, "%s") {
					opens = true
				}
				return true
			})
			if !opens {
				continue
			}
			// what the function writes besides the delimiters
			ast.Inspect(fd.Body, func(m ast.Node) bool {
				c, ok := m.(*ast.CallExpr)
				if !ok {
					return true
				}
				if f := callee(info, c); f == nil || f.Name() != "Sprintf" || len(c.Args) < 2 {
					return true
				}
				n++
				escaped := true
				for _, a := range c.Args[1:] {
					call, ok := ast.Unparen(a).(*ast.CallExpr)
					if !ok || esc == nil || callee(info, call) != esc {
						escaped = false
					}
				}
				r.Check(escaped, "skeleton/python-docstrings-escaped", "python."+fd.Name.Name+" writes into a docstring", c.Pos(), "the text goes through escapeDocstring",
					"python."+fd.Name.Name+" pastes comment lines between `\"\"\"` as they are: a comment holding `C:\\Users\\…` is a truncated \\UXXXXXXXX escape — SyntaxError, the whole module fails to import")
				return true
			})
		}
	}
	// (b) templates
	if ts, err := loadTemplates(ctx, "python"); err != nil {
		r.Undecided("templates of python: %v", err)
	} else {
		for _, name := range ts.names() {
			open := false
			var visit func(l *parse.ListNode)
			visit = func(l *parse.ListNode) {
				if l == nil {
					return
				}
				for _, c := range l.Nodes {
					switch x := c.(type) {
					case *parse.TextNode:
						if strings.Count(string(x.Text), `"""`)%2 == 1 {
							open = !open
						}
					case *parse.ActionNode:
						if open && len(x.Pipe.Decl) == 0 {
							n++
							r.Check(strings.Contains(x.String(), "escapeDocstring"), "skeleton/python-docstrings-escaped", "python template "+name+" writes "+x.String()+" into a docstring", token.NoPos, ts.file[name]+": the text goes through escapeDocstring",
								ts.file[name]+": "+x.String()+" is written between `\"\"\"` as it is: a backslash or a triple quote in a comment makes the generated module a syntax error")
						}
					case *parse.IfNode:
						visit(x.List)
						visit(x.ElseList)
					case *parse.RangeNode:
						visit(x.List)
						visit(x.ElseList)
					case *parse.WithNode:
						visit(x.List)
						visit(x.ElseList)
					}
				}
			}
			visit(ts.trees[name].Root)
		}
	}
	// (c)
	if fn := ctx.LookupMethod("internal/jennies/python", "RawTypes", "generateFromJSONMethod"); fn == nil {
		r.Undecided("anchor lost: python.RawTypes.generateFromJSONMethod")
	} else if fd, _ := ctx.DeclOf(fn); fd != nil {
		restores := false
		ast.Inspect(fd.Body, func(m ast.Node) bool {
			if lit, ok := m.(*ast.BasicLit); ok && lit.Kind == token.STRING {
				if tv, ok := info.Types[lit]; ok && tv.Value != nil {
					text := constant.StringVal(tv.Value)
					if strings.Contains(text, "in data and data[") && strings.Contains(text, "is None") && strings.Contains(text, "= None") {
						restores = true
					}
				}
			}
			return true
		})
		n++
		r.Check(restores, "flow/python-explicit-null-kept", "python.RawTypes.generateFromJSONMethod keeps explicit nulls", fd.Pos(), "an explicit null is put back after the constructor has run",
			"from_json hands None to the constructor for an explicit null, and the constructor takes None for `not given`: `kind: Kind | null | *\"a\"` with {\"kind\": null} comes back as {\"kind\": \"a\"} — Go writes the null back, the two SDKs disagree")
	}
	r.Count("hunted clauses of the Python wire format (5th round)", n)
	r.Floor("hunted clauses of the Python wire format (5th round)", 6)
}

// c01GoNamedDateTimeIsAlias: a named date-time string (`Timestamp: {type: string, format: date-time}`) is declared from
// time.Time. A *defined* type (`type Timestamp time.Time`) does not inherit the methods of time.Time — MarshalJSON,
// UnmarshalJSON — so no document decodes into it; an *alias* (`type Timestamp = time.Time`) does. In
// formatTypeDeclaration, the scalar case declares the date-time hint with `=`.
func c01GoNamedDateTimeIsAlias(ctx *Ctx, r *Report) {
	fn := ctx.LookupMethod("internal/jennies/golang", "typeFormatter", "formatTypeDeclaration")
	fd, p := ctx.DeclOf(fn)
	if fd == nil {
		r.Undecided("anchor lost: golang.typeFormatter.formatTypeDeclaration")
		return
	}
	info := p.TypesInfo
	alias := false
	found := false
	ast.Inspect(fd.Body, func(m ast.Node) bool {
		cc, ok := m.(*ast.CaseClause)
		if !ok {
			return true
		}
		scalar := false
		for _, e := range cc.List {
			if strings.HasSuffix(exprString(e), "KindScalar") {
				scalar = true
			}
		}
		if !scalar {
			return true
		}
		found = true
		ast.Inspect(cc, func(k ast.Node) bool {
			is, ok := k.(*ast.IfStmt)
			if !ok || !strings.Contains(exprString(is.Cond), "HintStringFormatDateTime") {
				return true
			}
			ast.Inspect(is.Body, func(q ast.Node) bool {
				if lit, ok := q.(*ast.BasicLit); ok && lit.Kind == token.STRING {
					if tv, ok := info.Types[lit]; ok && tv.Value != nil && strings.HasPrefix(constant.StringVal(tv.Value), "type %s = ") {
						alias = true
					}
				}
				return true
			})
			return true
		})
		return false
	})
	if !found {
		r.Undecided("anchor changed: formatTypeDeclaration has no case for scalars")
		return
	}
	r.Count("declarations of named date-time strings (Go)", 1)
	r.Check(alias, "kinds/go-named-datetime-is-alias", "golang.formatTypeDeclaration declares a named date-time string", fd.Pos(), "as an alias of time.Time",
		"a named date-time string is declared `type Timestamp time.Time`: the defined type has none of time.Time's methods, and {\"at\":\"2024-01-02T03:04:05Z\"} fails with `cannot unmarshal string into Go struct field Event.at of type demo.Timestamp` with both decoders")
}

// c01GoTemplateVariablesEscaped: some Go templates declare a local variable named after a *type* of the schema
// (`var {{ $typeName|formatVarName }} T` in the decoders of unions: one variable per branch). formatVarName escapes the
// identifiers listed by isUsedByGeneratedCode; that list has to hold every identifier the same template uses itself —
// its parameters, the variables it declares, the packages it qualifies calls with — or a branch called Raw / Json /
// Found shadows it: `json.Unmarshal(raw, &raw)`. The identifiers are read from the template text, the list from the
// case clauses of isUsedByGeneratedCode and isReservedGoKeyword.
func c01GoTemplateVariablesEscaped(ctx *Ctx, r *Report) {
	ts, err := loadTemplates(ctx, "golang")
	if err != nil {
		r.Undecided("cannot parse golang templates: %v", err)
		return
	}
	p := ctx.Pkg("internal/jennies/golang")
	if p == nil {
		r.Undecided("anchor lost: internal/jennies/golang")
		return
	}
	info := p.TypesInfo
	escaped := map[string]bool{}
	for _, name := range []string{"isUsedByGeneratedCode", "isReservedGoKeyword"} {
		fn := ctx.LookupFunc("internal/jennies/golang", name)
		fd, _ := ctx.DeclOf(fn)
		if fd == nil {
			r.Undecided("anchor lost: golang.%s", name)
			return
		}
		ast.Inspect(fd.Body, func(m ast.Node) bool {
			if e, ok := m.(ast.Expr); ok {
				if tv, ok := info.Types[e]; ok && tv.Value != nil && tv.Value.Kind() == constant.String {
					escaped[constant.StringVal(tv.Value)] = true
				}
			}
			return true
		})
	}
	declares := regexp.MustCompile(`(var\s+⟦[^⟧]*formatVarName[^⟧]*⟧)|(⟦[^⟧]*formatVarName[^⟧]*⟧\s*:=)`)
	short := regexp.MustCompile(`\b([a-z][A-Za-z0-9_]*(?:\s*,\s*[a-z][A-Za-z0-9_]*)*)\s*:=`)
	varDecl := regexp.MustCompile(`\bvar\s+([a-z][A-Za-z0-9_]*)\b`)
	qualifier := regexp.MustCompile(`\b([a-z][A-Za-z0-9_]*)\.[A-Z]`)
	param := regexp.MustCompile(`\)\s+[A-Za-z0-9_]+\(([a-z][A-Za-z0-9_]*)\s+[\[\]\*A-Za-z0-9_.]+\)`)
	n := 0
	for _, name := range ts.names() {
		full := tmplTextFull(ts.trees[name].Root)
		if !declares.MatchString(full) {
			continue
		}
		// the literal text of the template only: what the actions print is not Go written by the template
		var literal strings.Builder
		walkTmpl(ts.trees[name].Root, func(m parse.Node) bool {
			if tn, ok := m.(*parse.TextNode); ok {
				literal.Write(tn.Text)
				literal.WriteString(" ")
			}
			return true
		})
		text := literal.String()
		used := map[string]bool{}
		for _, m := range short.FindAllStringSubmatch(text, -1) {
			for _, id := range strings.Split(m[1], ",") {
				used[strings.TrimSpace(id)] = true
			}
		}
		for _, re := range []*regexp.Regexp{varDecl, qualifier, param} {
			for _, m := range re.FindAllStringSubmatch(text, -1) {
				used[m[1]] = true
			}
		}
		// `resource` / `builder` selectors are covered by the list too; `_` is no identifier
		delete(used, "_")
		var missing []string
		for id := range used {
			if !escaped[id] {
				missing = append(missing, id)
			}
		}
		sort.Strings(missing)
		n++
		r.Check(len(missing) == 0, "kinds/go-template-variables-escaped", ts.file[name]+" names a variable after a type of the schema", token.NoPos, "every identifier the template uses itself is escaped by formatVarName",
			fmt.Sprintf("%s declares a variable named after a type of the schema through formatVarName, which does not escape %v, identifiers the template uses itself: a union branch called Raw gives `var raw Raw` then `json.Unmarshal(raw, &raw)` — cannot use raw (variable of type Raw) as []byte; the package does not compile and no accepted document can be decoded", ts.file[name], missing))
	}
	r.Count("Go templates declaring a variable named after a type", n)
	r.Floor("Go templates declaring a variable named after a type", 2)
}

// c01SixthRound — fifth hunt:
//   - an enum is declared with the type of its members (`type Mode string`) whatever its own nullability, and the
//     strict decoder asks the *reference* whether null is accepted: the walkRef of the JSON Schema and OpenAPI
//     front-ends make the reference to an enum that accepts null nullable (as AnonymousEnumToExplicitType does for an
//     enum written in place);
//   - the CUE front-end names objects after their label: declareObject remembers where each name was declared from
//     and fails when the same name is given to a definition found somewhere else (`#A: {#Cfg: …}`, `#B: {#Cfg: …}`).
func c01SixthRound(ctx *Ctx, r *Report) {
	n := 0
	for _, rel := range []string{"internal/jsonschema", "internal/openapi"} {
		p := ctx.Pkg(rel)
		if p == nil {
			r.Undecided("anchor lost: %s", rel)
			continue
		}
		fd := c12Method(p, "walkRef")
		if fd == nil {
			r.Undecided("anchor lost: %s walkRef", rel)
			continue
		}
		info := p.TypesInfo
		refs := map[types.Object]bool{}
		ast.Inspect(fd.Body, func(m ast.Node) bool {
			if as, ok := m.(*ast.AssignStmt); ok && len(as.Lhs) == 1 && len(as.Rhs) == 1 {
				if c, ok := ast.Unparen(as.Rhs[0]).(*ast.CallExpr); ok {
					if f := callee(info, c); f != nil && f.Name() == "NewRef" {
						if id, ok := as.Lhs[0].(*ast.Ident); ok {
							refs[objOf(info, id)] = true
						}
					}
				}
			}
			return true
		})
		carried := false
		parents := parentMap(fd)
		ast.Inspect(fd.Body, func(m ast.Node) bool {
			as, ok := m.(*ast.AssignStmt)
			if !ok || len(as.Lhs) != 1 {
				return true
			}
			sel, ok := ast.Unparen(as.Lhs[0]).(*ast.SelectorExpr)
			if !ok || sel.Sel.Name != "Nullable" {
				return true
			}
			id, ok := ast.Unparen(sel.X).(*ast.Ident)
			if !ok || !refs[objOf(info, id)] {
				return true
			}
			for _, c := range enclosingConds(parents, as) {
				if strings.Contains(exprString(c.stmt.Cond), "Enum") {
					carried = true
				}
			}
			return true
		})
		n++
		r.Check(carried, "frontier/nullable-enum-reference", ctx.RelPkg(p.PkgPath)+".walkRef refers to an enum that accepts null", fd.Pos(), "the reference it returns is made nullable under a test on the referred enum",
			ctx.RelPkg(p.PkgPath)+".walkRef returns a plain reference whatever it designates: `\"Mode\": {\"enum\": [\"a\", \"b\", null]}` (OpenAPI: enum + nullable: true) referred to by a required property is declared `Mode Mode` — {\"mode\":null} is re-encoded {\"mode\":\"\"}, which the schema rejects, and the strict decoder answers `required field is null`")
	}
	if p := ctx.Pkg("internal/simplecue"); p == nil {
		r.Undecided("anchor lost: internal/simplecue")
	} else if fd := c12Method(p, "declareObject"); fd == nil {
		r.Undecided("anchor lost: simplecue.generator.declareObject")
	} else {
		info := p.TypesInfo
		var nameParam types.Object
		for _, f := range fd.Type.Params.List {
			for _, nm := range f.Names {
				if b, ok := info.TypeOf(nm).Underlying().(*types.Basic); ok && b.Kind() == types.String {
					nameParam = info.Defs[nm]
				}
			}
		}
		// the early exit for a name that is already declared
		var early token.Pos
		ast.Inspect(fd.Body, func(m ast.Node) bool {
			if is, ok := m.(*ast.IfStmt); ok && !early.IsValid() && strings.Contains(exprString(is.Cond), "Objects.Has(") && endsInExit(is.Body) {
				early = is.Pos()
			}
			return true
		})
		// before it (or inside it): an error exit decided on a map indexed by the name
		compares := false
		ast.Inspect(fd.Body, func(m ast.Node) bool {
			is, ok := m.(*ast.IfStmt)
			if !ok || len(is.Body.List) == 0 {
				return true
			}
			rs, ok := is.Body.List[len(is.Body.List)-1].(*ast.ReturnStmt)
			if !ok || len(rs.Results) != 1 || isNilIdent(info, rs.Results[0]) {
				return true
			}
			reads := false
			for _, part := range []ast.Node{is.Init, is.Cond} {
				if part == nil {
					continue
				}
				ast.Inspect(part, func(k ast.Node) bool {
					if ix, ok := k.(*ast.IndexExpr); ok {
						if _, isMap := info.TypeOf(ix.X).Underlying().(*types.Map); isMap && nameParam != nil && isIdentOf(info, ix.Index, nameParam) {
							reads = true
						}
					}
					return true
				})
			}
			if reads {
				compares = true
			}
			return true
		})
		n++
		r.Check(early.IsValid() && compares, "frontier/cue-definition-names-unique", "simplecue.declareObject declares an object under its label", fd.Pos(), "after comparing where that name was declared from, with an error exit",
			"declareObject leaves as soon as the name is taken, whatever definition took it: `#A: {#Cfg: {x: string}, cfg: #Cfg}`, `#B: {#Cfg: {y: int}, cfg: #Cfg}` give one `type Cfg struct{X string}` used by both — {\"b\":{\"cfg\":{\"y\":1}}} is re-encoded {\"b\":{\"cfg\":{\"x\":\"\"}}}, which CUE rejects")
	}
	r.Count("hunted clauses of the round trip (6th round)", n)
	r.Floor("hunted clauses of the round trip (6th round)", 3)
}

// c11SixthRound — fifth hunt:
//   - the Go, Python and Java chains hold the pass ObjectIdentifiers, configured with the function that names an
//     object in that language: two objects that end up with one identifier (`pet_kind`, `PetKind`) are an error — in
//     Python the second `class PetKind:` silently took the place of the first and from_json lost data;
//   - the locals of the generated Python methods and the aliases of the imported models modules are kept apart: the
//     alias sanitizer of the import map consults a function that lists the names the methods use — every name that
//     generateFromJSONMethod / fromJSONForTypeRec / the to_json generator write as a parameter or a variable is in it;
//   - from_json puts an explicit null back for a nullable constant (`kind: "a" | null`): the list of fields whose null
//     is restored after `cls(**args)` takes concrete scalars and constant references that are nullable.
func c11SixthRound(ctx *Ctx, r *Report) {
	n := 0
	// (a)
	chains := languageChains(ctx)
	for _, lang := range []string{"golang", "python", "java"} {
		chain, ok := chains[lang]
		if !ok {
			r.Undecided("anchor lost: CompilerPasses of %s", lang)
			continue
		}
		has := false
		for _, name := range chain {
			if name == "ObjectIdentifiers" {
				has = true
			}
		}
		n++
		r.Check(has, "chains/object-identifiers", lang+" chain checks the identifiers of objects", token.NoPos, "ObjectIdentifiers is part of the chain",
			"the "+lang+" chain does not check that the objects of a schema keep distinct identifiers: `pet_kind: {a: string}` and `PetKind: {b: int}` are both `PetKind` — Python declares the class twice, the second takes the place of the first and {\"x\":{\"a\":\"s\"}} comes back as {\"x\":{\"b\":0}}; Go: PetKind redeclared")
	}
	ctx.AllFuncDecls(func(p *packages.Package, fd *ast.FuncDecl, obj *types.Func) {
		if fd.Recv == nil || fd.Body == nil || obj.Name() != "CompilerPasses" || !strings.HasPrefix(p.PkgPath, modulePath+"/internal/jennies/") {
			return
		}
		ast.Inspect(fd.Body, func(m ast.Node) bool {
			cl, ok := m.(*ast.CompositeLit)
			if !ok || namedName(p.TypesInfo.TypeOf(cl)) != "ObjectIdentifiers" {
				return true
			}
			configured := false
			for _, el := range cl.Elts {
				if kv, ok := el.(*ast.KeyValueExpr); ok && exprString(kv.Key) == "Identifier" {
					if id, ok := ast.Unparen(kv.Value).(*ast.Ident); !ok || id.Name != "nil" {
						configured = true
					}
				}
			}
			n++
			r.Check(configured, "chains/object-identifiers", ctx.FuncName(obj)+" configures the check", cl.Pos(), "the pass is given the function that names objects in that language",
				ctx.FuncName(obj)+" adds ObjectIdentifiers without Identifier: the pass checks nothing")
			return true
		})
	})
	// the pass fails on a duplicate
	if fn := ctx.LookupMethod("internal/ast/compiler", "ObjectIdentifiers", "Process"); fn == nil {
		r.Check(false, "chains/object-identifiers", "compiler.ObjectIdentifiers exists", token.NoPos, "", "the pass that checks the identifiers of objects is gone")
	} else if fd, p := ctx.DeclOf(fn); fd != nil {
		info := p.TypesInfo
		fails := false
		ast.Inspect(fd.Body, func(m ast.Node) bool {
			is, ok := m.(*ast.IfStmt)
			if !ok || len(is.Body.List) == 0 {
				return true
			}
			as, ok := is.Init.(*ast.AssignStmt)
			if !ok || len(as.Rhs) != 1 {
				return true
			}
			if _, isIndex := ast.Unparen(as.Rhs[0]).(*ast.IndexExpr); !isIndex {
				return true
			}
			if rs, ok := is.Body.List[len(is.Body.List)-1].(*ast.ReturnStmt); ok && len(rs.Results) == 2 && !isNilIdent(info, rs.Results[1]) {
				fails = true
			}
			return true
		})
		n++
		r.Check(fails, "chains/object-identifiers", "compiler.ObjectIdentifiers fails on an identifier given twice", fd.Pos(), "a lookup in the table of identifiers leaves with an error", "ObjectIdentifiers no longer fails when two objects get one identifier")
	}
	// (b)
	pp := ctx.Pkg("internal/jennies/python")
	if pp == nil {
		r.Undecided("anchor lost: internal/jennies/python")
		return
	}
	info := pp.TypesInfo
	listed := map[string]bool{}
	var lister *types.Func
	if fn := ctx.LookupFunc("internal/jennies/python", "NewImportMap"); fn != nil {
		if fd, _ := ctx.DeclOf(fn); fd != nil {
			ast.Inspect(fd.Body, func(m ast.Node) bool {
				c, ok := m.(*ast.CallExpr)
				if !ok {
					return true
				}
				if f := callee(info, c); f != nil && strings.HasPrefix(f.Name(), "WithAliasSanitizer") && len(c.Args) == 1 {
					ast.Inspect(c.Args[0], func(k ast.Node) bool {
						if kc, ok := k.(*ast.CallExpr); ok {
							if kf := callee(info, kc); kf != nil && kf.Pkg() == pp.Types {
								lister = kf
							}
						}
						return true
					})
				}
				return true
			})
		}
	}
	if lister != nil {
		if lfd, _ := ctx.DeclOf(lister); lfd != nil {
			ast.Inspect(lfd.Body, func(m ast.Node) bool {
				if e, ok := m.(ast.Expr); ok {
					if tv, ok := info.Types[e]; ok && tv.Value != nil && tv.Value.Kind() == constant.String {
						listed[constant.StringVal(tv.Value)] = true
					}
				}
				return true
			})
		}
	}
	// the names the generated methods use: parameters and variables written in the format strings of the generators
	used := map[string]bool{}
	sig := regexp.MustCompile(`def \w+\(([^)]*)\)`)
	assign := regexp.MustCompile(`(?m)^\s*([a-z_][a-z0-9_]*)(?::[^=\n]+)? = `)
	loop := regexp.MustCompile(`for ([a-z_][a-z0-9_]*) in`)
	for _, name := range []string{"generateFromJSONMethod", "fromJSONForTypeRec", "generateToJSONMethod"} {
		fd := c12Method(pp, name)
		if fd == nil {
			continue
		}
		ast.Inspect(fd.Body, func(m ast.Node) bool {
			bl, ok := m.(*ast.BasicLit)
			if !ok || bl.Kind != token.STRING {
				return true
			}
			tv, ok := info.Types[bl]
			if !ok || tv.Value == nil {
				return true
			}
			text := constant.StringVal(tv.Value)
			for _, mm := range sig.FindAllStringSubmatch(text, -1) {
				for _, prm := range strings.Split(mm[1], ",") {
					prm = strings.TrimSpace(strings.SplitN(prm, ":", 2)[0])
					if prm != "" && !strings.ContainsAny(prm, "%{") {
						used[prm] = true
					}
				}
			}
			for _, mm := range assign.FindAllStringSubmatch(text, -1) {
				used[mm[1]] = true
			}
			for _, mm := range loop.FindAllStringSubmatch(text, -1) {
				used[mm[1]] = true
			}
			// variable names given as plain literals ("item", "key")
			if text == "item" || text == "key" {
				used[text] = true
			}
			return true
		})
	}
	var missing []string
	for name := range used {
		if !listed[name] {
			missing = append(missing, name)
		}
	}
	sort.Strings(missing)
	n++
	r.Check(lister != nil && len(used) >= 5 && len(missing) == 0, "kinds/python-module-aliases-spare-locals", "python import aliases spare the names the generated methods use", token.NoPos, fmt.Sprintf("the alias sanitizer consults a list that holds the %d names written by the method generators", len(used)),
		fmt.Sprintf("a models module is imported under the bare name of its package, and the generated methods use %v as parameters or variables without the alias sanitizer knowing them: package `data` with `t: data.Thing` gives `args[\"t\"] = data.Thing.from_json(data[\"t\"])` inside `def from_json(cls, data)` — AttributeError: 'dict' object has no attribute 'Thing', on every document", missing))
	// (c)
	if fd := c12Method(pp, "generateFromJSONMethod"); fd == nil {
		r.Undecided("anchor lost: python.RawTypes.generateFromJSONMethod")
	} else {
		restores := false
		ast.Inspect(fd.Body, func(m ast.Node) bool {
			is, ok := m.(*ast.IfStmt)
			if !ok {
				return true
			}
			cond := exprString(is.Cond)
			if !strings.Contains(cond, ".Nullable") || !(strings.Contains(cond, "IsConcreteScalar()") && strings.Contains(cond, "IsConstantRef()")) || strings.Contains(cond, "!field.Type.IsConcreteScalar()") {
				return true
			}
			ast.Inspect(is.Body, func(k ast.Node) bool {
				if c, ok := k.(*ast.CallExpr); ok {
					if id, ok := ast.Unparen(c.Fun).(*ast.Ident); ok && id.Name == "append" && len(c.Args) > 0 && strings.Contains(exprString(c.Args[0]), "ullable") {
						restores = true
					}
				}
				return true
			})
			return true
		})
		n++
		r.Check(restores, "flow/python-explicit-null-kept", "python.generateFromJSONMethod keeps the null of a nullable constant", fd.Pos(), "nullable constants join the fields whose explicit null is put back after the constructor",
			"from_json skips constants (the constructor sets them) and never looks at the document: `kind: \"a\" | null` with {\"kind\":null} comes back as {\"kind\":\"a\"} while Go keeps the null")
	}
	r.Count("hunted clauses of the Python wire format (6th round)", n)
	r.Floor("hunted clauses of the Python wire format (6th round)", 8)
}

// c11SeventhRound — sixth hunt of C11:
//   - (finding) DisjunctionInferMapping takes any constant string field present in every branch for the discriminator,
//     also one a document can leave out: inferDiscriminatorField has to look at `Required`;
//   - (finding) the `mapping` of an OpenAPI discriminator supplements the implicit mapping (schema name → schema): the
//     front-end has to add an entry for the branches the mapping does not name;
//   - Python: the closure that skips the import of the module being written answers "" only for a relative package — a
//     schema package called `typing` / `enum` still imports the standard module; a package named after a reserved word is
//     refused (its module could not be imported).
func c11SeventhRound(ctx *Ctx, r *Report, roundTrips bool) {
	n := 0
	// (a)
	if !roundTrips {
		n += 2 // the two clauses about documents lost at run time are not run for C02
	} else if fn := ctx.LookupMethod("internal/ast/compiler", "DisjunctionInferMapping", "inferDiscriminatorField"); fn == nil {
		r.Undecided("anchor lost: compiler.DisjunctionInferMapping.inferDiscriminatorField")
	} else if fd, _ := ctx.DeclOf(fn); fd != nil {
		reads := false
		ast.Inspect(fd.Body, func(m ast.Node) bool {
			if sel, ok := m.(*ast.SelectorExpr); ok && sel.Sel.Name == "Required" {
				reads = true
			}
			return true
		})
		n++
		r.Check(reads, "derive/discriminator-is-required", "compiler.inferDiscriminatorField picks the field that tells the branches apart", fd.Pos(), "among the fields a document has to hold (Required)",
			"any constant string field present in every branch is taken for the discriminator, also an optional one: `Cat: {type?: \"cat\", lives: int}; Dog: {type?: \"dog\", bark: string}; Root: {pet?: Cat | Dog}` — the accepted document {\"pet\":{\"lives\":1}} raises KeyError: 'type' in Python's from_json and is written back {\"pet\":null} by Go")
	}
	// (b)
	if !roundTrips {
	} else if p := ctx.Pkg("internal/openapi"); p == nil {
		r.Undecided("anchor lost: internal/openapi")
	} else {
		supplements := false
		for _, name := range []string{"walkDisjunctions", "getDiscriminator", "walkOneOf", "walkAnyOf"} {
			fd := c12Method(p, name)
			if fd == nil {
				continue
			}
			ast.Inspect(fd.Body, func(m ast.Node) bool {
				if as, ok := m.(*ast.AssignStmt); ok && len(as.Lhs) == 1 {
					if ix, ok := ast.Unparen(as.Lhs[0]).(*ast.IndexExpr); ok && strings.Contains(exprString(ix.X), "apping") && strings.Contains(exprString(ix.Index), "ReferredType") {
						supplements = true
					}
				}
				return true
			})
		}
		fd := c12Method(p, "walkDisjunctions")
		if fd == nil {
			r.Undecided("anchor lost: openapi.generator.walkDisjunctions")
		} else {
			n++
			r.Check(supplements, "frontier/openapi-mapping-supplements-implicit", "openapi.walkDisjunctions reads the mapping of a discriminator", fd.Pos(), "and adds the implicit entries (schema name → schema) for the branches it does not name",
				"the explicit entries of `discriminator.mapping` are copied and nothing is added for the other branches: `oneOf: [Cat, Dog], discriminator: {propertyName: petType, mapping: {kitty: Cat}}` — {\"pet\":{\"petType\":\"Dog\",…}} (valid: an unlisted value is a schema name) raises KeyError: 'Dog' in Python and is written back {\"pet\":null} by Go; without any mapping the same document round-trips")
		}
	}
	// (c)
	if fn := ctx.LookupMethod("internal/jennies/python", "RawTypes", "generateSchema"); fn == nil {
		r.Undecided("anchor lost: python.RawTypes.generateSchema")
	} else if fd, _ := ctx.DeclOf(fn); fd != nil {
		seen, relativeOnly := 0, true
		ast.Inspect(fd.Body, func(m ast.Node) bool {
			as, ok := m.(*ast.AssignStmt)
			if !ok || len(as.Lhs) != 1 || len(as.Rhs) != 1 || !strings.HasSuffix(exprString(as.Lhs[0]), ".importPkg") {
				return true
			}
			fl, ok := ast.Unparen(as.Rhs[0]).(*ast.FuncLit)
			if !ok {
				return true
			}
			ast.Inspect(fl.Body, func(q ast.Node) bool {
				is, ok := q.(*ast.IfStmt)
				if !ok || !strings.Contains(exprString(is.Cond), "schema.Package") {
					return true
				}
				seen++
				if !strings.Contains(exprString(is.Cond), "strings.HasPrefix(") {
					relativeOnly = false
				}
				return true
			})
			return true
		})
		n++
		r.Check(seen > 0 && relativeOnly, "kinds/python-standard-imports-spared", "python.generateSchema skips the import of the module being written", fd.Pos(), "only for a relative package",
			"the importPkg closure answers \"\" (nothing to import) whenever the bare name of the package is the schema's: in a schema package called typing or enum the standard module is never imported and the annotations come out as `.Any`, `class Mode(.StrEnum)` — SyntaxError on import")
	}
	if fn := ctx.LookupMethod("internal/jennies/python", "RawTypes", "Generate"); fn == nil {
		r.Undecided("anchor lost: python.RawTypes.Generate")
	} else if fd, p := ctx.DeclOf(fn); fd != nil {
		info := p.TypesInfo
		refused := false
		ast.Inspect(fd.Body, func(m ast.Node) bool {
			is, ok := m.(*ast.IfStmt)
			if !ok || !endsInExit(is.Body) {
				return true
			}
			ast.Inspect(is.Cond, func(q ast.Node) bool {
				c, ok := q.(*ast.CallExpr)
				if !ok || len(c.Args) != 1 || !strings.HasSuffix(exprString(c.Args[0]), ".Package") {
					return true
				}
				f := callee(info, c)
				if f == nil {
					return true
				}
				if gd, _ := ctx.DeclOf(f); gd != nil && gd.Body != nil {
					words := map[string]bool{}
					ast.Inspect(gd.Body, func(z ast.Node) bool {
						if e, ok := z.(ast.Expr); ok {
							if tv, ok := info.Types[e]; ok && tv.Value != nil && tv.Value.Kind() == constant.String {
								words[constant.StringVal(tv.Value)] = true
							}
						}
						return true
					})
					if words["lambda"] && words["global"] && words["import"] {
						refused = true
					}
				}
				return true
			})
			return true
		})
		n++
		r.Check(refused, "skeleton/python-keyword-packages-refused", "python.RawTypes.Generate names a module after its package", fd.Pos(), "a package named after a reserved word is refused",
			"the module of a schema is named after its package whatever it is: package `global` gives models/global.py and `from ..models import global` in every module that refers to it — SyntaxError, and the run reports success")
	}
	r.Count("hunted clauses of the round-trip rules (7th round)", n)
	r.Floor("hunted clauses of the round-trip rules (7th round)", 4)
}

// c01SeventhRound — sixth hunt of C01:
//   - `properties` written next to `allOf` belong to the schema: walkAllOf of the JSON Schema and OpenAPI front-ends reads
//     them (and walks the schema as an object for one more branch);
//   - OpenAPI: an object component that accepts null is declared as the struct it describes (declareDefinition clears the
//     nullability of a struct) and what refers to it carries the nullability (walkRef sets it under a test on the
//     properties of the referred schema) — Go declared `type Inner *struct{…}` and a constructor returning `&Inner{}`;
//   - (finding) Go declares a field that refers to a named constant with the constant's own type and drops the
//     nullability an optional field was given: `offset?: #Zero` is `Offset int64 json:"offset,omitempty"` and an explicit
//     0 is not written back.
func c01SeventhRound(ctx *Ctx, r *Report, roundTrips bool) {
	n := 0
	for _, rel := range []string{"internal/jsonschema", "internal/openapi"} {
		p := ctx.Pkg(rel)
		if p == nil {
			r.Undecided("anchor lost: %s", rel)
			continue
		}
		fd := c12Method(p, "walkAllOf")
		if fd == nil {
			r.Undecided("anchor lost: %s walkAllOf", rel)
			continue
		}
		info := p.TypesInfo
		reads, walks := false, false
		ast.Inspect(fd.Body, func(m ast.Node) bool {
			switch x := m.(type) {
			case *ast.SelectorExpr:
				if x.Sel.Name == "Properties" {
					reads = true
				}
			case *ast.CallExpr:
				if f := callee(info, x); f != nil && f.Name() == "walkObject" {
					walks = true
				}
			}
			return true
		})
		n++
		r.Check(reads && walks, "frontier/allof-sibling-properties-read", rel+".walkAllOf reads a schema that holds allOf", fd.Pos(), "the properties written next to allOf make one more branch",
			rel+".walkAllOf walks the branches of the composition only: `Derived: {allOf: [$ref Base], required: [extra], properties: {extra: integer}}` becomes `type Derived struct{ Base }` — the accepted document {\"id\":\"i\",\"extra\":3} is re-encoded {\"id\":\"i\"}, which the schema refuses")
	}
	if p := ctx.Pkg("internal/openapi"); p != nil {
		info := p.TypesInfo
		if fd := c12Method(p, "declareDefinition"); fd == nil {
			r.Undecided("anchor lost: openapi.generator.declareDefinition")
		} else {
			clears := false
			ast.Inspect(fd.Body, func(m ast.Node) bool {
				is, ok := m.(*ast.IfStmt)
				if !ok || !strings.Contains(exprString(is.Cond), "IsStruct()") {
					return true
				}
				ast.Inspect(is.Body, func(q ast.Node) bool {
					if as, ok := q.(*ast.AssignStmt); ok && len(as.Lhs) == 1 && len(as.Rhs) == 1 && strings.HasSuffix(exprString(as.Lhs[0]), ".Nullable") && exprString(as.Rhs[0]) == "false" {
						clears = true
					}
					return true
				})
				return true
			})
			n++
			r.Check(clears, "frontier/openapi-nullable-object-component", "openapi.declareDefinition declares an object component that accepts null", fd.Pos(), "as the struct it describes (the references carry the nullability)",
				"`Inner: {type: object, nullable: true, properties: {x: string}}` is declared as a nullable struct: Go writes `type Inner *struct{…}` and `func NewInner() *Inner { return &Inner{} }` — invalid composite literal type Inner, no document can be decoded")
		}
		if fd := c12Method(p, "walkRef"); fd == nil {
			r.Undecided("anchor lost: openapi.generator.walkRef")
		} else {
			carries := false
			ast.Inspect(fd.Body, func(m ast.Node) bool {
				is, ok := m.(*ast.IfStmt)
				if !ok {
					return true
				}
				sets := false
				ast.Inspect(is.Body, func(q ast.Node) bool {
					if as, ok := q.(*ast.AssignStmt); ok && len(as.Lhs) == 1 && strings.HasSuffix(exprString(as.Lhs[0]), ".Nullable") && exprString(as.Rhs[0]) == "true" {
						sets = true
					}
					return true
				})
				if !sets {
					return true
				}
				// the condition speaks of the properties of the referred schema, itself or through a helper
				ast.Inspect(is.Cond, func(q ast.Node) bool {
					switch x := q.(type) {
					case *ast.SelectorExpr:
						if x.Sel.Name == "Properties" {
							carries = true
						}
					case *ast.CallExpr:
						if f := callee(info, x); f != nil && f.Pkg() == p.Types {
							if gd, _ := ctx.DeclOf(f); gd != nil && gd.Body != nil && strings.Contains(exprStringOfBody(gd), ".Properties") {
								carries = true
							}
						}
					}
					return true
				})
				return true
			})
			n++
			r.Check(carries, "frontier/openapi-nullable-object-component", "openapi.walkRef refers to an object component that accepts null", fd.Pos(), "the reference is nullable",
				"walkRef carries the nullability of the referred component for enums only: once the object component is declared as a plain struct, `inner: {$ref Inner}` (Inner nullable) would refuse {\"inner\": null}")
		}
	}
	// (c)
	if !roundTrips {
		n++ // a value that is not written back: not a question of compiling
	} else if fn := ctx.LookupMethod("internal/jennies/golang", "typeFormatter", "formatField"); fn == nil {
		r.Undecided("anchor lost: golang.typeFormatter.formatField")
	} else if fd, _ := ctx.DeclOf(fn); fd != nil {
		keeps, swaps := false, false
		ast.Inspect(fd.Body, func(m ast.Node) bool {
			is, ok := m.(*ast.IfStmt)
			if !ok || !strings.Contains(exprString(is.Cond), "IsConcreteScalar()") {
				return true
			}
			swaps = true
			ast.Inspect(is.Body, func(q ast.Node) bool {
				if as, ok := q.(*ast.AssignStmt); ok && len(as.Lhs) == 1 && strings.HasSuffix(exprString(as.Lhs[0]), ".Nullable") {
					keeps = true
				}
				return true
			})
			return true
		})
		if swaps {
			n++
			r.Check(keeps, "skeleton/go-optional-constant-reference-keeps-presence", "golang.formatField declares a field that refers to a named constant", fd.Pos(), "with the constant's type and the nullability of the field",
				"formatField replaces a reference to a named constant by the constant's own, non-nullable, type while `,omitempty` is still added for an optional field: `#Zero: 0; #Root: {name: string, offset?: #Zero}` gives `Offset int64 `json:\"offset,omitempty\"`` — the accepted document {\"name\":\"a\",\"offset\":0} is re-encoded {\"name\":\"a\"} (the inline `offset?: 0` is a pointer and round-trips)")
		}
	}
	r.Count("hunted clauses of the decode rules (7th round)", n)
	r.Floor("hunted clauses of the decode rules (7th round)", 5)
}

func exprStringOfBody(fd *ast.FuncDecl) string {
	var b strings.Builder
	ast.Inspect(fd.Body, func(m ast.Node) bool {
		if sel, ok := m.(*ast.SelectorExpr); ok {
			b.WriteString("." + sel.Sel.Name + " ")
		}
		return true
	})
	return b.String()
}
