package main

// C04, clause 9: the kind-specific members of ast.Type are pointers; AsStruct(), AsEnum(), … and
// selections through .Struct, .Enum, … dereference them and "rely on callers checking Kind first".
// This file decides, for every such access in cog, whether a kind test on the same access path
// dominates it.

import (
	"fmt"
	"go/ast"
	"go/token"
	"go/types"
	"sort"
	"strings"

	"golang.org/x/tools/go/packages"
)

var kindOfAccessor = map[string]string{"AsStruct": "struct", "AsEnum": "enum", "AsScalar": "scalar", "AsArray": "array", "AsMap": "map", "AsRef": "ref",
	"AsDisjunction": "disjunction", "AsIntersection": "intersection", "AsComposableSlot": "composable_slot", "AsConstantRef": "constant_ref"}
var kindOfMember = map[string]string{"Struct": "struct", "Enum": "enum", "Scalar": "scalar", "Array": "array", "Map": "map", "Ref": "ref",
	"Disjunction": "disjunction", "Intersection": "intersection", "ComposableSlot": "composable_slot", "ConstantReference": "constant_ref"}
var kindOfConst = map[string]string{"KindStruct": "struct", "KindEnum": "enum", "KindScalar": "scalar", "KindArray": "array", "KindMap": "map", "KindRef": "ref",
	"KindDisjunction": "disjunction", "KindIntersection": "intersection", "KindComposableSlot": "composable_slot", "KindConstantRef": "constant_ref"}

// predicates of ast.Type that imply a kind (derived from their bodies by kindPredicateTable)
type kindFact struct {
	path   ast.Expr
	kind   string
	suffix []string // field selections applied to path (facts imported from a predicate's summary)
}

// predSummary: calling the function and getting `true` implies that <param i>.<sels> has the given kind.
type predSummary struct {
	param int
	sels  []string
	kind  string
}

type kindAnalysis struct {
	ctx        *Ctx
	typeT      *types.Named
	predicates map[*types.Func]string    // method of ast.Type -> kind it implies when true
	boolDefs   map[types.Object]ast.Expr // boolean locals assigned exactly once: `isConstant := field.Type.IsConcreteScalar()`
	summaries  map[*types.Func][]predSummary
	resultKind map[*types.Func]string    // functions returning (ast.Type, bool): kind of the first result whenever the second is true
	okFacts    map[types.Object]kindFact // `x, ok := f(…)` with f in resultKind: ok ⇒ x has that kind
}

// buildResultKinds: a function returning (ast.Type, bool) whose every `return X, true` returns an X tested for one same kind.
func (ka *kindAnalysis) buildResultKinds() {
	ka.resultKind = map[*types.Func]string{}
	ka.ctx.AllFuncDecls(func(p *packages.Package, fd *ast.FuncDecl, obj *types.Func) {
		if fd.Body == nil || obj == nil {
			return
		}
		sig := obj.Type().(*types.Signature)
		if sig.Results().Len() != 2 || namedOf(sig.Results().At(0).Type()) != ka.typeT || sig.Results().At(1).Type().String() != "bool" {
			return
		}
		info := p.TypesInfo
		parents := parentMap(fd)
		ka.indexBoolDefs(info, fd)
		kinds := map[string]bool{}
		okAll := true
		n := 0
		ast.Inspect(fd.Body, func(m ast.Node) bool {
			if _, ok := m.(*ast.FuncLit); ok {
				return false
			}
			rs, ok := m.(*ast.ReturnStmt)
			if !ok || len(rs.Results) != 2 || exprString(rs.Results[1]) != "true" {
				return true
			}
			n++
			found := ""
			for _, k := range []string{"struct", "enum", "scalar", "array", "map", "ref", "disjunction", "intersection", "composable_slot", "constant_ref"} {
				if ka.guardedLocally(info, fd, parents, rs, rs.Results[0], nil, k) != "" {
					found = k
				}
			}
			if found == "" {
				okAll = false
			}
			kinds[found] = true
			return true
		})
		if okAll && n > 0 && len(kinds) == 1 {
			for k := range kinds {
				ka.resultKind[obj] = k
			}
		}
	})
}

// flattenPath splits e into its root and the field selections applied to it.
func flattenPath(info *types.Info, e ast.Expr, suffix []string) (ast.Expr, []string) {
	sels := append([]string{}, suffix...)
	for {
		e = ast.Unparen(e)
		s, ok := e.(*ast.SelectorExpr)
		if !ok || fieldOf(info, s) == nil {
			return e, sels
		}
		sels = append([]string{s.Sel.Name}, sels...)
		e = s.X
	}
}

// buildSummaries: for every cog function returning a single bool, the kind facts that hold whenever it returns true:
// those established by the leading `if <cond> { return false }` statements of its body (and by a final
// `return <conjunction>`), expressed on its parameters.
func (ka *kindAnalysis) buildSummaries() {
	ka.summaries = map[*types.Func][]predSummary{}
	for round := 0; round < 2; round++ {
		ka.ctx.AllFuncDecls(func(p *packages.Package, fd *ast.FuncDecl, obj *types.Func) {
			if fd.Body == nil || obj == nil {
				return
			}
			sig := obj.Type().(*types.Signature)
			if sig.Results().Len() != 1 || sig.Results().At(0).Type().String() != "bool" {
				return
			}
			info := p.TypesInfo
			paramIdx := map[types.Object]int{}
			k := 0
			for _, f := range fd.Type.Params.List {
				for _, nm := range f.Names {
					paramIdx[info.Defs[nm]] = k
					k++
				}
				if len(f.Names) == 0 {
					k++
				}
			}
			var facts []kindFact
			for _, st := range fd.Body.List {
				is, ok := st.(*ast.IfStmt)
				if ok && is.Else == nil && len(is.Body.List) == 1 {
					if rs, ok := is.Body.List[0].(*ast.ReturnStmt); ok && len(rs.Results) == 1 && exprString(rs.Results[0]) == "false" {
						facts = append(facts, ka.facts(info, is.Cond, false)...)
						continue
					}
				}
				if rs, ok := st.(*ast.ReturnStmt); ok && len(rs.Results) == 1 {
					facts = append(facts, ka.facts(info, rs.Results[0], true)...)
					break
				}
				// plain assignments / declarations before the tests do not change what a later `return false` implies
				if _, ok := st.(*ast.AssignStmt); ok {
					continue
				}
				if _, ok := st.(*ast.DeclStmt); ok {
					continue
				}
				break
			}
			var out []predSummary
			for _, f := range facts {
				root, sels := flattenPath(info, f.path, f.suffix)
				id, ok := root.(*ast.Ident)
				if !ok {
					continue
				}
				if i, ok := paramIdx[objOf(info, id)]; ok {
					// the parameter must not be reassigned before the test: accept only if never assigned in the function
					assigned := false
					ast.Inspect(fd.Body, func(n ast.Node) bool {
						if as, ok := n.(*ast.AssignStmt); ok {
							for _, l := range as.Lhs {
								if isIdentOf(info, l, objOf(info, id)) {
									assigned = true
								}
							}
						}
						return true
					})
					if !assigned {
						out = append(out, predSummary{i, sels, f.kind})
					}
				}
			}
			if len(out) > 0 {
				ka.summaries[obj] = out
			}
		})
	}
}

// indexBoolDefs records the boolean locals of fd that are assigned exactly once.
func (ka *kindAnalysis) indexBoolDefs(info *types.Info, fd *ast.FuncDecl) {
	if ka.boolDefs == nil {
		ka.boolDefs = map[types.Object]ast.Expr{}
	}
	count := map[types.Object]int{}
	ast.Inspect(fd.Body, func(n ast.Node) bool {
		as, ok := n.(*ast.AssignStmt)
		if !ok || len(as.Lhs) != len(as.Rhs) {
			return true
		}
		for i, l := range as.Lhs {
			id, ok := l.(*ast.Ident)
			if !ok {
				continue
			}
			o := objOf(info, id)
			if o == nil {
				continue
			}
			if b, ok := o.Type().Underlying().(*types.Basic); !ok || b.Kind() != types.Bool {
				continue
			}
			count[o]++
			ka.boolDefs[o] = as.Rhs[i]
		}
		return true
	})
	for o, c := range count {
		if c != 1 {
			delete(ka.boolDefs, o)
		}
	}
	if ka.okFacts == nil {
		ka.okFacts = map[types.Object]kindFact{}
	}
	ast.Inspect(fd.Body, func(n ast.Node) bool {
		as, ok := n.(*ast.AssignStmt)
		if !ok || len(as.Lhs) != 2 || len(as.Rhs) != 1 {
			return true
		}
		c, ok := ast.Unparen(as.Rhs[0]).(*ast.CallExpr)
		if !ok {
			return true
		}
		fn := callee(info, c)
		if fn == nil || ka.resultKind[fn.Origin()] == "" {
			return true
		}
		x, okx := as.Lhs[0].(*ast.Ident)
		f, okf := as.Lhs[1].(*ast.Ident)
		if okx && okf && f.Name != "_" {
			if fo := objOf(info, f); fo != nil {
				ka.okFacts[fo] = kindFact{path: x, kind: ka.resultKind[fn.Origin()]}
			}
		}
		return true
	})
}

func newKindAnalysis(ctx *Ctx) *kindAnalysis {
	ka := &kindAnalysis{ctx: ctx, predicates: map[*types.Func]string{}}
	ka.typeT = ctx.LookupType("internal/ast", "Type")
	p := ctx.Pkg("internal/ast")
	if p == nil || ka.typeT == nil {
		return ka
	}
	info := p.TypesInfo
	// fixpoint: a predicate implies K if its body starts by leaving on `t.Kind != KindK`, or returns a conjunction whose
	// first conjunct is `t.Kind == KindK` or a call to a predicate that implies K
	var decls []*ast.FuncDecl
	for _, f := range p.Syntax {
		for _, d := range f.Decls {
			fd, ok := d.(*ast.FuncDecl)
			if !ok || fd.Recv == nil || fd.Body == nil || len(fd.Recv.List) != 1 {
				continue
			}
			if namedOf(info.TypeOf(fd.Recv.List[0].Type)) != ka.typeT {
				continue
			}
			fn, _ := info.Defs[fd.Name].(*types.Func)
			sig := fn.Type().(*types.Signature)
			if sig.Results().Len() == 1 && sig.Results().At(0).Type().String() == "bool" && sig.Params().Len() == 0 {
				decls = append(decls, fd)
			}
		}
	}
	var firstConjunct func(e ast.Expr) ast.Expr
	firstConjunct = func(e ast.Expr) ast.Expr {
		if be, ok := ast.Unparen(e).(*ast.BinaryExpr); ok && be.Op == token.LAND {
			return firstConjunct(be.X)
		}
		return ast.Unparen(e)
	}
	kindOfTest := func(e ast.Expr) string {
		switch x := e.(type) {
		case *ast.BinaryExpr:
			if x.Op == token.EQL {
				if s, ok := ast.Unparen(x.X).(*ast.SelectorExpr); ok && s.Sel.Name == "Kind" {
					if id, ok := ast.Unparen(x.Y).(*ast.Ident); ok {
						return kindOfConst[id.Name]
					}
				}
			}
		case *ast.CallExpr:
			if fn := callee(info, x); fn != nil {
				return ka.predicates[fn]
			}
		}
		return ""
	}
	for changed := true; changed; {
		changed = false
		for _, fd := range decls {
			fn, _ := info.Defs[fd.Name].(*types.Func)
			if ka.predicates[fn] != "" || len(fd.Body.List) == 0 {
				continue
			}
			k := ""
			if is, ok := fd.Body.List[0].(*ast.IfStmt); ok && endsInExit(is.Body) {
				if be, ok := ast.Unparen(is.Cond).(*ast.BinaryExpr); ok && be.Op == token.NEQ {
					if s, ok := ast.Unparen(be.X).(*ast.SelectorExpr); ok && s.Sel.Name == "Kind" {
						if id, ok := ast.Unparen(be.Y).(*ast.Ident); ok {
							k = kindOfConst[id.Name]
						}
					}
				}
			}
			if rs, ok := fd.Body.List[0].(*ast.ReturnStmt); ok && len(rs.Results) == 1 {
				k = kindOfTest(firstConjunct(rs.Results[0]))
			}
			if k != "" {
				ka.predicates[fn] = k
				changed = true
			}
		}
	}
	return ka
}

// factsWhenTrue / factsWhenFalse: kind facts implied by a condition.
func (ka *kindAnalysis) facts(info *types.Info, cond ast.Expr, truth bool) []kindFact {
	cond = ast.Unparen(cond)
	switch x := cond.(type) {
	case *ast.Ident:
		if def, ok := ka.boolDefs[objOf(info, x)]; ok {
			return ka.facts(info, def, truth)
		}
		if f, ok := ka.okFacts[objOf(info, x)]; ok && truth {
			return []kindFact{f}
		}
	case *ast.UnaryExpr:
		if x.Op == token.NOT {
			return ka.facts(info, x.X, !truth)
		}
	case *ast.BinaryExpr:
		switch x.Op {
		case token.LAND:
			if truth {
				return append(ka.facts(info, x.X, true), ka.facts(info, x.Y, true)...)
			}
		case token.LOR:
			if !truth {
				return append(ka.facts(info, x.X, false), ka.facts(info, x.Y, false)...)
			}
		case token.EQL, token.NEQ:
			positive := (x.Op == token.EQL) == truth
			// P.Kind == ast.KindK
			for _, pair := range [][2]ast.Expr{{x.X, x.Y}, {x.Y, x.X}} {
				if s, ok := ast.Unparen(pair[0]).(*ast.SelectorExpr); ok && s.Sel.Name == "Kind" && namedOf(info.TypeOf(s.X)) == ka.typeT {
					if c, ok := ast.Unparen(pair[1]).(*ast.SelectorExpr); ok && positive {
						if k := kindOfConst[c.Sel.Name]; k != "" {
							return []kindFact{{path: s.X, kind: k}}
						}
					}
					if c, ok := ast.Unparen(pair[1]).(*ast.Ident); ok && positive {
						if k := kindOfConst[c.Name]; k != "" {
							return []kindFact{{path: s.X, kind: k}}
						}
					}
				}
				// P.K != nil
				if s, ok := ast.Unparen(pair[0]).(*ast.SelectorExpr); ok && isNilIdent(info, pair[1]) && namedOf(info.TypeOf(s.X)) == ka.typeT {
					if k := kindOfMember[s.Sel.Name]; k != "" && !positive {
						return []kindFact{{path: s.X, kind: k}}
					}
				}
				// E != nil for any pointer-typed access path
				if isNilIdent(info, pair[1]) && !positive {
					if t := info.TypeOf(pair[0]); t != nil {
						if _, isPtr := t.Underlying().(*types.Pointer); isPtr {
							return []kindFact{{path: pair[0], kind: "nonnil"}}
						}
					}
				}
			}
		}
	case *ast.CallExpr:
		if !truth {
			return nil
		}
		fn := callee(info, x)
		if fn != nil {
			if sums, ok := ka.summaries[fn.Origin()]; ok {
				var out []kindFact
				for _, sm := range sums {
					if sm.param < len(x.Args) {
						out = append(out, kindFact{path: x.Args[sm.param], kind: sm.kind, suffix: sm.sels})
					}
				}
				if len(out) > 0 {
					return out
				}
			}
		}
		sel, ok := x.Fun.(*ast.SelectorExpr)
		if fn == nil || !ok {
			return nil
		}
		if k := ka.predicates[fn.Origin()]; k != "" {
			return []kindFact{{path: sel.X, kind: k}}
		}
		if fn.Name() == "IsAnyOf" && len(x.Args) == 1 && namedOf(info.TypeOf(sel.X)) == ka.typeT {
			if c, ok := ast.Unparen(x.Args[0]).(*ast.SelectorExpr); ok {
				if k := kindOfConst[c.Sel.Name]; k != "" {
					return []kindFact{{path: sel.X, kind: k}}
				}
			}
		}
	}
	return nil
}

type kindSite struct {
	pkg  *packages.Package
	fd   *ast.FuncDecl
	fn   *types.Func
	node ast.Node
	base ast.Expr
	kind string
}

func (ka *kindAnalysis) sites(p *packages.Package, fd *ast.FuncDecl, fn *types.Func) []kindSite {
	info := p.TypesInfo
	var out []kindSite
	ast.Inspect(fd.Body, func(n ast.Node) bool {
		switch x := n.(type) {
		case *ast.CallExpr:
			sel, ok := x.Fun.(*ast.SelectorExpr)
			if !ok {
				return true
			}
			if k := kindOfAccessor[sel.Sel.Name]; k != "" && namedOf(info.TypeOf(sel.X)) == ka.typeT {
				if _, isPtr := info.TypeOf(sel.X).(*types.Pointer); !isPtr || true {
					out = append(out, kindSite{p, fd, fn, x, sel.X, k})
				}
			}
		case *ast.SelectorExpr:
			// X.<Member>.<something>: a dereference of the member pointer
			inner, ok := ast.Unparen(x.X).(*ast.SelectorExpr)
			if !ok {
				return true
			}
			if k := kindOfMember[inner.Sel.Name]; k != "" && namedOf(info.TypeOf(inner.X)) == ka.typeT {
				if f := fieldOf(info, inner); f != nil {
					if _, isPtr := f.Type().(*types.Pointer); isPtr {
						out = append(out, kindSite{p, fd, fn, x, inner.X, k})
					}
				}
			}
		case *ast.StarExpr:
			if inner, ok := ast.Unparen(x.X).(*ast.SelectorExpr); ok {
				if k := kindOfMember[inner.Sel.Name]; k != "" && namedOf(info.TypeOf(inner.X)) == ka.typeT {
					out = append(out, kindSite{p, fd, fn, x, inner.X, k})
				}
			}
		}
		return true
	})
	return out
}

// guardedLocally: a kind test on the same access path dominates the site inside its function.
func (ka *kindAnalysis) guardedLocally(info *types.Info, fd *ast.FuncDecl, parents map[ast.Node]ast.Node, node ast.Node, base ast.Expr, suffix []string, kind string) string {
	wantRoot, wantSels := flattenPath(info, base, suffix)
	samePathS := func(p ast.Expr, psuffix []string) bool {
		gotRoot, gotSels := flattenPath(info, p, psuffix)
		if len(gotSels) != len(wantSels) {
			return false
		}
		for i := range gotSels {
			if gotSels[i] != wantSels[i] {
				return false
			}
		}
		if sameAccessPath(info, gotRoot, wantRoot) {
			return true
		}
		// `for k, v := range X`: v and X[k] hold the same pointers
		rv := rangeVarsOf(info, fd)
		if len(rv) == 0 {
			return false
		}
		a, b := canonicalWithRanges(info, gotRoot, rv, 0), canonicalWithRanges(info, wantRoot, rv, 0)
		return a != "" && a == b
	}
	samePath := func(p ast.Expr) bool { return samePathS(p, nil) }
	match := func(fs []kindFact) bool {
		for _, f := range fs {
			if f.kind == kind && samePathS(f.path, f.suffix) {
				return true
			}
		}
		return false
	}
	child := node
	for p := parents[node]; p != nil; child, p = p, parents[p] {
		switch x := p.(type) {
		case *ast.BinaryExpr:
			if x.Y == child {
				if x.Op == token.LAND && match(ka.facts(info, x.X, true)) {
					return "right operand of && after " + exprString(x.X)
				}
				if x.Op == token.LOR && match(ka.facts(info, x.X, false)) {
					return "right operand of || after " + exprString(x.X)
				}
			}
		case *ast.IfStmt:
			if child == ast.Node(x.Body) && match(ka.facts(info, x.Cond, true)) {
				return "under " + exprString(x.Cond)
			}
			if x.Else != nil && child == x.Else && match(ka.facts(info, x.Cond, false)) {
				return "in the else-branch of " + exprString(x.Cond)
			}
		case *ast.CaseClause:
			sw, ok := parents[parents[ast.Node(x)]].(*ast.SwitchStmt)
			if !ok {
				break
			}
			inBody := false
			for _, st := range x.Body {
				if st == child {
					inBody = true
				}
			}
			if !inBody {
				break
			}
			if sw.Tag != nil {
				if s, ok := ast.Unparen(sw.Tag).(*ast.SelectorExpr); ok && s.Sel.Name == "Kind" && samePath(s.X) && len(x.List) > 0 {
					all := true
					for _, e := range x.List {
						name := ""
						switch c := ast.Unparen(e).(type) {
						case *ast.SelectorExpr:
							name = c.Sel.Name
						case *ast.Ident:
							name = c.Name
						}
						if kindOfConst[name] != kind {
							all = false
						}
					}
					if all {
						return "case " + exprString(x.List[0]) + " of switch " + exprString(sw.Tag)
					}
				}
			} else {
				for _, e := range x.List {
					if len(x.List) == 1 && match(ka.facts(info, e, true)) {
						return "case " + exprString(e)
					}
				}
			}
		case *ast.BlockStmt:
			// earlier statements of the block that leave unless the kind is K
			for _, st := range x.List {
				if st == child {
					break
				}
				is, ok := st.(*ast.IfStmt)
				if !ok || is.Else != nil || !endsInExitOrPanic(info, is.Body) {
					continue
				}
				if match(ka.facts(info, is.Cond, false)) {
					return "after the exit guard `if " + exprString(is.Cond) + "`"
				}
				// `if A.Kind != B.Kind { return }`: afterwards A and B have the same kind
				if be, ok := ast.Unparen(is.Cond).(*ast.BinaryExpr); ok && be.Op == token.NEQ && len(suffix) == 0 {
					sx, okx := ast.Unparen(be.X).(*ast.SelectorExpr)
					sy, oky := ast.Unparen(be.Y).(*ast.SelectorExpr)
					if okx && oky && sx.Sel.Name == "Kind" && sy.Sel.Name == "Kind" {
						var other ast.Expr
						if sameAccessPath(info, sx.X, base) {
							other = sy.X
						} else if sameAccessPath(info, sy.X, base) {
							other = sx.X
						}
						if other != nil && depthEq < 2 {
							depthEq++
							g := ka.guardedLocally(info, fd, parents, node, other, nil, kind)
							depthEq--
							if g != "" {
								return "same kind as " + exprString(other) + " (`" + exprString(is.Cond) + "` leaves), which is " + g
							}
						}
					}
				}
			}
		case *ast.ForStmt:
			if x.Cond != nil && child == ast.Node(x.Body) && match(ka.facts(info, x.Cond, true)) {
				return "in the body of `for " + exprString(x.Cond) + "`"
			}
		case *ast.FuncLit:
			// a literal stored in a Visitor's On<K> field: the visitor dispatches on the kind before calling it
			if kv, ok := parents[ast.Node(x)].(*ast.KeyValueExpr); ok {
				if key, ok := kv.Key.(*ast.Ident); ok && visitorCallbackKind[key.Name] == kind {
					if root := rootIdent(base); root != nil && sameAccessPath(info, base, root) && len(suffix) == 0 {
						for _, f := range x.Type.Params.List {
							for _, nm := range f.Names {
								if info.Defs[nm] == objOf(info, root) {
									return "parameter of the Visitor's " + key.Name + " callback"
								}
							}
						}
					}
				}
			}
			// keep climbing: guards outside the literal still hold for values it captures
		}
	}
	return ""
}

func endsInExitOrPanic(info *types.Info, b *ast.BlockStmt) bool {
	if endsInExit(b) {
		return true
	}
	if len(b.List) == 0 {
		return false
	}
	if es, ok := b.List[len(b.List)-1].(*ast.ExprStmt); ok {
		if c, ok := es.X.(*ast.CallExpr); ok {
			if id, ok := c.Fun.(*ast.Ident); ok && id.Name == "panic" {
				return true
			}
		}
	}
	return false
}

// visitor callbacks: the Visitor dispatches on the kind before calling them
var visitorCallbackKind = map[string]string{"OnStruct": "struct", "OnEnum": "enum", "OnScalar": "scalar", "OnArray": "array", "OnMap": "map", "OnRef": "ref",
	"OnDisjunction": "disjunction", "OnIntersection": "intersection", "OnComposableSlot": "composable_slot", "OnConstantRef": "constant_ref"}

func c04KindGuardedAccess(ctx *Ctx, r *Report, eng *effectsEngine) {
	ka := newKindAnalysis(ctx)
	ka.buildSummaries()
	ka.buildResultKinds()
	if len(ka.predicates) < 8 {
		r.Undecided("anchor lost: fewer than 8 kind predicates derived from internal/ast/types.go (%d)", len(ka.predicates))
		return
	}
	// functions stored in Visitor.On<K> fields
	callbackKind := map[*types.Func]string{}
	ctx.AllFuncDecls(func(p *packages.Package, fd *ast.FuncDecl, obj *types.Func) {
		if fd.Body == nil {
			return
		}
		ast.Inspect(fd.Body, func(n ast.Node) bool {
			kv, ok := n.(*ast.KeyValueExpr)
			if !ok {
				return true
			}
			key, ok := kv.Key.(*ast.Ident)
			if !ok || visitorCallbackKind[key.Name] == "" {
				return true
			}
			switch v := ast.Unparen(kv.Value).(type) {
			case *ast.SelectorExpr:
				if f, ok := p.TypesInfo.Uses[v.Sel].(*types.Func); ok {
					callbackKind[f] = visitorCallbackKind[key.Name]
				}
			case *ast.Ident:
				if f, ok := p.TypesInfo.Uses[v].(*types.Func); ok {
					callbackKind[f] = visitorCallbackKind[key.Name]
				}
			}
			return true
		})
	})
	// call sites per callee
	type callSite struct {
		p    *packages.Package
		fd   *ast.FuncDecl
		call *ast.CallExpr
	}
	callers := map[*types.Func][]callSite{}
	valueTaken := map[*types.Func]bool{}
	ctx.AllFuncDecls(func(p *packages.Package, fd *ast.FuncDecl, obj *types.Func) {
		if fd.Body == nil {
			return
		}
		calledIdents := map[*ast.Ident]bool{}
		ast.Inspect(fd.Body, func(n ast.Node) bool {
			if c, ok := n.(*ast.CallExpr); ok {
				if f := callee(p.TypesInfo, c); f != nil {
					callers[f.Origin()] = append(callers[f.Origin()], callSite{p, fd, c})
					switch fun := c.Fun.(type) {
					case *ast.SelectorExpr:
						calledIdents[fun.Sel] = true
					case *ast.Ident:
						calledIdents[fun] = true
					}
				}
			}
			return true
		})
		ast.Inspect(fd.Body, func(n ast.Node) bool {
			if id, ok := n.(*ast.Ident); ok && !calledIdents[id] {
				if f, ok := p.TypesInfo.Uses[id].(*types.Func); ok {
					valueTaken[f.Origin()] = true
				}
			}
			return true
		})
	})
	// calls made through an interface count as calls of every cog implementation of the method
	for f, sites := range callers {
		sig, ok := f.Type().(*types.Signature)
		if !ok || sig.Recv() == nil {
			continue
		}
		if _, isI := sig.Recv().Type().Underlying().(*types.Interface); !isI {
			continue
		}
		for _, impl := range eng.implementations(f) {
			callers[impl] = append(callers[impl], sites...)
		}
	}
	indexed := map[*ast.FuncDecl]bool{}
	parentsOf := map[*ast.FuncDecl]map[ast.Node]ast.Node{}
	getParents := func(fd *ast.FuncDecl) map[ast.Node]ast.Node {
		if m, ok := parentsOf[fd]; ok {
			return m
		}
		m := parentMap(fd)
		parentsOf[fd] = m
		return m
	}
	var guarded func(p *packages.Package, fd *ast.FuncDecl, fn *types.Func, node ast.Node, base ast.Expr, suffix []string, kind string, depth int) string
	guarded = func(p *packages.Package, fd *ast.FuncDecl, fn *types.Func, node ast.Node, base ast.Expr, suffix []string, kind string, depth int) string {
		info := p.TypesInfo
		parents := getParents(fd)
		// invariant: the Type of an enum member is a scalar (every producer of ast.EnumValue builds it so; checked below)
		if kind == "scalar" && len(suffix) == 0 {
			if s2, ok := ast.Unparen(base).(*ast.SelectorExpr); ok && s2.Sel.Name == "Type" {
				if t := info.TypeOf(s2.X); t != nil && strings.HasSuffix(t.String(), "ast.EnumValue") {
					return "invariant: the type of an enum member is a scalar (rule flow/enum-member-scalar)"
				}
			}
		}
		// a closure stored in a template.FuncMap: text/template recovers a panic of a template function and returns it as an error
		for q := parents[node]; q != nil; q = parents[q] {
			if fl, ok := q.(*ast.FuncLit); ok {
				if kv, ok := parents[ast.Node(fl)].(*ast.KeyValueExpr); ok {
					if cl, ok := parents[ast.Node(kv)].(*ast.CompositeLit); ok {
						if t := info.TypeOf(cl); t != nil && strings.HasSuffix(t.String(), "template.FuncMap") {
							if root := rootIdent(base); root != nil {
								for _, f := range fl.Type.Params.List {
									for _, nm := range f.Names {
										if info.Defs[nm] == objOf(info, root) {
											return "argument of a template function: a panic there is recovered by text/template and returned as an error (assumption of C04)"
										}
									}
								}
							}
						}
					}
				}
			}
		}
		if !indexed[fd] {
			indexed[fd] = true
			ka.indexBoolDefs(info, fd)
		}
		if g := ka.guardedLocally(info, fd, parents, node, base, suffix, kind); g != "" {
			return g
		}
		// a copy has the kind of what it copies
		if c, ok := ast.Unparen(base).(*ast.CallExpr); ok && len(c.Args) == 0 {
			if sel, ok := c.Fun.(*ast.SelectorExpr); ok && sel.Sel.Name == "DeepCopy" && namedOf(info.TypeOf(sel.X)) == ka.typeT && depth < 3 {
				if g := guarded(p, fd, fn, node, sel.X, suffix, kind, depth+1); g != "" {
					return "copy of " + exprString(sel.X) + ", " + g
				}
			}
			// RefType.AsType() wraps a reference into a Type of kind ref
			if sel, ok := c.Fun.(*ast.SelectorExpr); ok && sel.Sel.Name == "AsType" && kind == "ref" && len(suffix) == 0 {
				if t := info.TypeOf(sel.X); t != nil && strings.HasSuffix(strings.TrimPrefix(t.String(), "*"), "ast.RefType") {
					return "built by RefType.AsType()"
				}
			}
		}
		// the value is built on the spot by a constructor of that kind: ast.NewRef(pkg, name).AsRef()
		if c, ok := ast.Unparen(base).(*ast.CallExpr); ok && len(suffix) == 0 {
			if f := callee(info, c); f != nil && f.Pkg() != nil && f.Pkg().Path() == astPkgPath && ctorKind[f.Name()] == kind {
				return "built by " + exprString(c.Fun) + "(…)"
			}
		}
		root := rootIdent(base)
		if root == nil {
			return ""
		}
		ro := objOf(info, root)
		// a local bound to a constructor of that kind, or to an accessor-free alias of a guarded path
		if id, ok := ast.Unparen(base).(*ast.Ident); ok && ro != nil && len(suffix) == 0 {
			var def ast.Expr
			var defStmt ast.Node
			ast.Inspect(fd.Body, func(n ast.Node) bool {
				if as, ok := n.(*ast.AssignStmt); ok && len(as.Lhs) == len(as.Rhs) {
					for i, l := range as.Lhs {
						if lid, ok := l.(*ast.Ident); ok && objOf(info, lid) == ro && as.Pos() < node.Pos() {
							def, defStmt = as.Rhs[i], as
						}
					}
				}
				return true
			})
			_ = id
			if c, ok := ast.Unparen(def).(*ast.CallExpr); ok {
				if f := callee(info, c); f != nil && f.Pkg() != nil && f.Pkg().Path() == astPkgPath {
					if ctorKind[f.Name()] == kind {
						return "bound to " + exprString(c.Fun) + "(…)"
					}
				}
			}
			// alias of another path that is guarded where the alias is made: `t := field.Type` under field.Type.IsStruct()
			if c, ok := ast.Unparen(def).(*ast.CallExpr); ok && depth < 3 {
				if sel, ok := c.Fun.(*ast.SelectorExpr); ok && sel.Sel.Name == "DeepCopy" && namedOf(info.TypeOf(sel.X)) == ka.typeT {
					if g := guarded(p, fd, fn, defStmt, sel.X, nil, kind, depth+1); g != "" {
						return "copy of " + exprString(sel.X) + ", " + g
					}
				}
			}
			if def != nil && isAccessPath(def) && namedOf(info.TypeOf(def)) == ka.typeT && depth < 3 {
				if g := guarded(p, fd, fn, defStmt, def, nil, kind, depth+1); g != "" {
					return "alias of " + exprString(def) + ", " + g
				}
			}
		}
		// parameter (possibly followed by field selections): decided at the call sites
		var sels []string
		pure := true
		for e := ast.Unparen(base); ; {
			if s2, ok := e.(*ast.SelectorExpr); ok {
				if fieldOf(info, s2) == nil {
					pure = false
					break
				}
				sels = append([]string{s2.Sel.Name}, sels...)
				e = ast.Unparen(s2.X)
				continue
			}
			if _, ok := e.(*ast.Ident); !ok {
				pure = false
			}
			break
		}
		if ro != nil && isParamOf(info, fd, ro) && pure {
			if callbackKind[fn] == kind && len(sels) == 0 && len(suffix) == 0 {
				return "parameter of a Visitor callback for that kind"
			}
			// every call site passes a value guarded for that kind
			if depth < 5 && !valueTaken[fn] && len(callers[fn]) > 0 {
				idx := -1
				k := 0
				for _, f := range fd.Type.Params.List {
					for _, nm := range f.Names {
						if info.Defs[nm] == ro {
							idx = k
						}
						k++
					}
				}
				if idx >= 0 {
					all := true
					for _, cs := range callers[fn] {
						if idx >= len(cs.call.Args) {
							all = false
							break
						}
						cfn, _ := cs.p.TypesInfo.Defs[cs.fd.Name].(*types.Func)
						arg := cs.call.Args[idx]
						// `f(x.AsK())`-style arguments are sites of their own; the parameter then is of the sub-type, not Type
						if guarded(cs.p, cs.fd, cfn, cs.call, arg, append(append([]string{}, sels...), suffix...), kind, depth+1) == "" {
							all = false
							break
						}
					}
					if all {
						return fmt.Sprintf("parameter: each of the %d call sites passes a value tested for that kind", len(callers[fn]))
					}
				}
			}
		}
		return ""
	}
	total, unguarded := 0, 0
	perFunc := map[string]int{}
	ctx.AllFuncDecls(func(p *packages.Package, fd *ast.FuncDecl, obj *types.Func) {
		if fd.Body == nil || p.PkgPath == astPkgPath && fd.Recv != nil && kindOfAccessor[fd.Name.Name] != "" {
			return
		}
		for _, s := range ka.sites(p, fd, obj) {
			total++
			g := guarded(p, fd, obj, s.node, s.base, nil, s.kind, 0)
			cons := fmt.Sprintf("%s %s as %s", ctx.FuncName(obj), exprString(s.base), s.kind)
			perFunc[cons]++
			if perFunc[cons] > 1 {
				cons = fmt.Sprintf("%s #%d", cons, perFunc[cons])
			}
			if g == "" {
				if why, ok := c04KindAccessTable[cons]; ok {
					g = "reviewed: " + why
				}
			}
			if g == "" {
				unguarded++
			}
			r.Check(g != "", "flow/kind-guarded-access", cons, s.node.Pos(), g,
				fmt.Sprintf("%s dereferences the %s member of %s without a dominating test that its kind is %s: for any other kind the member is nil and cog panics", ctx.FuncName(obj), s.kind, exprString(s.base), s.kind))
		}
	})
	r.Count("accesses to kind-specific members of ast.Type", total)
	r.Floor("accesses to kind-specific members of ast.Type", 400)
	_ = sort.Strings
	_ = strings.Contains
}

var ctorKind = map[string]string{"NewStruct": "struct", "NewRef": "ref", "NewArray": "array", "NewMap": "map", "NewEnum": "enum", "NewDisjunction": "disjunction",
	"NewIntersection": "intersection", "NewScalar": "scalar", "String": "scalar", "Bool": "scalar", "Any": "scalar", "Null": "scalar", "Bytes": "scalar", "NewComposableSlot": "composable_slot", "NewConstantReferenceType": "constant_ref"}

var depthEq int

var c04KindAccessTable = map[string]string{
	"internal/ast.BuilderGenerator.structObjectToBuilder schemas.ResolveToType(object.Type) as struct": "its only caller, FromAST, leaves unless schemas.ResolveToType(object.Type).IsStruct() — the same pure call on the same object",
	"internal/ast.BuilderGenerator.structObjectToBuilder resolvedType as scalar":                       "under generator.fieldIsRefToConcrete(schemas, field), which returns schemas.ResolveToType(field.Type).IsConcreteScalar(): the same pure call",
	"internal/veneers/option.disjunctionAsOptions option.Args[argIndex].Type as disjunction":           "its only caller tests targetArgType.IsDisjunction() where targetArgType := option.Args[argumentIndex].Type, the same element of the same option",
	"internal/ast/compiler.DisjunctionInferMapping.inferDiscriminatorField branch as ref":              "processDisjunction leaves unless the union is not empty and Branches.HasOnlyRefs(): every branch is a reference",
	"internal/ast/compiler.DisjunctionInferMapping.inferDiscriminatorField def.Branches[0] as ref":     "same guard in processDisjunction (non-empty, only references)",
	"internal/ast/compiler.DisjunctionInferMapping.buildDiscriminatorMapping branch as ref":            "same guard in processDisjunction (non-empty, only references)",
	"internal/ast/compiler.DisjunctionInferMapping.buildDiscriminatorMapping branch as ref #2":         "same guard in processDisjunction (non-empty, only references)",
	"internal/ast/compiler.DisjunctionInferMapping.buildDiscriminatorMapping branch as ref #3":         "same guard in processDisjunction (non-empty, only references)",
	"internal/ast/compiler.DisjunctionToType.processDisjunction resolvedType as scalar":                "under pass.hasOnlySingleTypeScalars(schema, disjunction), which resolves the same first branch with the same schema and returns false unless the result is a scalar",
	"internal/ast/compiler.RemoveIntersections.processObject object.Type as ref":                       "OnObject is only reached through v.VisitObject, which processSchema calls under value.Type.IsRef() (the default traversal is replaced by OnSchema)",
	"internal/ast/compiler.RemoveIntersections.processStruct obj.Type as array":                        "obj comes from r.arraysToFix, filled by processObject under locatedObject.Type.IsArray()",
	"internal/jennies/python.typeFormatter.formatConstantReference t as scalar":                        "t is the Type of an enum member (invariant flow/enum-member-scalar)",
	"internal/jennies/java.typeFormatter.formatReference object.Type as array":                         "inside `case ast.KindMap, ast.KindArray`, after `if object.Type.IsMap() { return … }`: the remaining kind is array",
	"internal/jennies/java.typeFormatter.formatAssignmentPath fieldPath[i].TypeHint as ref":            "PathItem.TypeHint is only ever assigned RefType.AsType() or Schema.EntryPointType (a reference by construction) in veneers/builder/rules.go, and copied by DeepCopy",
	"internal/jennies/python.RawTypes.disjunctionFromJSON context.ResolveRefs(typeDef) as disjunction": "its only caller passes typeDef under typeDef.IsDisjunction(); ResolveRefs returns a non-reference unchanged",
	"internal/jennies/python.RawTypes.composableSlotFromJSON slot as composable_slot":                  "its only caller runs under `_, ok := context.ResolveToComposableSlot(field.Type); ok`, the same pure call whose first result is a slot when ok",
	"internal/jennies/php.RawTypes.generateConstants object.Type as scalar":                            "the objects handed over are schema.Objects.Filter(object.Type.IsConcreteScalar())",
	"internal/jennies/php.RawTypes.unmarshalComposableSlot slotType as composable_slot":                "its only caller runs under `_, ok := context.ResolveToComposableSlot(def); ok`, the same pure call",
	"internal/jennies/golang.typeFormatter.formatRef def as ref":                                       "call sites: doFormatType under def.IsRef(); two ast.NewRef(…) literals; a DeepCopy of field.Type under field.Type.IsRef(); the elements of `refs`, appended under b.IsRef()",
	"internal/jennies/golang.typeFormatter.formatRef def as ref #2":                                    "same call sites as the previous entry",
}

// c04EnumMemberScalar: every producer of ast.EnumValue gives it a scalar Type (invariant used by flow/kind-guarded-access).
func c04EnumMemberScalar(ctx *Ctx, r *Report) {
	scalarCtor := map[string]bool{"NewScalar": true, "String": true, "Bool": true, "Any": true, "Null": true, "Bytes": true}
	n := 0
	ctx.AllFuncDecls(func(p *packages.Package, fd *ast.FuncDecl, obj *types.Func) {
		if fd.Body == nil {
			return
		}
		info := p.TypesInfo
		defs := map[types.Object][]ast.Expr{}
		ast.Inspect(fd.Body, func(m ast.Node) bool {
			if as, ok := m.(*ast.AssignStmt); ok && len(as.Lhs) == len(as.Rhs) {
				for i, l := range as.Lhs {
					if id, ok := l.(*ast.Ident); ok && objOf(info, id) != nil {
						defs[objOf(info, id)] = append(defs[objOf(info, id)], as.Rhs[i])
					}
				}
			}
			// `enumType, err := helper(…)`
			if as, ok := m.(*ast.AssignStmt); ok && len(as.Lhs) == 2 && len(as.Rhs) == 1 {
				if id, ok := as.Lhs[0].(*ast.Ident); ok && objOf(info, id) != nil {
					defs[objOf(info, id)] = append(defs[objOf(info, id)], as.Rhs[0])
				}
			}
			return true
		})
		var isScalar func(e ast.Expr, depth int) bool
		isScalar = func(e ast.Expr, depth int) bool {
			e = ast.Unparen(e)
			switch x := e.(type) {
			case *ast.CallExpr:
				if f := callee(info, x); f != nil && f.Pkg() != nil && f.Pkg().Path() == astPkgPath && scalarCtor[f.Name()] {
					return true
				}
				// a copy of a member's type
				if sel, ok := x.Fun.(*ast.SelectorExpr); ok && sel.Sel.Name == "DeepCopy" {
					return isScalar(sel.X, depth)
				}
				// helper of the same package returning a scalar: getEnumType(...)
				if f := callee(info, x); f != nil && depth < 2 {
					if hd, hp := ctx.DeclOf(f); hd != nil && hd.Body != nil {
						all, any := true, false
						ast.Inspect(hd.Body, func(k ast.Node) bool {
							if rs, ok := k.(*ast.ReturnStmt); ok && len(rs.Results) > 0 {
								if t := hp.TypesInfo.TypeOf(rs.Results[0]); t != nil && strings.HasSuffix(t.String(), "ast.Type") {
									any = true
									ok2 := false
									if c2, ok := ast.Unparen(rs.Results[0]).(*ast.CallExpr); ok {
										if f2 := callee(hp.TypesInfo, c2); f2 != nil && f2.Pkg() != nil && f2.Pkg().Path() == astPkgPath && scalarCtor[f2.Name()] {
											ok2 = true
										}
									}
									if cl, ok := ast.Unparen(rs.Results[0]).(*ast.CompositeLit); ok && len(cl.Elts) == 0 {
										ok2 = true // ast.Type{} next to an error
									}
									if !ok2 {
										all = false
									}
								}
							}
							return true
						})
						return all && any
					}
				}
			case *ast.SelectorExpr:
				if x.Sel.Name == "Type" {
					if t := info.TypeOf(x.X); t != nil && strings.HasSuffix(t.String(), "ast.EnumValue") {
						return true
					}
				}
			case *ast.Ident:
				if ds, ok := defs[objOf(info, x)]; ok && depth < 3 {
					for _, d := range ds {
						if !isScalar(d, depth+1) {
							return false
						}
					}
					return true
				}
			}
			return false
		}
		k := 0
		ast.Inspect(fd.Body, func(m ast.Node) bool {
			cl, ok := m.(*ast.CompositeLit)
			if !ok {
				return true
			}
			if t := info.TypeOf(cl); t == nil || !strings.HasSuffix(t.String(), "ast.EnumValue") {
				return true
			}
			for _, el := range cl.Elts {
				kv, ok := el.(*ast.KeyValueExpr)
				if !ok || exprString(kv.Key) != "Type" {
					continue
				}
				n++
				k++
				r.Check(isScalar(kv.Value, 0), "flow/enum-member-scalar", fmt.Sprintf("%s enum member #%d", ctx.FuncName(obj), k), kv.Pos(), "the member's Type is built by a scalar constructor (or copied from another member)",
					fmt.Sprintf("%s builds an enum member whose Type (%s) is not visibly a scalar: MemberForValue, the enum passes and every enum formatter dereference `member.Type.Scalar` without a test", ctx.FuncName(obj), exprString(kv.Value)))
			}
			return true
		})
	})
	r.Count("enum members built by cog", n)
	r.Floor("enum members built by cog", 5)
}

// ---------------------------------------------------------------------------
// nil-guarded pointer members of the IR (Option.Default, PathItem.Index / TypeHint, AssignmentValue.Argument /
// Envelope, PathIndex.Argument, factory arguments): a selection through one of them is dominated by a non-nil test.

var c04NilTable = map[string]string{
	"internal/ast.WithTypeConstraints assignment.Value.Argument":                           "the option is only handed to ArgumentAssignment (FieldAssignment), which sets Value.Argument before applying its options",
	"internal/veneers/option.RenameArgumentsAction newOpt.Assignments[j].Value.Argument":   "under `assignment.Value.Argument != nil` where assignment is the range copy of newOpt.Assignments[j]: the same pointer",
	"internal/languages.ConverterGenerator.argumentsForEnvelope assignment.Value.Envelope": "its only caller runs under `assignment.Value.Envelope != nil`",
	"internal/jennies/typescript.Builder.formatFieldPath chunk.Index.Argument":             "PathIndex carries a constant or an argument: the else-branch of `Index.Constant != nil`; indexes are built by MapToIndexAction (argument) or parsed from a configured path (constant)",
	"internal/jennies/php.formatFieldPath chunk.Index.Argument":                            "PathIndex carries a constant or an argument (as for typescript)",
	"internal/jennies/java.typeFormatter.formatPathIndex pathIndex.Argument":               "PathIndex carries a constant or an argument (as for typescript)",
	"internal/jennies/python.formatFieldPath chunk.Index.Argument":                         "PathIndex carries a constant or an argument (as for typescript)",
	"internal/jennies/golang.makePathFormatter fieldPath[i].Index.Argument":                "PathIndex carries a constant or an argument (as for typescript)",
}

func c04NilGuardedMembers(ctx *Ctx, r *Report, eng *effectsEngine) {
	ka := newKindAnalysis(ctx)
	ka.buildSummaries()
	ka.buildResultKinds()
	total := 0
	perFunc := map[string]int{}
	ctx.AllFuncDecls(func(p *packages.Package, fd *ast.FuncDecl, obj *types.Func) {
		if fd.Body == nil || strings.Contains(p.PkgPath, "/cmd/") {
			return
		}
		info := p.TypesInfo
		parents := parentMap(fd)
		ka.indexBoolDefs(info, fd)
		isIRPointerField := func(e ast.Expr) bool {
			sel, ok := ast.Unparen(e).(*ast.SelectorExpr)
			if !ok {
				return false
			}
			f := fieldOf(info, sel)
			if f == nil || f.Pkg() == nil || f.Pkg().Path() != astPkgPath {
				return false
			}
			if _, isPtr := f.Type().(*types.Pointer); !isPtr {
				return false
			}
			// the kind members of ast.Type are the kind analysis' business
			if namedOf(info.TypeOf(sel.X)) == ka.typeT && kindOfMember[sel.Sel.Name] != "" {
				return false
			}
			return true
		}
		var sites []struct {
			node ast.Node
			base ast.Expr
		}
		ast.Inspect(fd.Body, func(n ast.Node) bool {
			switch x := n.(type) {
			case *ast.SelectorExpr:
				if isIRPointerField(x.X) {
					// method calls on a nil pointer are legal when the method has a pointer receiver; field selections are not
					if fieldOf(info, x) != nil {
						sites = append(sites, struct {
							node ast.Node
							base ast.Expr
						}{x, x.X})
					} else if fn, ok := info.Uses[x.Sel].(*types.Func); ok {
						if sig := fn.Type().(*types.Signature); sig.Recv() != nil {
							if _, ptrRecv := sig.Recv().Type().(*types.Pointer); !ptrRecv {
								sites = append(sites, struct {
									node ast.Node
									base ast.Expr
								}{x, x.X})
							}
						}
					}
				}
			case *ast.StarExpr:
				if isIRPointerField(x.X) {
					sites = append(sites, struct {
						node ast.Node
						base ast.Expr
					}{x, x.X})
				}
			}
			return true
		})
		for _, s := range sites {
			total++
			g := ka.guardedLocally(info, fd, parents, s.node, s.base, nil, "nonnil")
			// assigned just before in the same function: `opt.Default = &ast.OptionDefault{}`
			if g == "" {
				ast.Inspect(fd.Body, func(n ast.Node) bool {
					as, ok := n.(*ast.AssignStmt)
					if !ok || as.Pos() > s.node.Pos() {
						return true
					}
					for i, l := range as.Lhs {
						if sameAccessPath(info, l, s.base) && i < len(as.Rhs) {
							if u, ok := ast.Unparen(as.Rhs[i]).(*ast.UnaryExpr); ok && u.Op == token.AND {
								g = "assigned the address of a value earlier in the function"
							}
						}
					}
					return true
				})
			}
			cons := fmt.Sprintf("%s %s", ctx.FuncName(obj), exprString(s.base))
			perFunc[cons]++
			if perFunc[cons] > 1 {
				cons = fmt.Sprintf("%s #%d", cons, perFunc[cons])
			}
			if g == "" {
				if why, ok := c04NilTable[cons]; ok {
					g = "reviewed: " + why
				}
			}
			r.Check(g != "", "flow/nil-guarded-member", cons, s.node.Pos(), g,
				fmt.Sprintf("%s selects through the pointer member %s without a dominating non-nil test: when it is not set cog dereferences nil", ctx.FuncName(obj), exprString(s.base)))
		}
	})
	r.Count("selections through pointer members of the IR", total)
}

type rangeVar struct {
	x   ast.Expr
	key string
}

// rangeVarsOf: value variables of the range statements of fd that have a named key: v ↦ (X, k).
func rangeVarsOf(info *types.Info, fd *ast.FuncDecl) map[types.Object]rangeVar {
	out := map[types.Object]rangeVar{}
	if fd == nil || fd.Body == nil {
		return out
	}
	ast.Inspect(fd.Body, func(n ast.Node) bool {
		rs, ok := n.(*ast.RangeStmt)
		if !ok || rs.Tok != token.DEFINE {
			return true
		}
		k, ok1 := rs.Key.(*ast.Ident)
		v, ok2 := rs.Value.(*ast.Ident)
		if ok1 && ok2 && k.Name != "_" && v.Name != "_" {
			out[info.Defs[v]] = rangeVar{rs.X, k.Name}
		}
		return true
	})
	return out
}

// canonicalWithRanges prints an access path with range value variables replaced by the element they denote.
func canonicalWithRanges(info *types.Info, e ast.Expr, rv map[types.Object]rangeVar, depth int) string {
	if depth > 6 {
		return ""
	}
	switch x := ast.Unparen(e).(type) {
	case *ast.Ident:
		if r, ok := rv[objOf(info, x)]; ok {
			base := canonicalWithRanges(info, r.x, rv, depth+1)
			if base == "" {
				return ""
			}
			return base + "[" + r.key + "]"
		}
		return x.Name
	case *ast.SelectorExpr:
		base := canonicalWithRanges(info, x.X, rv, depth+1)
		if base == "" {
			return ""
		}
		return base + "." + x.Sel.Name
	case *ast.IndexExpr:
		base := canonicalWithRanges(info, x.X, rv, depth+1)
		if base == "" {
			return ""
		}
		return base + "[" + exprString(x.Index) + "]"
	}
	return ""
}
