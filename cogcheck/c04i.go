package main

// C04, clause 11: constant indexes into slices and strings (`x.Args[0]`, `parts[1]`, `input[0]`) are dominated by a
// test that the indexed value is long enough.

import (
	"fmt"
	"go/ast"
	"go/constant"
	"go/token"
	"go/types"
	"strings"

	"golang.org/x/tools/go/packages"
)

type lenFact struct {
	path   ast.Expr
	suffix []string
	min    int64
}

type lenAnalysis struct {
	ctx      *Ctx
	boolDefs map[types.Object]ast.Expr
}

func constInt(info *types.Info, e ast.Expr) (int64, bool) {
	if tv, ok := info.Types[e]; ok && tv.Value != nil && tv.Value.Kind() == constant.Int {
		if v, ok := constant.Int64Val(tv.Value); ok {
			return v, true
		}
	}
	return 0, false
}

// lenOperand: `len(P)` → P
func lenOperand(info *types.Info, e ast.Expr) ast.Expr {
	c, ok := ast.Unparen(e).(*ast.CallExpr)
	if !ok || len(c.Args) != 1 {
		return nil
	}
	if id, ok := c.Fun.(*ast.Ident); ok && id.Name == "len" {
		if _, isBuiltin := info.Uses[id].(*types.Builtin); isBuiltin {
			return c.Args[0]
		}
	}
	// orderedmap / custom Len() methods are not slices
	return nil
}

func (la *lenAnalysis) facts(info *types.Info, cond ast.Expr, truth bool) []lenFact {
	cond = ast.Unparen(cond)
	switch x := cond.(type) {
	case *ast.Ident:
		if def, ok := la.boolDefs[objOf(info, x)]; ok {
			return la.facts(info, def, truth)
		}
	case *ast.UnaryExpr:
		if x.Op == token.NOT {
			return la.facts(info, x.X, !truth)
		}
	case *ast.CallExpr:
		// strings.HasPrefix(P, "lit") ⇒ len(P) ≥ len(lit)
		if fn := callee(info, x); fn != nil && truth && (fn.FullName() == "strings.HasPrefix" || fn.FullName() == "strings.HasSuffix") && len(x.Args) == 2 {
			if tv, ok := info.Types[x.Args[1]]; ok && tv.Value != nil && tv.Value.Kind() == constant.String {
				return []lenFact{{path: x.Args[0], min: int64(len(constant.StringVal(tv.Value)))}}
			}
		}
	case *ast.BinaryExpr:
		switch x.Op {
		case token.LAND:
			if truth {
				return append(la.facts(info, x.X, true), la.facts(info, x.Y, true)...)
			}
			return nil
		case token.LOR:
			if !truth {
				return append(la.facts(info, x.X, false), la.facts(info, x.Y, false)...)
			}
			return nil
		}
		// normalise to len(P) <op> n
		var p ast.Expr
		var n int64
		op := x.Op
		if lp := lenOperand(info, x.X); lp != nil {
			if v, ok := constInt(info, x.Y); ok {
				p, n = lp, v
			}
		} else if lp := lenOperand(info, x.Y); lp != nil {
			if v, ok := constInt(info, x.X); ok {
				p, n = lp, v
				// n <op> len(P)  ⇒  len(P) <flipped op> n
				switch op {
				case token.LSS:
					op = token.GTR
				case token.LEQ:
					op = token.GEQ
				case token.GTR:
					op = token.LSS
				case token.GEQ:
					op = token.LEQ
				}
			}
		}
		if p == nil {
			// P != "" / P == ""
			for _, pair := range [][2]ast.Expr{{x.X, x.Y}, {x.Y, x.X}} {
				if tv, ok := info.Types[pair[1]]; ok && tv.Value != nil && tv.Value.Kind() == constant.String && constant.StringVal(tv.Value) == "" {
					if (x.Op == token.NEQ) == truth && (x.Op == token.NEQ || x.Op == token.EQL) {
						return []lenFact{{path: pair[0], min: 1}}
					}
				}
			}
			return nil
		}
		if !truth {
			switch op {
			case token.EQL:
				op = token.NEQ
			case token.NEQ:
				op = token.EQL
			case token.LSS:
				op = token.GEQ
			case token.LEQ:
				op = token.GTR
			case token.GTR:
				op = token.LEQ
			case token.GEQ:
				op = token.LSS
			}
		}
		switch op {
		case token.EQL:
			return []lenFact{{path: p, min: n}}
		case token.NEQ:
			if n == 0 {
				return []lenFact{{path: p, min: 1}}
			}
		case token.GTR:
			return []lenFact{{path: p, min: n + 1}}
		case token.GEQ:
			return []lenFact{{path: p, min: n}}
		}
	}
	return nil
}

func (la *lenAnalysis) guardedLocally(info *types.Info, fd *ast.FuncDecl, parents map[ast.Node]ast.Node, node ast.Node, base ast.Expr, suffix []string, need int64) string {
	wantRoot, wantSels := flattenPath(info, base, suffix)
	match := func(fs []lenFact) bool {
		for _, f := range fs {
			if f.min < need {
				continue
			}
			gotRoot, gotSels := flattenPath(info, f.path, f.suffix)
			if len(gotSels) != len(wantSels) {
				continue
			}
			same := true
			for i := range gotSels {
				if gotSels[i] != wantSels[i] {
					same = false
				}
			}
			if same && sameAccessPath(info, gotRoot, wantRoot) {
				return true
			}
		}
		return false
	}
	child := node
	for p := parents[node]; p != nil; child, p = p, parents[p] {
		switch x := p.(type) {
		case *ast.BinaryExpr:
			if x.Y == child {
				if x.Op == token.LAND && match(la.facts(info, x.X, true)) {
					return "right operand of && after " + exprString(x.X)
				}
				if x.Op == token.LOR && match(la.facts(info, x.X, false)) {
					return "right operand of || after " + exprString(x.X)
				}
			}
		case *ast.IfStmt:
			if child == ast.Node(x.Body) && match(la.facts(info, x.Cond, true)) {
				return "under " + exprString(x.Cond)
			}
			if x.Else != nil && child == x.Else && match(la.facts(info, x.Cond, false)) {
				return "in the else-branch of " + exprString(x.Cond)
			}
		case *ast.ForStmt:
			if x.Cond != nil && child == ast.Node(x.Body) && match(la.facts(info, x.Cond, true)) {
				return "in the body of `for " + exprString(x.Cond) + "`"
			}
		case *ast.CaseClause:
			sw, ok := parents[parents[ast.Node(x)]].(*ast.SwitchStmt)
			if !ok {
				break
			}
			inBody := false
			for _, st := range x.Body {
				if st == child {
					inBody = true
				}
			}
			if !inBody {
				break
			}
			if sw.Tag != nil {
				// switch len(P) { case n: … }
				if lp := lenOperand(info, sw.Tag); lp != nil && len(x.List) > 0 {
					min := int64(1 << 40)
					for _, e := range x.List {
						if v, ok := constInt(info, e); ok && v < min {
							min = v
						}
					}
					if min != 1<<40 && match([]lenFact{{path: lp, min: min}}) {
						return "case of switch " + exprString(sw.Tag)
					}
				}
			} else if len(x.List) == 1 && match(la.facts(info, x.List[0], true)) {
				return "case " + exprString(x.List[0])
			}
		case *ast.BlockStmt:
			for _, st := range x.List {
				if st == child {
					break
				}
				is, ok := st.(*ast.IfStmt)
				if !ok || is.Else != nil {
					continue
				}
				if !endsInExitOrPanic(info, is.Body) {
					// `if len(P) == 0 { …; P made non-empty }`: both ways out of the statement have an element
					if be, ok := ast.Unparen(is.Cond).(*ast.BinaryExpr); ok && be.Op == token.EQL {
						if lp := lenOperand(info, be.X); lp != nil {
							if v, ok := constInt(info, be.Y); ok && v == 0 && repairsEmptiness(info, is.Body, lp) && match([]lenFact{{path: lp, min: 1}}) {
								return "after `if " + exprString(is.Cond) + "`, whose body makes the list non-empty"
							}
						}
					}
					continue
				}
				if match(la.facts(info, is.Cond, false)) {
					return "after the exit guard `if " + exprString(is.Cond) + "`"
				}
			}
		}
	}
	return ""
}

var c04IndexTable = map[string]string{
	"internal/ast.Schemas.Consolidate groupedSchemas[0]":                                              "groups are created by appending a schema: never empty",
	"internal/openapi.getConstraints schema.Type.Slice()[0]":                                          "getConstraints is only called by walkString / walkNumber / walkInteger, which walkDefinitions reaches through schema.Type.Is(<type>): the type list is not empty",
	"internal/openapi.getConstraints schema.Type.Slice()[0] #2":                                       "getConstraints is only called by walkString / walkNumber / walkInteger, which walkDefinitions reaches through schema.Type.Is(<type>): the type list is not empty",
	"internal/openapi.getConstraints schema.Type.Slice()[0] #3":                                       "getConstraints is only called by walkString / walkNumber / walkInteger, which walkDefinitions reaches through schema.Type.Is(<type>): the type list is not empty",
	"internal/jennies/template.Template.builtins given[0]":                                            "`empty(given)` (reflect-based: nil or zero length) is tested first in the same condition / returns before",
	"internal/jennies/template.Template.builtins given[0] #2":                                         "`empty(given)` (reflect-based: nil or zero length) is tested first in the same condition / returns before",
	"internal/openapi.generator.getRefName group[3]":                                                  "FindStringSubmatch returns nil or one entry per group + 1 (the pattern has four groups); nil is handled just above",
	"internal/simplecue.generator.declareStringConstraints args[0]":                                   "op == cue.CallOp: the CUE API returns the callee followed by the call's arguments; strings.MinRunes / MaxRunes take one argument and CUE rejects a call without it when the schema is loaded",
	"internal/simplecue.generator.declareStringConstraints args[1]":                                   "op == cue.CallOp: the CUE API returns the callee followed by the call's arguments; strings.MinRunes / MaxRunes take one argument and CUE rejects a call without it when the schema is loaded",
	"internal/simplecue.generator.declareStringConstraints args[1] #2":                                "op == cue.CallOp: the CUE API returns the callee followed by the call's arguments; strings.MinRunes / MaxRunes take one argument and CUE rejects a call without it when the schema is loaded",
	"internal/simplecue.generator.declareNumberConstraints dvals[0]":                                  "Value.Expr() on a value that has a default returns the disjunction's operands: at least one",
	"internal/simplecue.generator.declareNumberConstraints input[0]":                                  "the closure is only called with a part whose first byte was just tested (`part[0] != '<' && part[0] != '>'` \u2192 continue)",
	"internal/simplecue.generator.declareNumberConstraints input[1]":                                  "a bound printed by cue/format is an operator followed by its operand: at least two bytes",
	"internal/simplecue.generator.declareNumberConstraints input[0] #2":                               "the closure is only called with a part whose first byte was just tested (`part[0] != '<' && part[0] != '>'` \u2192 continue)",
	"internal/simplecue.generator.declareNumberConstraints input[1] #2":                               "a bound printed by cue/format is an operator followed by its operand: at least two bytes",
	"internal/simplecue.generator.declareNumberConstraints input[0] #3":                               "the closure is only called with a part whose first byte was just tested (`part[0] != '<' && part[0] != '>'` \u2192 continue)",
	"internal/simplecue.generator.declareNumberConstraints input[1] #3":                               "a bound printed by cue/format is an operator followed by its operand: at least two bytes",
	"internal/simplecue.generator.declareNumberConstraints input[0] #4":                               "the closure is only called with a part whose first byte was just tested (`part[0] != '<' && part[0] != '>'` \u2192 continue)",
	"internal/simplecue.generator.declareNumberConstraints input[1] #4":                               "a bound printed by cue/format is an operator followed by its operand: at least two bytes",
	"internal/simplecue.generator.declareNumberConstraints part[0]":                                   "parts come from strings.Split of the formatted expression on \" & \": cue/format prints no empty operand",
	"internal/simplecue.generator.declareNumberConstraints part[0] #2":                                "parts come from strings.Split of the formatted expression on \" & \": cue/format prints no empty operand",
	"internal/simplecue.generator.declareNumberConstraints part[0] #3":                                "parts come from strings.Split of the formatted expression on \" & \": cue/format prints no empty operand",
	"internal/simplecue.generator.declareList dvals[0]":                                               "Value.Expr() on a value that has a default returns the disjunction's operands: at least one",
	"internal/simplecue.generator.stringOrIntegerFromEnum conjuncts[0]":                               "appendSplit returns at least the value itself, and the function leaves when len(conjuncts) == 1: two or more conjuncts",
	"internal/simplecue.generator.stringOrIntegerFromEnum conjuncts[1] #2":                            "appendSplit returns at least the value itself, and the function leaves when len(conjuncts) == 1: two or more conjuncts",
	"internal/simplecue.generator.stringOrIntegerFromEnum conjuncts[0] #2":                            "appendSplit returns at least the value itself, and the function leaves when len(conjuncts) == 1: two or more conjuncts",
	"internal/simplecue.generator.stringOrIntegerFromEnum conjuncts[0] #3":                            "appendSplit returns at least the value itself, and the function leaves when len(conjuncts) == 1: two or more conjuncts",
	"internal/simplecue.generator.stringOrIntegerFromEnum conjuncts[0] #4":                            "appendSplit returns at least the value itself, and the function leaves when len(conjuncts) == 1: two or more conjuncts",
	"internal/simplecue.generator.stringOrIntegerFromEnum conjuncts[0] #5":                            "appendSplit returns at least the value itself, and the function leaves when len(conjuncts) == 1: two or more conjuncts",
	"internal/ast.BuilderGenerator.constrainedFieldToOption option.Assignments[0]":                    "option is what structFieldToOption returned one statement earlier: an Option literal whose Assignments is the one-element literal []Assignment{FieldAssignment(field)}",
	"internal/veneers/option.StructFieldsAsOptionsAction newOpt.Assignments[0]":                       "newOpt is built by structFieldToOption-like code just above with exactly one assignment",
	"internal/veneers/option.StructFieldsAsOptionsAction newOpt.Assignments[0] #2":                    "newOpt is built by structFieldToOption-like code just above with exactly one assignment",
	"internal/veneers/builder.composeBuilderForType composableBuilders[0]":                            "the lists of composableBuilders are built by appending builders per panel type: never empty",
	"internal/veneers/builder.composeBuilderForType composableBuilders[0] #2":                         "the lists of composableBuilders are built by appending builders per panel type: never empty",
	"internal/ast/compiler.SanitizeEnumMemberNames.sanitizeEnumMember member.Name[0]":                 "an empty name is replaced by \"None\" at the top of the function",
	"internal/ast/compiler.SanitizeEnumMemberNames.sanitizeEnumMember member.Name[0] #2":              "an empty name is replaced by \"None\" at the top of the function",
	"internal/languages.ConverterGenerator.convertListOfDisjunctionOptions options[0].Assignments[0]": "the lists in listOfDisjunctionOptions are created by appending an option whose filtered assignments were just indexed: neither is empty",
	"internal/languages.ConverterGenerator.convertListOfDisjunctionOptions options[0]":                "the lists in listOfDisjunctionOptions are created by appending an option whose filtered assignments were just indexed: neither is empty",
	"internal/codegen.parseCueEntrypoint bis[0]":                                                      "load.Instances returns one instance per argument (one argument is given)",
}

func c04ConstantIndexes(ctx *Ctx, r *Report, eng *effectsEngine) {
	la := &lenAnalysis{ctx: ctx, boolDefs: map[types.Object]ast.Expr{}}
	ka := &kindAnalysis{ctx: ctx}
	// call sites
	type callSite struct {
		p    *packages.Package
		fd   *ast.FuncDecl
		call *ast.CallExpr
	}
	callers := map[*types.Func][]callSite{}
	valueTaken := map[*types.Func]bool{}
	ctx.AllFuncDecls(func(p *packages.Package, fd *ast.FuncDecl, obj *types.Func) {
		if fd.Body == nil {
			return
		}
		ka.boolDefs = nil
		ka.okFacts = nil
		ka.indexBoolDefs(p.TypesInfo, fd)
		for o, e := range ka.boolDefs {
			la.boolDefs[o] = e
		}
		calledIdents := map[*ast.Ident]bool{}
		ast.Inspect(fd.Body, func(n ast.Node) bool {
			if c, ok := n.(*ast.CallExpr); ok {
				if f := callee(p.TypesInfo, c); f != nil {
					callers[f.Origin()] = append(callers[f.Origin()], callSite{p, fd, c})
					switch fun := c.Fun.(type) {
					case *ast.SelectorExpr:
						calledIdents[fun.Sel] = true
					case *ast.Ident:
						calledIdents[fun] = true
					}
				}
			}
			return true
		})
		ast.Inspect(fd.Body, func(n ast.Node) bool {
			if id, ok := n.(*ast.Ident); ok && !calledIdents[id] {
				if f, ok := p.TypesInfo.Uses[id].(*types.Func); ok {
					valueTaken[f.Origin()] = true
				}
			}
			return true
		})
	})
	for f, sites := range callers {
		sig, ok := f.Type().(*types.Signature)
		if !ok || sig.Recv() == nil {
			continue
		}
		if _, isI := sig.Recv().Type().Underlying().(*types.Interface); !isI {
			continue
		}
		for _, impl := range eng.implementations(f) {
			callers[impl] = append(callers[impl], sites...)
		}
	}
	parentsOf := map[*ast.FuncDecl]map[ast.Node]ast.Node{}
	getParents := func(fd *ast.FuncDecl) map[ast.Node]ast.Node {
		if m, ok := parentsOf[fd]; ok {
			return m
		}
		m := parentMap(fd)
		parentsOf[fd] = m
		return m
	}
	var guarded func(p *packages.Package, fd *ast.FuncDecl, fn *types.Func, node ast.Node, base ast.Expr, suffix []string, need int64, depth int) string
	guarded = func(p *packages.Package, fd *ast.FuncDecl, fn *types.Func, node ast.Node, base ast.Expr, suffix []string, need int64, depth int) string {
		info := p.TypesInfo
		parents := getParents(fd)
		if g := la.guardedLocally(info, fd, parents, node, base, suffix, need); g != "" {
			return g
		}
		// the value is built on the spot / bound to something of known length
		lengthOf := func(e ast.Expr) (int64, string) {
			switch x := ast.Unparen(e).(type) {
			case *ast.CompositeLit:
				return int64(len(x.Elts)), "a literal of " + fmt.Sprint(len(x.Elts)) + " elements"
			case *ast.CallExpr:
				if f := callee(info, x); f != nil {
					switch f.FullName() {
					case "strings.Split", "strings.SplitN", "strings.SplitAfter", "strings.SplitAfterN":
						return 1, f.FullName() + " returns at least one element"
					}
				}
				if id, ok := x.Fun.(*ast.Ident); ok && id.Name == "make" && len(x.Args) >= 2 {
					if v, ok := constInt(info, x.Args[1]); ok {
						return v, "make(…, " + fmt.Sprint(v) + ")"
					}
				}
			}
			return -1, ""
		}
		if len(suffix) == 0 {
			if n, why := lengthOf(base); n >= need {
				return why
			}
		}
		root := rootIdent(base)
		if root == nil {
			return ""
		}
		ro := objOf(info, root)
		if id, ok := ast.Unparen(base).(*ast.Ident); ok && ro != nil && len(suffix) == 0 {
			_ = id
			var defs []ast.Expr
			var defStmt ast.Node
			ast.Inspect(fd.Body, func(n ast.Node) bool {
				if as, ok := n.(*ast.AssignStmt); ok && len(as.Lhs) == len(as.Rhs) {
					for i, l := range as.Lhs {
						if lid, ok := l.(*ast.Ident); ok && objOf(info, lid) == ro {
							defs = append(defs, as.Rhs[i])
							defStmt = as
						}
					}
				}
				return true
			})
			if len(defs) == 1 {
				if n, why := lengthOf(defs[0]); n >= need {
					return "bound to " + why
				}
				if isAccessPath(defs[0]) && depth < 3 {
					if g := guarded(p, fd, fn, defStmt, defs[0], nil, need, depth+1); g != "" {
						return "alias of " + exprString(defs[0]) + ", " + g
					}
				}
			}
		}
		// parameter: decided at every call site
		var sels []string
		pure := true
		for e := ast.Unparen(base); ; {
			if s2, ok := e.(*ast.SelectorExpr); ok {
				if fieldOf(info, s2) == nil {
					pure = false
					break
				}
				sels = append([]string{s2.Sel.Name}, sels...)
				e = ast.Unparen(s2.X)
				continue
			}
			if _, ok := e.(*ast.Ident); !ok {
				pure = false
			}
			break
		}
		if ro != nil && isParamOf(info, fd, ro) && pure && depth < 4 && !valueTaken[fn] && len(callers[fn]) > 0 {
			idx, k := -1, 0
			for _, f := range fd.Type.Params.List {
				for _, nm := range f.Names {
					if info.Defs[nm] == ro {
						idx = k
					}
					k++
				}
			}
			if idx >= 0 {
				all := true
				for _, cs := range callers[fn] {
					if idx >= len(cs.call.Args) || cs.call.Ellipsis.IsValid() {
						all = false
						break
					}
					cfn, _ := cs.p.TypesInfo.Defs[cs.fd.Name].(*types.Func)
					if guarded(cs.p, cs.fd, cfn, cs.call, cs.call.Args[idx], append(append([]string{}, sels...), suffix...), need, depth+1) == "" {
						all = false
						break
					}
				}
				if all {
					return fmt.Sprintf("parameter: each of the %d call sites passes a value tested to be long enough", len(callers[fn]))
				}
			}
		}
		return ""
	}
	total := 0
	perFunc := map[string]int{}
	ctx.AllFuncDecls(func(p *packages.Package, fd *ast.FuncDecl, obj *types.Func) {
		if fd.Body == nil {
			return
		}
		info := p.TypesInfo
		ast.Inspect(fd.Body, func(n ast.Node) bool {
			ix, ok := n.(*ast.IndexExpr)
			if !ok {
				return true
			}
			k, ok := constInt(info, ix.Index)
			if !ok || k < 0 {
				return true
			}
			t := info.TypeOf(ix.X)
			if t == nil {
				return true
			}
			switch u := t.Underlying().(type) {
			case *types.Slice:
			case *types.Basic:
				if u.Info()&types.IsString == 0 {
					return true
				}
			default:
				return true
			}
			// library-owned slices are the parser-frontier rule's
			if f := fieldOf(info, ix.X); f != nil && f.Pkg() != nil && !strings.HasPrefix(f.Pkg().Path(), modulePath) {
				return true
			}
			// command-line helpers are not part of a run
			if strings.Contains(p.PkgPath, "/cmd/") {
				return true
			}
			total++
			// IR invariants established at the front-ends (rules frontier/non-empty-*): enums have members, unions have
			// branches, constraints have an argument
			if k == 0 {
				if f := fieldOf(info, ix.X); f != nil && f.Pkg() != nil && f.Pkg().Path() == astPkgPath {
					inv := map[string]string{"Values": "enums have at least one member", "Branches": "unions and intersections have at least one branch", "Args": ""}[f.Name()]
					if f.Name() == "Args" {
						if sel, ok := ast.Unparen(ix.X).(*ast.SelectorExpr); ok {
							if t := info.TypeOf(sel.X); t != nil && strings.HasSuffix(t.String(), "ast.TypeConstraint") {
								inv = "type constraints carry at least one argument"
							}
						}
					}
					if inv != "" {
						cons := fmt.Sprintf("%s %s[%d]", ctx.FuncName(obj), exprString(ix.X), k)
						perFunc[cons]++
						if perFunc[cons] > 1 {
							cons = fmt.Sprintf("%s #%d", cons, perFunc[cons])
						}
						r.OK("flow/guarded-constant-index", cons, ix.Pos(), "IR invariant: "+inv+" (checked on the producers: rule frontier/non-empty)")
						return true
					}
				}
			}
			g := guarded(p, fd, obj, ix, ix.X, nil, k+1, 0)
			cons := fmt.Sprintf("%s %s[%d]", ctx.FuncName(obj), exprString(ix.X), k)
			perFunc[cons]++
			if perFunc[cons] > 1 {
				cons = fmt.Sprintf("%s #%d", cons, perFunc[cons])
			}
			if g == "" {
				if why, ok := c04IndexTable[cons]; ok {
					g = "reviewed: " + why
				}
			}
			r.Check(g != "", "flow/guarded-constant-index", cons, ix.Pos(), g,
				fmt.Sprintf("%s reads element %d of %s without a dominating test that it has more than %d element(s): for a shorter value cog panics with `index out of range`", ctx.FuncName(obj), k, exprString(ix.X), k))
			return true
		})
	})
	r.Count("constant indexes into slices and strings", total)
	r.Floor("constant indexes into slices and strings", 100)
}

// c04NonEmptyInvariants: the IR invariants used by flow/guarded-constant-index are established where IR values are
// produced from input: enum walkers and union walkers of the JSON-family front-ends leave on an empty list, and every
// ast.TypeConstraint literal of cog carries at least one argument. (CUE enums and unions come from disjunctions with two
// or more operands; IR given literally in configuration files is trusted to be well-formed: stated in NotCovered.)
func c04NonEmptyInvariants(ctx *Ctx, r *Report) {
	type spec struct{ pkg, fn, field, what string }
	for _, sp := range []spec{
		{"internal/jsonschema", "walkEnum", "Enum", "enum"}, {"internal/openapi", "walkEnum", "Enum", "enum"},
		{"internal/jsonschema", "walkAnyOf", "AnyOf", "union"}, {"internal/jsonschema", "walkOneOf", "OneOf", "union"},
		{"internal/openapi", "walkDisjunctions", "", "union"},
	} {
		p := ctx.Pkg(sp.pkg)
		if p == nil {
			r.Undecided("package %s not found", sp.pkg)
			continue
		}
		var fd *ast.FuncDecl
		for _, f := range p.Syntax {
			for _, d := range f.Decls {
				if x, ok := d.(*ast.FuncDecl); ok && x.Name.Name == sp.fn && x.Body != nil {
					fd = x
				}
			}
		}
		if fd == nil {
			r.Undecided("anchor lost: %s.%s", sp.pkg, sp.fn)
			continue
		}
		guard := false
		for _, st := range fd.Body.List {
			is, ok := st.(*ast.IfStmt)
			if !ok || !endsInExit(is.Body) {
				continue
			}
			be, ok := ast.Unparen(is.Cond).(*ast.BinaryExpr)
			if !ok || be.Op != token.EQL {
				continue
			}
			if lp := lenOperand(p.TypesInfo, be.X); lp != nil {
				if v, ok := constInt(p.TypesInfo, be.Y); ok && v == 0 && (sp.field == "" || strings.HasSuffix(exprString(lp), "."+sp.field)) {
					guard = true
				}
			}
		}
		r.Check(guard, "frontier/non-empty", fmt.Sprintf("%s.%s rejects an empty %s", sp.pkg, sp.fn, sp.what), fd.Pos(), "leaves with an error when the list is empty",
			fmt.Sprintf("%s.%s builds an %s from a list it has not tested to be non-empty: every formatter and pass indexes element 0 of an %s without a test", sp.pkg, sp.fn, sp.what, sp.what))
	}
	n := 0
	ctx.AllFuncDecls(func(p *packages.Package, fd *ast.FuncDecl, obj *types.Func) {
		if fd.Body == nil {
			return
		}
		k := 0
		ast.Inspect(fd.Body, func(m ast.Node) bool {
			cl, ok := m.(*ast.CompositeLit)
			if !ok {
				return true
			}
			t := p.TypesInfo.TypeOf(cl)
			if t == nil {
				return true
			}
			if _, isNamed := t.(*types.Named); !isNamed || !strings.HasSuffix(t.String(), "ast.TypeConstraint") {
				return true
			}
			if len(cl.Elts) == 0 || fd.Name.Name == "DeepCopy" {
				return true // zero value; copy of an existing constraint
			}
			n++
			k++
			okArgs := false
			for _, el := range cl.Elts {
				if kv, ok := el.(*ast.KeyValueExpr); ok && exprString(kv.Key) == "Args" {
					if al, ok := kv.Value.(*ast.CompositeLit); ok && len(al.Elts) >= 1 {
						okArgs = true
					}
					// a helper returning a slice built from one value: getArgs(v, t) in the OpenAPI front-end
					if c, ok := kv.Value.(*ast.CallExpr); ok {
						if f := callee(p.TypesInfo, c); f != nil && f.Name() == "getArgs" {
							okArgs = true
						}
					}
					// copy of another constraint's arguments
					if s2, ok := kv.Value.(*ast.SelectorExpr); ok && s2.Sel.Name == "Args" {
						okArgs = true
					}
				}
			}
			r.Check(okArgs, "frontier/non-empty", fmt.Sprintf("%s constraint literal #%d", ctx.FuncName(obj), k), cl.Pos(), "built with at least one argument",
				fmt.Sprintf("%s builds a type constraint whose Args are not visibly non-empty: the constraint templates and the JSON Schema jenny read Args[0] without a test", ctx.FuncName(obj)))
			return true
		})
	})
	r.Count("type constraint literals", n)
	r.Floor("type constraint literals", 8)
}

// cfgNilEntries: a configuration field decoded from YAML as a slice of pointers (`inputs: [~]` gives a nil element) is
// checked for nil elements by the loader before anything ranges over it and dereferences the elements.
func cfgNilEntries(ctx *Ctx, r *Report) {
	n := 0
	for _, p := range ctx.Pkgs {
		if !strings.HasPrefix(p.PkgPath, modulePath+"/internal/codegen") && !strings.HasPrefix(p.PkgPath, modulePath+"/internal/yaml") {
			continue
		}
		info := p.TypesInfo
		for _, f := range p.Syntax {
			ast.Inspect(f, func(m ast.Node) bool {
				st, ok := m.(*ast.StructType)
				if !ok {
					return true
				}
				for _, fld := range st.Fields.List {
					if fld.Tag == nil || !strings.Contains(fld.Tag.Value, "yaml:") || len(fld.Names) == 0 {
						continue
					}
					t := info.TypeOf(fld.Type)
					sl, ok := t.Underlying().(*types.Slice)
					if !ok {
						continue
					}
					if _, isPtr := sl.Elem().(*types.Pointer); !isPtr {
						continue
					}
					fieldObj, _ := info.Defs[fld.Names[0]].(*types.Var)
					n++
					// a loop over that field that returns an error on a nil element, in a function that also decodes YAML
					validated := false
					for _, f2 := range p.Syntax {
						for _, d := range f2.Decls {
							fd, ok := d.(*ast.FuncDecl)
							if !ok || fd.Body == nil {
								continue
							}
							decodes := false
							ast.Inspect(fd.Body, func(k ast.Node) bool {
								if c, ok := k.(*ast.CallExpr); ok {
									if fn := callee(info, c); fn != nil && (fn.Name() == "Decode" || fn.Name() == "Unmarshal" || fn.Name() == "DecodeStrict") {
										decodes = true
									}
								}
								return true
							})
							if !decodes {
								continue
							}
							ast.Inspect(fd.Body, func(k ast.Node) bool {
								rs, ok := k.(*ast.RangeStmt)
								if !ok || fieldOf(info, rs.X) != fieldObj || rs.Value == nil {
									return true
								}
								val, _ := rs.Value.(*ast.Ident)
								for _, s2 := range rs.Body.List {
									is, ok := s2.(*ast.IfStmt)
									if !ok || !endsInExit(is.Body) {
										continue
									}
									if be, ok := ast.Unparen(is.Cond).(*ast.BinaryExpr); ok && be.Op == token.EQL && isNilIdent(info, be.Y) && val != nil && isIdentOf(info, be.X, info.Defs[val]) {
										if ret, ok := is.Body.List[len(is.Body.List)-1].(*ast.ReturnStmt); ok && len(ret.Results) > 0 && !isNilIdent(info, ret.Results[len(ret.Results)-1]) {
											validated = true
										}
									}
								}
								return true
							})
						}
					}
					r.Check(validated, "cfgschema/nil-entries", fmt.Sprintf("%s field %s", p.PkgPath[len(modulePath)+1:], fld.Names[0].Name), fld.Pos(), "the loader rejects nil elements right after decoding",
						fmt.Sprintf("%s is a slice of pointers filled by the YAML decoder: a null list entry (`- ~`) decodes to a nil element, and nothing rejects it before the pipeline ranges over the slice and dereferences its elements", fld.Names[0].Name))
				}
				return true
			})
		}
	}
	r.Count("configuration slices of pointers", n)
	r.Floor("configuration slices of pointers", 2)
}

// c04PathInvariant: ast.Path values are never empty — Last(), RemoveLast() and `p[len(p)-1]` rely on it. Checked on the
// producers: MakePath rejects the empty input with an error, no function returns an empty Path literal (or nil) together
// with a nil error, no empty Path literal is built anywhere.
func c04PathInvariant(ctx *Ctx, r *Report) {
	pathT := ctx.LookupType("internal/ast", "Path")
	if pathT == nil {
		r.Undecided("anchor lost: ast.Path")
		return
	}
	// (a) MakePath
	fn := ctx.LookupMethod("internal/ast", "Builder", "MakePath")
	fd, p := ctx.DeclOf(fn)
	if fd == nil {
		r.Undecided("anchor lost: ast.Builder.MakePath")
	} else {
		info := p.TypesInfo
		guard := false
		for _, st := range fd.Body.List {
			is, ok := st.(*ast.IfStmt)
			if !ok || len(is.Body.List) == 0 {
				continue
			}
			be, ok := ast.Unparen(is.Cond).(*ast.BinaryExpr)
			if !ok || be.Op != token.EQL {
				continue
			}
			emptyTest := false
			for _, side := range []ast.Expr{be.X, be.Y} {
				if tv, ok := info.Types[side]; ok && tv.Value != nil && tv.Value.Kind() == constant.String && constant.StringVal(tv.Value) == "" {
					emptyTest = true
				}
			}
			if rs, ok := is.Body.List[len(is.Body.List)-1].(*ast.ReturnStmt); ok && emptyTest && len(rs.Results) == 2 && !isNilIdent(info, rs.Results[1]) {
				guard = true
			}
		}
		r.Check(guard, "frontier/non-empty-path", "ast.Builder.MakePath rejects the empty path", fd.Pos(), "an empty input is an error",
			"MakePath no longer returns an error for an empty input: it hands out an empty Path, on which compose / add_assignment / the converter take the last element — index out of range [-1]")
	}
	// (b) empty literals and nil paths returned with a nil error
	n := 0
	ctx.AllFuncDecls(func(p *packages.Package, fd *ast.FuncDecl, obj *types.Func) {
		if fd.Body == nil {
			return
		}
		info := p.TypesInfo
		sig := obj.Type().(*types.Signature)
		returnsPathErr := sig.Results().Len() == 2 && namedOf(sig.Results().At(0).Type()) == pathT && isErrorType(sig.Results().At(1).Type())
		k := 0
		ast.Inspect(fd.Body, func(m ast.Node) bool {
			switch x := m.(type) {
			case *ast.FuncLit:
				return false
			case *ast.CompositeLit:
				if namedOf(info.TypeOf(x)) == pathT {
					if _, isSlice := info.TypeOf(x).Underlying().(*types.Slice); isSlice {
						n++
						k++
						r.Check(len(x.Elts) > 0, "frontier/non-empty-path", fmt.Sprintf("%s path literal #%d", ctx.FuncName(obj), k), x.Pos(), "the literal has elements",
							fmt.Sprintf("%s builds an empty ast.Path: Last() / RemoveLast() on it index out of range", ctx.FuncName(obj)))
					}
				}
			case *ast.ReturnStmt:
				if returnsPathErr && len(x.Results) == 2 && isNilIdent(info, x.Results[1]) && isNilIdent(info, x.Results[0]) {
					r.Bad("frontier/non-empty-path", ctx.FuncName(obj)+" returns a nil path without error", x.Pos(), ctx.FuncName(obj)+" returns a nil ast.Path together with a nil error: callers take its last element")
				}
			}
			return true
		})
	})
	r.Count("ast.Path literals", n)
	r.Floor("ast.Path literals", 3)
}

// c04ReflectIndexes: reflect.Value.Index(k) panics like x[k] does ("reflect: slice index out of range"): a constant index
// must sit under a test of the same value's Len(). Functions installed in a template.FuncMap are exempt (text/template
// turns their panics into errors — assumption of C04).
func c04ReflectIndexes(ctx *Ctx, r *Report) {
	n := 0
	ctx.AllFuncDecls(func(p *packages.Package, fd *ast.FuncDecl, obj *types.Func) {
		if fd.Body == nil || strings.HasPrefix(ctx.RelPkg(p.PkgPath), "cmd/") {
			return
		}
		info := p.TypesInfo
		parents := parentMap(fd)
		k := 0
		ast.Inspect(fd.Body, func(m ast.Node) bool {
			c, ok := m.(*ast.CallExpr)
			if !ok || len(c.Args) != 1 {
				return true
			}
			fn := callee(info, c)
			if fn == nil || fn.FullName() != "(reflect.Value).Index" {
				return true
			}
			if tv, ok := info.Types[c.Args[0]]; !ok || tv.Value == nil {
				return true // computed index: not decided (stated in NotCovered)
			}
			sel := c.Fun.(*ast.SelectorExpr)
			n++
			k++
			recv := exprString(sel.X)
			why := ""
			if lit := enclosingFuncLit(parents, c); lit != nil {
				// a closure stored in a FuncMap literal
				for a := parents[ast.Node(lit)]; a != nil; a = parents[a] {
					if cl, ok := a.(*ast.CompositeLit); ok {
						if t := info.TypeOf(cl); t != nil && strings.HasSuffix(t.String(), "template.FuncMap") {
							why = "template function: text/template converts its panic into an error"
						}
					}
				}
			}
			if why == "" {
				for _, ce := range enclosingConds(parents, c) {
					if !ce.inElse && strings.Contains(exprString(ce.stmt.Cond), recv+".Len()") {
						why = "under " + exprString(ce.stmt.Cond)
					}
				}
			}
			r.Check(why != "", "flow/guarded-reflect-index", fmt.Sprintf("%s %s.Index(%s) #%d", ctx.FuncName(obj), recv, exprString(c.Args[0]), k), c.Pos(), why,
				fmt.Sprintf("%s calls %s.Index(%s) without a test of %s.Len(): an empty list (a default of `[]`) panics with \"reflect: slice index out of range\" — in plain Go code, nothing recovers it", ctx.FuncName(obj), recv, exprString(c.Args[0]), recv))
			return true
		})
	})
	r.Count("constant reflect.Value.Index calls", n)
	r.Floor("constant reflect.Value.Index calls", 1)
}

// c04OpenAPINilSchemas: with `no_validate: true` kin-openapi hands over documents with missing parts: `items` absent,
// null entries, references that were never resolved (SchemaRef.Value == nil). Every schema goes through the funnel
// walkSchemaRef, which must test its parameter and its Value against nil before using them; schemaComments, which is
// called on `.Value` of references (never resolved for alias cycles), must test its parameter.
func c04OpenAPINilSchemas(ctx *Ctx, r *Report) {
	p := ctx.Pkg("internal/openapi")
	if p == nil {
		r.Undecided("anchor lost: internal/openapi")
		return
	}
	info := p.TypesInfo
	type want struct {
		fn    string
		paths []string // "" = the parameter itself, ".Value" = its Value
	}
	for _, w := range []want{{"walkSchemaRef", []string{"", ".Value"}}, {"schemaComments", []string{""}}} {
		var fd *ast.FuncDecl
		for _, file := range p.Syntax {
			for _, d := range file.Decls {
				if x, ok := d.(*ast.FuncDecl); ok && x.Name.Name == w.fn {
					fd = x
				}
			}
		}
		if fd == nil || fd.Type.Params.NumFields() == 0 {
			r.Undecided("anchor lost: openapi.%s", w.fn)
			continue
		}
		var param *ast.Ident
		for _, f := range fd.Type.Params.List {
			for _, nm := range f.Names {
				if _, ok := info.TypeOf(nm).(*types.Pointer); ok {
					param = nm
				}
			}
		}
		if param == nil {
			r.Undecided("anchor lost: pointer parameter of openapi.%s", w.fn)
			continue
		}
		for _, suffix := range w.paths {
			target := param.Name + suffix
			// position of the first `target == nil` exit guard, and of the first use through target
			guardAt, useAt := token.NoPos, token.NoPos
			ast.Inspect(fd.Body, func(m ast.Node) bool {
				switch x := m.(type) {
				case *ast.IfStmt:
					if be, ok := ast.Unparen(x.Cond).(*ast.BinaryExpr); ok && be.Op == token.EQL && exprString(be.X) == target && isNilIdent(info, be.Y) && endsInExitOrPanic(info, x.Body) && !guardAt.IsValid() {
						guardAt = x.Pos()
					}
				case *ast.SelectorExpr:
					if exprString(x.X) == target && !useAt.IsValid() {
						useAt = x.Pos()
					}
				case *ast.CallExpr:
					// handing target.<…> / target to a function that dereferences it counts as a use for ".Value"
					if suffix != "" {
						for _, a := range x.Args {
							if exprString(a) == target && !useAt.IsValid() {
								useAt = a.Pos()
							}
						}
					}
				}
				return true
			})
			ok := guardAt.IsValid() && (!useAt.IsValid() || guardAt < useAt)
			r.Count("nil obligations on the OpenAPI schema funnel", 1)
			r.Check(ok, "frontier/openapi-nil-schema", fmt.Sprintf("openapi.%s tests %s", w.fn, target), fd.Pos(), "tested against nil before its first use",
				fmt.Sprintf("openapi.%s uses %s without an earlier `if %s == nil { leave }`: with no_validate the library hands over missing schemas (array without items, null entries, unresolved references) — nil pointer dereference", w.fn, target, target))
		}
	}
	r.Floor("nil obligations on the OpenAPI schema funnel", 3)
}

// repairsEmptiness: the body of `if len(P) == 0 { … }` does not leave the function but ends with P made non-empty:
// at the top level of the body, either `P = <literal with elements>`, or `root = &V` / `root = V` where V is a local
// whose member path (the rest of P) was assigned a composite literal with at least one element (address-of allowed).
// `P` may end in a call such as `.Slice()` on the member that holds the list.
func repairsEmptiness(info *types.Info, body *ast.BlockStmt, p ast.Expr) bool {
	p = ast.Unparen(p)
	if c, ok := p.(*ast.CallExpr); ok && len(c.Args) == 0 {
		if s, ok := ast.Unparen(c.Fun).(*ast.SelectorExpr); ok {
			p = s.X // the list is held by the receiver of the accessor
		}
	}
	root := rootIdent(p)
	if root == nil {
		return false
	}
	var suffix []string
	for e := p; ; {
		s, ok := ast.Unparen(e).(*ast.SelectorExpr)
		if !ok {
			break
		}
		suffix = append([]string{s.Sel.Name}, suffix...)
		e = s.X
	}
	nonEmptyLit := func(e ast.Expr) bool {
		e = ast.Unparen(e)
		if u, ok := e.(*ast.UnaryExpr); ok && u.Op == token.AND {
			e = ast.Unparen(u.X)
		}
		cl, ok := e.(*ast.CompositeLit)
		return ok && len(cl.Elts) > 0
	}
	filled := map[types.Object]bool{} // locals whose <suffix> member holds a non-empty literal
	repaired := false
	for _, st := range body.List {
		as, ok := st.(*ast.AssignStmt)
		if !ok || len(as.Lhs) != 1 || len(as.Rhs) != 1 {
			continue
		}
		lhs, rhs := ast.Unparen(as.Lhs[0]), ast.Unparen(as.Rhs[0])
		// V.<suffix> = literal   /   P = literal
		if nonEmptyLit(rhs) {
			var names []string
			e := lhs
			for {
				s, ok := ast.Unparen(e).(*ast.SelectorExpr)
				if !ok {
					break
				}
				names = append([]string{s.Sel.Name}, names...)
				e = s.X
			}
			if id, ok := ast.Unparen(e).(*ast.Ident); ok && strings.Join(names, ".") == strings.Join(suffix, ".") {
				if objOf(info, id) == objOf(info, root) {
					repaired = true
				} else {
					filled[objOf(info, id)] = true
				}
			}
		}
		// root = &V / V
		if id, ok := lhs.(*ast.Ident); ok && objOf(info, id) == objOf(info, root) {
			v := rhs
			if u, ok := v.(*ast.UnaryExpr); ok && u.Op == token.AND {
				v = ast.Unparen(u.X)
			}
			if vid, ok := v.(*ast.Ident); ok {
				repaired = filled[objOf(info, vid)]
			} else {
				repaired = false
			}
		}
	}
	return repaired
}

// cfgNilMaps: a map field filled by the YAML decoder is nil after decoding when the document gives the key with no
// value (`parameters:` with every entry commented out) — even if the loader had put a map there before. Every map
// field of the configuration structs of internal/codegen that cog later stores into (`x.F[k] = v`) is re-created by
// the loader, after decoding, under `x.F == nil`.
func cfgNilMaps(ctx *Ctx, r *Report) {
	p := ctx.Pkg("internal/codegen")
	if p == nil {
		r.Undecided("anchor lost: internal/codegen")
		return
	}
	info := p.TypesInfo
	// yaml-tagged map fields
	var fields []*types.Var
	for _, f := range p.Syntax {
		ast.Inspect(f, func(m ast.Node) bool {
			st, ok := m.(*ast.StructType)
			if !ok {
				return true
			}
			for _, fld := range st.Fields.List {
				if fld.Tag == nil || !strings.Contains(fld.Tag.Value, "yaml:") || len(fld.Names) == 0 {
					continue
				}
				if _, isMap := info.TypeOf(fld.Type).Underlying().(*types.Map); !isMap {
					continue
				}
				if v, _ := info.Defs[fld.Names[0]].(*types.Var); v != nil {
					fields = append(fields, v)
				}
			}
			return true
		})
	}
	n := 0
	for _, fv := range fields {
		// is it stored into anywhere?
		var storeAt token.Pos
		for _, f := range p.Syntax {
			// stores made while ranging over the map itself never run on a nil map
			var inRange []*ast.RangeStmt
			ast.Inspect(f, func(m ast.Node) bool {
				if rs, ok := m.(*ast.RangeStmt); ok && fieldOf(info, rs.X) == fv {
					inRange = append(inRange, rs)
				}
				return true
			})
			ast.Inspect(f, func(m ast.Node) bool {
				as, ok := m.(*ast.AssignStmt)
				if !ok {
					return true
				}
				for _, rs := range inRange {
					if containsNode(rs.Body, as) {
						return true
					}
				}
				for _, l := range as.Lhs {
					if ix, ok := ast.Unparen(l).(*ast.IndexExpr); ok && fieldOf(info, ix.X) == fv && !storeAt.IsValid() {
						storeAt = as.Pos()
					}
				}
				return true
			})
		}
		if !storeAt.IsValid() {
			continue
		}
		n++
		// the loader: a function that decodes YAML and re-creates the map under a nil test after the decode
		recreated := false
		for _, f := range p.Syntax {
			for _, d := range f.Decls {
				fd, ok := d.(*ast.FuncDecl)
				if !ok || fd.Body == nil {
					continue
				}
				decodeAt := token.NoPos
				ast.Inspect(fd.Body, func(k ast.Node) bool {
					if c, ok := k.(*ast.CallExpr); ok {
						if fn := callee(info, c); fn != nil && (fn.Name() == "DecodeStrict" || fn.Name() == "Decode") && !decodeAt.IsValid() {
							decodeAt = c.Pos()
						}
					}
					return true
				})
				if !decodeAt.IsValid() {
					continue
				}
				ast.Inspect(fd.Body, func(k ast.Node) bool {
					is, ok := k.(*ast.IfStmt)
					if !ok || is.Pos() < decodeAt {
						return true
					}
					be, ok := ast.Unparen(is.Cond).(*ast.BinaryExpr)
					if !ok || be.Op != token.EQL || !isNilIdent(info, be.Y) || fieldOf(info, be.X) != fv {
						return true
					}
					for _, st := range is.Body.List {
						if as, ok := st.(*ast.AssignStmt); ok && len(as.Lhs) == 1 && fieldOf(info, as.Lhs[0]) == fv {
							recreated = true
						}
					}
					return true
				})
			}
		}
		r.Check(recreated, "cfgschema/nil-maps", "internal/codegen field "+fv.Name()+" is a map after loading", storeAt, "the loader re-creates the map under a nil test after decoding",
			fv.Name()+" is a map filled by the YAML decoder and stored into later ("+ctx.Pos(storeAt)+"): a key given without a value (`"+strings.ToLower(fv.Name())+":` with every entry commented out) decodes as a nil map, and nothing re-creates it after decoding — the store panics with `assignment to entry in nil map`")
	}
	r.Count("configuration maps stored into after loading", n)
	r.Floor("configuration maps stored into after loading", 1)
}
