package main

import (
	"fmt"
	"go/ast"
	"go/token"
	"go/types"
	"sort"
	"strings"

	"golang.org/x/tools/go/packages"
)

// C04 — IR types given in the YAML configuration.
//
// ast.Type is a tagged union (Kind + one pointer per kind) whose accessors dereference the pointer
// unconditionally. The schema front-ends establish "the pointer named by Kind is set, enums and
// unions are not empty" by construction; the YAML loader is a second producer of IR values that
// establishes nothing unless it validates them. Two clauses:
//
//   cfgschema/type-validation-total   (ast.Type).Validate has a clause for every Kind constant, the
//                                     clause tests that kind's payload pointer against nil, and it
//                                     calls Validate through every member of the payload that holds
//                                     a Type again; enums and unions are tested for emptiness.
//   cfgschema/ir-types-validated      every struct of internal/yaml and internal/veneers (and every
//                                     IR struct that declares Validate) from which a field chain
//                                     reaches an ast.Type has a method that calls Validate on every
//                                     such chain — or is walked through by such a method of a
//                                     struct that holds it.

type c04vChain struct {
	names []string     // field names from the struct down to the validatable node
	end   *types.Named // ast.Type, or a struct that has a validating method
}

func (c c04vChain) String() string { return strings.Join(c.names, ".") }

type c04vState struct {
	ctx       *Ctx
	astType   *types.Named
	reach     map[*types.Named]int            // 0 unknown, 1 in progress, 2 yes, 3 no
	valMethod map[*types.Named]*types.Func    // memo: validating method of a struct (nil = none)
	valState  map[*types.Named]int            // 0 unknown, 1 in progress, 2 done
	passed    map[*types.Named][]*types.Named // struct walked through transparently -> by whom
	missing   map[*types.Named][]string       // chains without a call, for the report
	calls     int
}

func stripContainers(t types.Type) types.Type {
	for {
		switch x := types.Unalias(t).(type) {
		case *types.Pointer:
			t = x.Elem()
		case *types.Slice:
			t = x.Elem()
		case *types.Array:
			t = x.Elem()
		case *types.Map:
			t = x.Elem()
		case *types.Named:
			switch x.Underlying().(type) {
			case *types.Slice, *types.Array, *types.Map, *types.Pointer:
				t = x.Underlying()
			default:
				return x
			}
		default:
			return types.Unalias(t)
		}
	}
}

func structOf(n *types.Named) *types.Struct {
	if n == nil {
		return nil
	}
	s, _ := n.Underlying().(*types.Struct)
	return s
}

// reaches: does a value of struct n hold (through fields, slices, pointers, maps) an ast.Type?
// Only positive answers are remembered: a negative answer obtained while a cycle was cut is not final.
func (st *c04vState) reaches(n *types.Named) bool {
	return st.reachesVia(n, map[*types.Named]bool{})
}

func (st *c04vState) reachesVia(n *types.Named, onPath map[*types.Named]bool) bool {
	if n == nil {
		return false
	}
	if n == st.astType || st.reach[n] == 2 {
		return true
	}
	if onPath[n] {
		return false
	}
	onPath[n] = true
	defer delete(onPath, n)
	if s := structOf(n); s != nil && n.Obj().Pkg() != nil && strings.HasPrefix(n.Obj().Pkg().Path(), modulePath) {
		for i := 0; i < s.NumFields(); i++ {
			if fn, _ := stripContainers(s.Field(i).Type()).(*types.Named); fn != nil && st.reachesVia(fn, onPath) {
				st.reach[n] = 2
				return true
			}
		}
	}
	return false
}

// chainsOf enumerates the field chains of n that end at an ast.Type or at a struct with a validating
// method, walking through structs that have none. ok=false when a cycle of such structs is met.
func (st *c04vState) chainsOf(n *types.Named, owner *types.Named, onPath map[*types.Named]bool) (out []c04vChain, ok bool) {
	s := structOf(n)
	if s == nil {
		return nil, true
	}
	ok = true
	for i := 0; i < s.NumFields(); i++ {
		f := s.Field(i)
		fn, _ := stripContainers(f.Type()).(*types.Named)
		if fn == nil || !st.reaches(fn) {
			continue
		}
		if fn == st.astType {
			out = append(out, c04vChain{[]string{f.Name()}, fn})
			continue
		}
		if fn == owner || st.validating(fn) != nil {
			out = append(out, c04vChain{[]string{f.Name()}, fn})
			continue
		}
		if onPath[fn] {
			return nil, false
		}
		onPath[fn] = true
		sub, subOK := st.chainsOf(fn, owner, onPath)
		delete(onPath, fn)
		if !subOK {
			return nil, false
		}
		if owner != nil {
			st.passed[fn] = append(st.passed[fn], owner)
		}
		for _, c := range sub {
			out = append(out, c04vChain{append([]string{f.Name()}, c.names...), c.end})
		}
	}
	return out, ok
}

// validating returns the method of n that calls Validate (or a validating method) on every chain.
func (st *c04vState) validating(n *types.Named) *types.Func {
	if st.valState[n] == 2 {
		return st.valMethod[n]
	}
	if st.valState[n] == 1 {
		return nil // recursion through n itself is handled by `owner` in chainsOf
	}
	st.valState[n] = 1
	defer func() { st.valState[n] = 2 }()
	if structOf(n) == nil || n.Obj().Pkg() == nil || !strings.HasPrefix(n.Obj().Pkg().Path(), modulePath) {
		return nil
	}
	chains, ok := st.chainsOf(n, n, map[*types.Named]bool{n: true})
	if !ok || len(chains) == 0 {
		return nil
	}
	var best []string
	first := true
	for i := 0; i < n.NumMethods(); i++ {
		m := n.Method(i)
		fd, p := st.ctx.DeclOf(m)
		if fd == nil || fd.Body == nil || fd.Recv == nil || len(fd.Recv.List) == 0 || len(fd.Recv.List[0].Names) == 0 {
			continue
		}
		recv := p.TypesInfo.Defs[fd.Recv.List[0].Names[0]]
		found := st.validatedChains(p, fd, recv, n)
		var miss []string
		for _, c := range chains {
			if !found[c.String()] {
				miss = append(miss, c.String())
			}
		}
		if len(miss) == 0 {
			st.valMethod[n] = m
			delete(st.missing, n)
			return m
		}
		if first || len(miss) < len(best) {
			best, first = miss, false
		}
	}
	// holders converted by a loader: any function of the package that covers every chain from a variable of the type
	if pk := st.ctx.Pkg(st.ctx.RelPkg(n.Obj().Pkg().Path())); pk != nil && !strings.HasSuffix(n.Obj().Pkg().Path(), "/internal/ast") {
		for _, file := range pk.Syntax {
			for _, d := range file.Decls {
				fd, ok := d.(*ast.FuncDecl)
				if !ok || fd.Body == nil {
					continue
				}
				isRoot := func(o types.Object) bool {
					v, ok := o.(*types.Var)
					return ok && !v.IsField() && namedOf(v.Type()) == n
				}
				found := st.validatedChainsFrom(pk, fd, isRoot, n)
				all := len(found) > 0
				for _, c := range chains {
					if !found[c.String()] {
						all = false
					}
				}
				if all {
					if fn, _ := pk.TypesInfo.Defs[fd.Name].(*types.Func); fn != nil {
						st.valMethod[n] = fn
						delete(st.missing, n)
						return fn
					}
				}
			}
		}
	}
	st.missing[n] = best
	if first {
		st.missing[n] = nil
		for _, c := range chains {
			st.missing[n] = append(st.missing[n], c.String())
		}
	}
	return nil
}

// validatedChains: field chains (from the receiver) on which fd calls (ast.Type).Validate or the
// validating method of a struct. Range variables and single-assignment locals are followed.
func (st *c04vState) validatedChains(p *packages.Package, fd *ast.FuncDecl, recv types.Object, self *types.Named) map[string]bool {
	return st.validatedChainsFrom(p, fd, func(o types.Object) bool { return o == recv }, self)
}

func (st *c04vState) validatedChainsFrom(p *packages.Package, fd *ast.FuncDecl, isRoot func(types.Object) bool, self *types.Named) map[string]bool {
	info := p.TypesInfo
	out := map[string]bool{}
	parents := parentMap(fd)
	ranges := map[types.Object]ast.Expr{}
	locals := map[types.Object]ast.Expr{}
	ast.Inspect(fd.Body, func(n ast.Node) bool {
		switch x := n.(type) {
		case *ast.RangeStmt:
			if v, ok := x.Value.(*ast.Ident); ok && x.Tok == token.DEFINE {
				if o := info.Defs[v]; o != nil {
					ranges[o] = x.X
				}
			}
		case *ast.AssignStmt:
			if x.Tok == token.DEFINE && len(x.Lhs) == 1 && len(x.Rhs) == 1 {
				if id, ok := x.Lhs[0].(*ast.Ident); ok {
					if o := info.Defs[id]; o != nil {
						locals[o] = x.Rhs[0]
					}
				}
			}
		}
		return true
	})
	var chainOf func(e ast.Expr, depth int) ([]string, bool)
	chainOf = func(e ast.Expr, depth int) ([]string, bool) {
		if depth > 12 {
			return nil, false
		}
		switch x := ast.Unparen(e).(type) {
		case *ast.Ident:
			o := objOf(info, x)
			if o == nil {
				return nil, false
			}
			if src, ok := ranges[o]; ok {
				return chainOf(src, depth+1) // an element is never a root of its own
			}
			if src, ok := locals[o]; ok {
				if names, ok := chainOf(src, depth+1); ok {
					return names, true
				}
			}
			if isRoot(o) {
				return nil, true
			}
			return nil, false
		case *ast.SelectorExpr:
			if sel, ok := info.Selections[x]; !ok || sel.Kind() != types.FieldVal {
				return nil, false
			}
			base, ok := chainOf(x.X, depth+1)
			if !ok {
				return nil, false
			}
			// embedded fields on the way are part of the chain
			sel := info.Selections[x]
			t := sel.Recv()
			names := append([]string{}, base...)
			for _, idx := range sel.Index() {
				s, _ := stripContainers(t).Underlying().(*types.Struct)
				if s == nil {
					return nil, false
				}
				names = append(names, s.Field(idx).Name())
				t = s.Field(idx).Type()
			}
			return names, true
		case *ast.IndexExpr:
			return chainOf(x.X, depth+1)
		case *ast.StarExpr:
			return chainOf(x.X, depth+1)
		case *ast.UnaryExpr:
			if x.Op == token.AND {
				return chainOf(x.X, depth+1)
			}
		}
		return nil, false
	}
	ast.Inspect(fd.Body, func(n ast.Node) bool {
		call, ok := n.(*ast.CallExpr)
		if !ok {
			return true
		}
		sel, ok := ast.Unparen(call.Fun).(*ast.SelectorExpr)
		if !ok {
			return true
		}
		fn := callee(info, call)
		if fn == nil {
			return true
		}
		sig, _ := fn.Type().(*types.Signature)
		if sig == nil || sig.Recv() == nil {
			return true
		}
		rn := namedOf(sig.Recv().Type())
		if rn == nil {
			return true
		}
		accept := false
		switch {
		case rn == st.astType:
			accept = fn.Name() == "Validate"
		case rn == self:
			accept = fn.Name() == fd.Name.Name // recursion of the validating method itself
		default:
			accept = st.validating(rn) == fn
		}
		if !accept {
			return true
		}
		// the verdict must not be dropped
		if _, dropped := parents[call].(*ast.ExprStmt); dropped {
			return true
		}
		if as, ok := parents[call].(*ast.AssignStmt); ok && len(as.Lhs) > 0 {
			if id, ok := as.Lhs[len(as.Lhs)-1].(*ast.Ident); ok && id.Name == "_" {
				return true
			}
		}
		if names, ok := chainOf(sel.X, 0); ok && len(names) > 0 {
			st.calls++
			out[strings.Join(names, ".")] = true
		}
		return true
	})
	return out
}

func c04ConfigTypesValidated(ctx *Ctx, r *Report) {
	astType := ctx.LookupType("internal/ast", "Type")
	if astType == nil {
		r.Undecided("anchor lost: ast.Type")
		return
	}
	st := &c04vState{ctx: ctx, astType: astType, reach: map[*types.Named]int{}, valMethod: map[*types.Named]*types.Func{},
		valState: map[*types.Named]int{}, passed: map[*types.Named][]*types.Named{}, missing: map[*types.Named][]string{}}

	// --- clause 1: (ast.Type).Validate is total over the kinds
	c04TypeValidationTotal(ctx, r, st)

	// --- clause 2: every configuration struct holding IR types validates them
	var subjects []*types.Named
	for _, rel := range []string{"internal/yaml", "internal/veneers", "internal/ast", "internal/codegen"} {
		p := ctx.Pkg(rel)
		if p == nil {
			r.Undecided("anchor lost: package %s", rel)
			continue
		}
		scope := p.Types.Scope()
		for _, name := range scope.Names() {
			tn, ok := scope.Lookup(name).(*types.TypeName)
			if !ok || tn.IsAlias() {
				continue
			}
			n, _ := tn.Type().(*types.Named)
			if n == nil || structOf(n) == nil || n == astType || !st.reaches(n) {
				continue
			}
			if rel == "internal/ast" {
				// IR structs are subjects only when they declare a Validate method
				has := false
				for i := 0; i < n.NumMethods(); i++ {
					if n.Method(i).Name() == "Validate" {
						has = true
					}
				}
				if !has {
					continue
				}
			}
			subjects = append(subjects, n)
		}
	}
	sort.Slice(subjects, func(i, j int) bool { return subjects[i].String() < subjects[j].String() })
	for _, n := range subjects {
		st.validating(n)
	}
	validated := 0
	for _, n := range subjects {
		cons := ctx.RelPkg(n.Obj().Pkg().Path()) + "." + n.Obj().Name()
		if m := st.valMethod[n]; m != nil {
			validated++
			chains, _ := st.chainsOf(n, n, map[*types.Named]bool{n: true})
			var cs []string
			for _, c := range chains {
				cs = append(cs, c.String())
			}
			r.OK("cfgschema/ir-types-validated", cons, n.Obj().Pos(), fmt.Sprintf("method %s calls Validate on every chain reaching an IR type: %s", m.Name(), strings.Join(cs, ", ")))
			continue
		}
		walked := ""
		for _, by := range st.passed[n] {
			if st.valMethod[by] != nil && walked == "" {
				walked = by.Obj().Name()
			}
		}
		if walked != "" {
			r.OK("cfgschema/ir-types-validated", cons, n.Obj().Pos(), "walked through by the validating method of "+walked)
			continue
		}
		r.Bad("cfgschema/ir-types-validated", cons, n.Obj().Pos(), "a value of this type is decoded from the YAML configuration and holds IR types through "+strings.Join(st.missing[n], ", ")+
			": no method of the type calls Validate on them, so a `kind` given without its description reaches the accessors of ast.Type, which dereference a nil pointer")
	}
	r.Count("configuration structs holding IR types", len(subjects))
	r.Count("configuration structs with a validating method", validated)
	r.Count("Validate calls on field chains", st.calls)
	r.Floor("configuration structs holding IR types", 8)
	r.Floor("configuration structs with a validating method", 6)
}

func c04TypeValidationTotal(ctx *Ctx, r *Report, st *c04vState) {
	m := ctx.LookupMethod("internal/ast", "Type", "Validate")
	if m == nil {
		r.Bad("cfgschema/type-validation-total", "internal/ast.Type.Validate", token.NoPos, "ast.Type has no Validate method: IR types decoded from configuration cannot be checked before their accessors dereference the kind pointers")
		return
	}
	fd, p := ctx.DeclOf(m)
	if fd == nil || fd.Body == nil {
		r.Undecided("anchor lost: body of ast.Type.Validate")
		return
	}
	info := p.TypesInfo
	errT := types.Universe.Lookup("error").Type()
	recv := info.Defs[fd.Recv.List[0].Names[0]]
	// Kind constants and the payload member of each: read from the As<K>() accessors? The pairing is
	// by the accessor bodies `return *t.<Member>` guarded by Is<K>() { Kind == Kind<K> }; here the
	// pairing is derived from the Is<K> predicates and the member of the same name.
	kindT := ctx.LookupType("internal/ast", "Kind")
	if kindT == nil {
		r.Undecided("anchor lost: ast.Kind")
		return
	}
	kinds := map[string]*types.Const{}
	scope := p.Types.Scope()
	for _, name := range scope.Names() {
		if c, ok := scope.Lookup(name).(*types.Const); ok && types.Identical(c.Type(), kindT) {
			kinds[name] = c
		}
	}
	member := c04KindMembers(ctx, p, kinds)
	var sw *ast.SwitchStmt
	ast.Inspect(fd.Body, func(n ast.Node) bool {
		if x, ok := n.(*ast.SwitchStmt); ok && sw == nil && x.Tag != nil {
			if s, ok := ast.Unparen(x.Tag).(*ast.SelectorExpr); ok && s.Sel.Name == "Kind" && isIdentOf(info, s.X, recv) {
				sw = x
			}
		}
		return true
	})
	if sw == nil {
		r.Bad("cfgschema/type-validation-total", "internal/ast.Type.Validate", fd.Pos(), "no switch on the kind of the receiver")
		return
	}
	clauseOf := map[string]*ast.CaseClause{}
	var deflt *ast.CaseClause
	for _, s := range sw.Body.List {
		cc := s.(*ast.CaseClause)
		if cc.List == nil {
			deflt = cc
		}
		for _, e := range cc.List {
			if id, ok := ast.Unparen(e).(*ast.Ident); ok {
				if c, ok := info.Uses[id].(*types.Const); ok {
					clauseOf[c.Name()] = cc
				}
			}
		}
	}
	names := make([]string, 0, len(kinds))
	for k := range kinds {
		names = append(names, k)
	}
	sort.Strings(names)
	typeS := structOf(st.astType)
	for _, k := range names {
		cons := "internal/ast.Type.Validate case " + k
		cc := clauseOf[k]
		if cc == nil {
			r.Bad("cfgschema/type-validation-total", cons, sw.Pos(), "no clause for this kind: a type of that kind given in configuration is accepted (or rejected) without its payload pointer being tested")
			continue
		}
		mem := member[k]
		if mem == "" {
			r.Undecided("no payload member found for %s", k)
			continue
		}
		// (a) nil test of the payload that leaves with an error
		nilTested := false
		ast.Inspect(cc, func(n ast.Node) bool {
			is, ok := n.(*ast.IfStmt)
			if !ok {
				return true
			}
			if be, ok := ast.Unparen(is.Cond).(*ast.BinaryExpr); ok && be.Op == token.EQL && isNilIdent(info, be.Y) {
				if s, ok := ast.Unparen(be.X).(*ast.SelectorExpr); ok && s.Sel.Name == mem && isIdentOf(info, s.X, recv) && blockReturnsError(info, is.Body, errT) {
					nilTested = true
				}
			}
			return true
		})
		if !nilTested {
			r.Bad("cfgschema/type-validation-total", cons, cc.Pos(), "the clause does not reject a nil ."+mem+": As"+strings.TrimPrefix(k, "Kind")+"() dereferences it")
			continue
		}
		// (b) nested types of the payload are validated
		var want []string
		var fieldT types.Type
		for i := 0; i < typeS.NumFields(); i++ {
			if typeS.Field(i).Name() == mem {
				fieldT = typeS.Field(i).Type()
			}
		}
		if pn, _ := stripContainers(fieldT).(*types.Named); pn != nil {
			chains, _ := st.chainsOf(pn, nil, map[*types.Named]bool{pn: true})
			for _, c := range chains {
				if c.end == st.astType {
					want = append(want, mem+"."+c.String())
				}
			}
		}
		found := st.validatedChains(p, &ast.FuncDecl{Name: fd.Name, Recv: fd.Recv, Type: fd.Type, Body: &ast.BlockStmt{List: cc.Body}}, recv, st.astType)
		var miss []string
		for _, w := range want {
			if !found[w] {
				miss = append(miss, w)
			}
		}
		// (c') the two invariants the front-ends give beyond "the payload is there": a constraint carries an argument
		// (jennies and WithTypeConstraints read Args[0]) and the type of an enum member is a scalar (they call AsScalar on it)
		if k == "KindScalar" {
			argsTested := false
			ast.Inspect(cc, func(n ast.Node) bool {
				if is, ok := n.(*ast.IfStmt); ok {
					txt := exprString(is.Cond)
					if strings.Contains(txt, "len(") && strings.Contains(txt, ".Args") && strings.Contains(txt, "== 0") && blockReturnsError(info, is.Body, errT) {
						argsTested = true
					}
				}
				return true
			})
			if !argsTested {
				miss = append(miss, "a constraint without argument is not rejected")
			}
		}
		if k == "KindEnum" {
			memberKind := false
			ast.Inspect(cc, func(n ast.Node) bool {
				if is, ok := n.(*ast.IfStmt); ok {
					txt := exprString(is.Cond)
					if strings.Contains(txt, ".Type.Kind") && strings.Contains(txt, "KindScalar") && blockReturnsError(info, is.Body, errT) {
						memberKind = true
					}
				}
				return true
			})
			if !memberKind {
				miss = append(miss, "a member whose type is not a scalar is not rejected")
			}
		}
		// (c) emptiness of enums and unions
		if k == "KindEnum" || k == "KindDisjunction" {
			lenTested := false
			ast.Inspect(cc, func(n ast.Node) bool {
				if is, ok := n.(*ast.IfStmt); ok {
					txt := exprString(is.Cond)
					if strings.Contains(txt, "len(") && strings.Contains(txt, "."+mem+".") && strings.Contains(txt, "== 0") && blockReturnsError(info, is.Body, errT) {
						lenTested = true
					}
				}
				return true
			})
			if !lenTested {
				miss = append(miss, "len(."+mem+".…) == 0 is not rejected")
			}
		}
		if len(miss) > 0 {
			r.Bad("cfgschema/type-validation-total", cons, cc.Pos(), "the clause does not cover: "+strings.Join(miss, ", "))
			continue
		}
		r.OK("cfgschema/type-validation-total", cons, cc.Pos(), "rejects a nil ."+mem+" and validates "+fmt.Sprint(want))
	}
	// unknown kinds
	if deflt == nil || !blockReturnsError(info, &ast.BlockStmt{List: deflt.Body}, errT) {
		r.Bad("cfgschema/type-validation-total", "internal/ast.Type.Validate default", sw.Pos(), "a kind that is none of the constants is not rejected")
	} else {
		r.OK("cfgschema/type-validation-total", "internal/ast.Type.Validate default", deflt.Pos(), "unknown kinds are rejected")
	}
	r.Count("kinds of ast.Type", len(kinds))
	r.Floor("kinds of ast.Type", 10)
}

// c04KindMembers pairs every Kind constant with the pointer member of ast.Type its accessor dereferences:
// As<K>() is `return *t.<Member>` and Is<K>() compares Kind with the constant.
func c04KindMembers(ctx *Ctx, p *packages.Package, kinds map[string]*types.Const) map[string]string {
	out := map[string]string{}
	info := p.TypesInfo
	isOf := map[string]string{} // Is<K> suffix -> constant
	asOf := map[string]string{} // As<K> suffix -> member
	for _, file := range p.Syntax {
		for _, d := range file.Decls {
			fd, ok := d.(*ast.FuncDecl)
			if !ok || fd.Recv == nil || fd.Body == nil || len(fd.Body.List) != 1 {
				continue
			}
			if rn := namedOf(info.TypeOf(fd.Recv.List[0].Type)); rn == nil || rn.Obj().Name() != "Type" {
				continue
			}
			ret, ok := fd.Body.List[0].(*ast.ReturnStmt)
			if !ok || len(ret.Results) != 1 {
				continue
			}
			switch {
			case strings.HasPrefix(fd.Name.Name, "Is"):
				if be, ok := ast.Unparen(ret.Results[0]).(*ast.BinaryExpr); ok && be.Op == token.EQL {
					if id, ok := ast.Unparen(be.Y).(*ast.Ident); ok {
						if c, ok := info.Uses[id].(*types.Const); ok && kinds[c.Name()] != nil {
							isOf[strings.TrimPrefix(fd.Name.Name, "Is")] = c.Name()
						}
					}
				}
			case strings.HasPrefix(fd.Name.Name, "As"):
				if st, ok := ast.Unparen(ret.Results[0]).(*ast.StarExpr); ok {
					if s, ok := ast.Unparen(st.X).(*ast.SelectorExpr); ok {
						asOf[strings.TrimPrefix(fd.Name.Name, "As")] = s.Sel.Name
					}
				}
			}
		}
	}
	for suffix, k := range isOf {
		if m, ok := asOf[suffix]; ok {
			out[k] = m
		}
	}
	return out
}
