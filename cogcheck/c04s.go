package main

import (
	"go/ast"
	"go/token"
	"go/types"
	"strconv"
	"strings"

	"golang.org/x/tools/go/packages"
)

// C04/C05 — IR nodes taken from another object are copied before they are stored elsewhere.
//
// ast.Type is copied by value but its kind payloads (*ArrayType, *MapType, *DisjunctionType, …) are
// pointers: a Type fetched from an object (Resolve*/Locate*/…) and stored as it is into another place
// of the IR makes two objects share a node, and the generic Visitor rewrites nodes in place — the
// second visit then rewrites what the first one already produced (unbounded growth on recursive
// definitions, edits leaking between objects).

// irCarrier: t is (a container of) an IR type value that shares pointers when copied.
func irCarrier(t types.Type) bool {
	if t == nil {
		return false
	}
	n, _ := stripContainers(t).(*types.Named)
	if n == nil || n.Obj().Pkg() == nil || n.Obj().Pkg().Path() != astPkgPath {
		return false
	}
	switch n.Obj().Name() {
	case "Type", "StructField", "DisjunctionType", "ArrayType", "MapType", "StructType", "EnumType", "IntersectionType", "Object":
		return true
	}
	return false
}

type sharedSink struct {
	pos  token.Pos
	what string
	expr ast.Expr
	from ast.Expr
}

// lookedUpCarriers: locals of fd that hold, uncopied, (a part of) the result of a lookup.
func lookedUpCarriers(info *types.Info, body ast.Node, like map[*types.Func]bool) (map[types.Object]ast.Expr, func(ast.Expr) ast.Expr) {
	derived := map[types.Object]ast.Expr{}
	var carries func(e ast.Expr) ast.Expr
	carries = func(e ast.Expr) ast.Expr {
		switch x := ast.Unparen(e).(type) {
		case *ast.Ident:
			return derived[objOf(info, x)]
		case *ast.SelectorExpr:
			if sel, ok := info.Selections[x]; ok && sel.Kind() == types.FieldVal {
				return carries(x.X)
			}
		case *ast.IndexExpr:
			return carries(x.X)
		case *ast.SliceExpr:
			return carries(x.X)
		case *ast.StarExpr:
			return carries(x.X)
		case *ast.UnaryExpr:
			if x.Op == token.AND {
				return carries(x.X)
			}
		case *ast.CallExpr:
			fn := callee(info, x)
			if fn == nil {
				return nil
			}
			if isLookupFunc(fn) || like[fn.Origin()] {
				if sig, _ := fn.Type().(*types.Signature); sig != nil && sig.Results().Len() > 0 && irCarrier(sig.Results().At(0).Type()) {
					return x
				}
				return nil
			}
			// accessors of a carried value: t.AsDisjunction(), t.AsStruct(), …
			if sel, ok := ast.Unparen(x.Fun).(*ast.SelectorExpr); ok && strings.HasPrefix(fn.Name(), "As") && fn.Pkg() != nil && fn.Pkg().Path() == astPkgPath {
				return carries(sel.X)
			}
		}
		return nil
	}
	closures := map[types.Object]*ast.FuncLit{}
	ast.Inspect(body, func(m ast.Node) bool {
		if as, ok := m.(*ast.AssignStmt); ok && len(as.Lhs) == 1 && len(as.Rhs) == 1 {
			if lit, ok := as.Rhs[0].(*ast.FuncLit); ok {
				if id, ok := as.Lhs[0].(*ast.Ident); ok {
					closures[objOf(info, id)] = lit
				}
			}
		}
		return true
	})
	for changed := true; changed; {
		changed = false
		ast.Inspect(body, func(m ast.Node) bool {
			mark := func(l ast.Expr, from ast.Expr) {
				id, ok := l.(*ast.Ident)
				if !ok || id.Name == "_" || from == nil {
					return
				}
				o := objOf(info, id)
				if o == nil || !irCarrier(o.Type()) {
					return
				}
				if _, seen := derived[o]; !seen {
					derived[o] = from
					changed = true
				}
			}
			switch x := m.(type) {
			case *ast.CallExpr:
				// arguments of a closure bound in this function reach its parameters
				if id, ok := ast.Unparen(x.Fun).(*ast.Ident); ok {
					if lit := closures[objOf(info, id)]; lit != nil {
						k := 0
						for _, f := range lit.Type.Params.List {
							for _, nm := range f.Names {
								if k < len(x.Args) {
									mark(nm, carries(x.Args[k]))
								}
								k++
							}
						}
					}
				}
			case *ast.AssignStmt:
				if len(x.Lhs) == len(x.Rhs) {
					for i := range x.Lhs {
						mark(x.Lhs[i], carries(x.Rhs[i]))
					}
				} else if len(x.Rhs) == 1 {
					mark(x.Lhs[0], carries(x.Rhs[0]))
				}
			case *ast.RangeStmt:
				if x.Value != nil {
					mark(x.Value, carries(x.X))
				}
			case *ast.ValueSpec:
				for i, nm := range x.Names {
					if i < len(x.Values) {
						mark(nm, carries(x.Values[i]))
					}
				}
			}
			return true
		})
	}
	return derived, carries
}

func sharedNodeSinks(p *packages.Package, fd *ast.FuncDecl, like map[*types.Func]bool) []sharedSink {
	info := p.TypesInfo
	_, carries := lookedUpCarriers(info, fd.Body, like)
	var out []sharedSink
	add := func(pos token.Pos, what string, e ast.Expr) {
		if !irCarrier(info.TypeOf(e)) {
			return
		}
		if from := carries(e); from != nil {
			out = append(out, sharedSink{pos, what, e, from})
		}
	}
	ast.Inspect(fd.Body, func(m ast.Node) bool {
		switch x := m.(type) {
		case *ast.CallExpr:
			if isBuiltinCall(info, x, "append") {
				for _, a := range x.Args[1:] {
					add(a.Pos(), "appended", a)
				}
				return true
			}
			fn := callee(info, x)
			if fn == nil {
				// calls of local closures: arguments stored by the closure are judged at its own sinks
				return true
			}
			if fn.Pkg() != nil && fn.Pkg().Path() == astPkgPath && strings.HasPrefix(fn.Name(), "New") {
				for _, a := range x.Args {
					add(a.Pos(), "given to the constructor "+fn.Name(), a)
				}
			}
			if fn.Name() == "Set" || fn.Name() == "Add" {
				if fn.Pkg() != nil && strings.Contains(fn.Pkg().Path(), "orderedmap") {
					for _, a := range x.Args {
						add(a.Pos(), "stored in an ordered map", a)
					}
				}
			}
		case *ast.AssignStmt:
			for i, l := range x.Lhs {
				if len(x.Lhs) != len(x.Rhs) {
					break
				}
				switch ast.Unparen(l).(type) {
				case *ast.SelectorExpr, *ast.IndexExpr, *ast.StarExpr:
					add(x.Rhs[i].Pos(), "stored into "+exprString(l), x.Rhs[i])
				}
			}
		case *ast.CompositeLit:
			for _, el := range x.Elts {
				if kv, ok := el.(*ast.KeyValueExpr); ok {
					add(kv.Value.Pos(), "placed in a "+exprString(x.Type)+" literal", kv.Value)
				} else {
					add(el.Pos(), "placed in a "+exprString(x.Type)+" literal", el)
				}
			}
		}
		return true
	})
	return out
}

// reviewed stores of an uncopied looked-up node (one reason each)
var c04SharedNodeTable = map[string]string{
	"internal/ast/compiler.RemoveIntersections.processObject given to the constructor NewStruct locatedObject.Type.AsStruct().Fields": "ownership moves: the located object is recorded in objectsToRemove in the same branch and removed from the schema at the end of the pass, so the fields have a single owner again",
	"internal/ast/compiler.RemoveIntersections.processObject stored into r.arraysToFix[object.Name] locatedObject":                    "pass state read once by processStruct, which builds fresh fields from its name and comments only",
	"internal/ast/compiler.FilterSchemas.buildAllowList stored in an ordered map obj":                                                 "work list of the reachability walk: the objects are only visited with callbacks that return their argument unchanged",
	"internal/ast/compiler.FilterSchemas.buildAllowList stored in an ordered map referredObj":                                         "work list of the reachability walk: the objects are only visited with callbacks that return their argument unchanged",
}

func c04SharedNodes(ctx *Ctx, r *Report, g *callGraph) {
	like := c04LookupLike(ctx, g)
	funcs, sinks := 0, 0
	ctx.AllFuncDecls(func(p *packages.Package, fd *ast.FuncDecl, obj *types.Func) {
		if fd.Body == nil {
			return
		}
		rel := ctx.RelPkg(p.PkgPath)
		if !strings.HasPrefix(rel, "internal/ast/compiler") && !(strings.HasPrefix(rel, "internal/jennies/") && isPassMethod(obj)) {
			return
		}
		funcs++
		seen := map[string]int{}
		for _, s := range sharedNodeSinks(p, fd, like) {
			sinks++
			key := ctx.FuncName(obj) + " " + s.what + " " + exprString(s.expr)
			seen[key]++
			cons := key
			if seen[key] > 1 {
				cons = key + " #" + strconv.Itoa(seen[key])
			}
			if why, ok := c04SharedNodeTable[key]; ok {
				r.OK("traverse/looked-up-nodes-copied", cons, s.pos, "reviewed: "+why)
				continue
			}
			r.Bad("traverse/looked-up-nodes-copied", cons, s.pos, exprString(s.expr)+" is (a part of) what "+exprString(s.from)+" returned — a node that belongs to another object — and is "+s.what+
				" without DeepCopy(): two places of the IR then share the node, and the visitors rewrite nodes in place (on recursive definitions every visit re-expands what the previous one produced: unbounded growth)")
		}
	})
	r.Count("pass functions scanned for shared IR nodes", funcs)
	r.Count("stores of looked-up IR nodes", sinks)
	r.Floor("pass functions scanned for shared IR nodes", 120)
	r.Floor("stores of looked-up IR nodes", 4)
}

func isPassMethod(fn *types.Func) bool {
	sig, _ := fn.Type().(*types.Signature)
	if sig == nil || sig.Recv() == nil {
		return false
	}
	n := namedOf(sig.Recv().Type())
	if n == nil {
		return false
	}
	for i := 0; i < n.NumMethods(); i++ {
		if n.Method(i).Name() == "Process" {
			return true
		}
	}
	return false
}
