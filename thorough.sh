#!/bin/bash
# thorough tier: the quick rules at tier=thorough on the repo, plus checker self-validation:
# every registered mutant (mutants/<prop>/*.mut, one rule instance broken each) is applied to a scratch
# copy of the CURRENT repo tree and must be reported by the check. A mutant that no longer applies is
# 'skipped'; one that applies but is not detected makes the run UNDECIDED (exit 2) — it says the checker
# lost sensitivity, nothing about cog.
set -u
here="$(cd "$(dirname "$0")" && pwd)"
prop="$1"; repo="${2:-/repo}"
export GOFLAGS=-mod=mod GOPROXY=off GOSUMDB=off GOTOOLCHAIN=local; unset GOWORK
bin="$here/bin/cogcheck"
"$bin" -property "$prop" -tier thorough -repo "$repo" -verif "$here"
rc=$?
[ $rc -eq 1 ] && exit 1
det=0; skip=0; miss=0; names_missed=""; results=""
shopt -s nullglob
muts=("$here"/mutants/"$prop"/*.mut)
run_one() {
  local m="$1" S V out mrc
  S=$(mktemp -d /tmp/cogmut.XXXXXX); V=$(mktemp -d /tmp/cogmutv.XXXXXX)
  rsync -a --exclude .git --exclude testdata "$repo"/ "$S"/
  cp "$here/known_findings.txt" "$V/" 2>/dev/null
  if ! python3 "$here/mutants/mut.py" "$S" "$m" >"$V/apply.log" 2>&1; then
    echo "skipped $(basename "$m") ($(head -1 "$V/apply.log"))"
  else
    out=$("$bin" -property "$prop" -tier quick -repo "$S" -verif "$V" 2>&1); mrc=$?
    if [ $mrc -eq 1 ] && grep -q "^VIOLATION property=$prop" <<<"$out"; then
      echo "detected $(basename "$m") :: $(grep -m1 'violated:' <<<"$out" | sed 's/^ *//' | cut -c1-220)"
    elif [ $mrc -eq 2 ]; then
      echo "undecided $(basename "$m") :: $(grep -m1 UNDECIDED <<<"$out" | cut -c1-200)"
    else
      echo "MISSED $(basename "$m")"
    fi
  fi
  rm -rf "$S" "$V"
}
export -f run_one; export here prop repo bin
if [ ${#muts[@]} -gt 0 ]; then
  results=$(printf '%s\n' "${muts[@]}" | xargs -P 8 -I{} bash -c 'run_one "$@"' _ {})
fi
echo "-- self-validation for $prop (${#muts[@]} mutants)"
echo "$results" | sed 's/^/   /'
det=$(grep -c '^detected' <<<"$results"); skip=$(grep -c '^skipped' <<<"$results"); miss=$(grep -c '^MISSED' <<<"$results"); und=$(grep -c '^undecided' <<<"$results")
python3 - "$here/evidence/$prop.json" "$det" "$skip" "$miss" "$und" <<PY
import json,sys
p,det,skip,miss,und=sys.argv[1],*map(int,sys.argv[2:])
e=json.load(open(p))
e['coverage']['self_validation']={'mutants_detected':det,'mutants_skipped':skip,'mutants_missed':miss,'mutants_undecided':und,
  'results':"""$results""".strip().split('\n') if """$results""".strip() else []}
json.dump(e,open(p,'w'),indent=1)
PY
if [ "$miss" -gt 0 ]; then
  echo "UNDECIDED property=$prop reason=checker lost sensitivity: $miss registered mutant(s) not detected"
  exit 2
fi
exit $rc
