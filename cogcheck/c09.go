package main

// C09 — builder options set exactly their target; invalid input is reported.
// Engines E6 (ordering), E11 (template skeleton), E5 (operator table).

import (
	"fmt"
	"go/ast"
	"go/constant"
	"go/token"
	"go/types"
	"regexp"
	"sort"
	"strings"
	"text/template/parse"

	"golang.org/x/tools/go/packages"
)

func init() { register("C09", checkC09) }

// the constraint operators a template has to translate, with the comparison
// the target languages use (operators that are valid as is are not listed).
var lengthOps = map[string]string{"minLength": ">=", "maxLength": "<="}

// operators whose IR spelling is itself a valid comparison operator in every target language
var verbatimOps = map[string]bool{"==": true, "!=": true, "<": true, "<=": true, ">": true, ">=": true}

func checkC09(ctx *Ctx, r *Report) {
	r.Explanation = "Generator-side necessary conditions for builders, decided from Go source and from the parsed builder templates: (1) nil checks are generated after veneers — in Pipeline.ContextForLanguage the calls FromAST → Rewriter.ApplyTo → GenerateBuilderNilChecks occur in that order on the path that returns builders, the nil-check visitor's bookkeeping is reset at every scope entry, and in every language the assignment template renders the nil checks (and, outside Go, the argument constraints) before the assignment itself; (2) errors recorded are errors reported — every field of the emitted Go builder struct that the templates assign is also read by the emitted Build(); (3) validation at the documented point — the emitted Go Build() calls Validate() on the internal object and returns its error; the Python/TypeScript/PHP/Java assignment templates render the assignment's constraints; (4) the constraint templates translate every operator a parser can produce: length operators to the right comparison, the others verbatim only when they are valid operators of the target language; (5) assignment derivation keeps the field's constraints (see C16) and assignment paths are fresh (see C17)."
	r.NotCovered = "that an option differs from the default object exactly at its target (needs execution of generated code); Python runtime behaviour; call sequences of options; formatting of argument values."
	r.Exhaustive = true

	c09Order(ctx, r)
	c07CallbackState(ctx, r)
	c09Templates(ctx, r)
	c09WriteOnlyFields(ctx, r)
	c09OperatorTable(ctx, r)
	c09BoundAgreement(ctx, r)
	// shared: constraint derivation and path freshness
	c16OptionShape(ctx, r)
	c17Paths(ctx, r)
	inProgressRestored(ctx, r, []string{"internal/jennies/golang/validation.go"}, 1)
	c09StaleLoopState(ctx, r, []string{"internal/veneers/option", "internal/veneers/builder", "internal/ast", "internal/languages"}, 20)
	c09RatExactness(ctx, r)
	if ts, err := loadTemplates(ctx, "golang"); err == nil {
		checkLoopDepth(ctx, r, ts, recValidate)
		c08RuneLengths(ctx, r, ts)
	}
	c17MergedPathsPrefixed(ctx, r)
	c09TypedConstantSetup(ctx, r)
	c09UnfoldAccumulators(ctx, r)
	c09ConstraintsThroughReferences(ctx, r)
	c09FourthRound(ctx, r)
	c08CollapsedUnionKeepsConstraints(ctx, r)
	c09CueNumberConstraints(ctx, r)
	c09CueConstraintsThroughReferences(ctx, r)
	c09GoEnvelopeConstants(ctx, r)
	c09PythonUnionCollectionBranches(ctx, r)
	c16ThirdHunt(ctx, r)
	c09FifthHunt(ctx, r)
	c09SixthHunt(ctx, r)
	c09SeventhHunt(ctx, r)
	c08UnionReuseComparesBranches(ctx, r)
}

// (1a) order of derivation, veneers, nil checks
func c09Order(ctx *Ctx, r *Report) {
	fn := ctx.LookupMethod("internal/codegen", "Pipeline", "ContextForLanguage")
	fd, p := ctx.DeclOf(fn)
	if fd == nil {
		r.Undecided("anchor lost: Pipeline.ContextForLanguage")
		return
	}
	info := p.TypesInfo
	fromAST := ctx.LookupMethod("internal/ast", "BuilderGenerator", "FromAST")
	applyTo := ctx.LookupMethod("internal/veneers/rewrite", "Rewriter", "ApplyTo")
	nilChecks := ctx.LookupFunc("internal/languages", "GenerateBuilderNilChecks")
	pos := map[*types.Func]token.Pos{}
	cond := map[*types.Func]bool{}
	parents := parentMap(fd)
	ast.Inspect(fd.Body, func(n ast.Node) bool {
		if c, ok := n.(*ast.CallExpr); ok {
			if f := callee(info, c); f != nil && (f == fromAST || f == applyTo || f == nilChecks) {
				pos[f] = c.Pos()
				cond[f] = len(enclosingConds(parents, c)) > 0 || len(enclosingLoops(parents, c)) > 0
			}
		}
		return true
	})
	ok := pos[fromAST].IsValid() && pos[applyTo].IsValid() && pos[nilChecks].IsValid() && pos[fromAST] < pos[applyTo] && pos[applyTo] < pos[nilChecks] && !cond[fromAST] && !cond[applyTo] && !cond[nilChecks]
	r.Check(ok, "cgraph/nilchecks-after-veneers", "Pipeline.ContextForLanguage", fd.Pos(), "builders are derived, then rewritten by veneers, then nil checks are generated, unconditionally and in that order",
		"derivation → veneers → nil-check generation no longer happen unconditionally in that order: paths introduced or moved by veneers get no nil check (nil dereference in generated builders) or checks are computed for paths that veneers remove")
	// the result of the nil-check generation is what is returned
	returned := false
	ast.Inspect(fd.Body, func(n ast.Node) bool {
		as, isAs := n.(*ast.AssignStmt)
		if isAs && len(as.Rhs) == 1 {
			if c, isC := ast.Unparen(as.Rhs[0]).(*ast.CallExpr); isC && callee(info, c) == nilChecks {
				if id, isID := as.Lhs[0].(*ast.Ident); isID {
					obj := objOf(info, id)
					ast.Inspect(fd.Body, func(m ast.Node) bool {
						if rs, isR := m.(*ast.ReturnStmt); isR && rs.Pos() > as.Pos() && len(rs.Results) > 0 && isIdentOf(info, rs.Results[0], obj) {
							returned = true
						}
						return true
					})
				}
			}
		}
		return true
	})
	r.Check(returned, "cgraph/nilchecks-after-veneers", "Pipeline.ContextForLanguage result", fd.Pos(), "the context carrying the nil checks is the one returned", "the context returned to the jennies is not the one produced by GenerateBuilderNilChecks")
}

type tmplLangInfo struct {
	lang      string
	ts        *tmplSet
	hasConstr bool // the language checks constraints in the option itself
}

func builderLangs(ctx *Ctx, r *Report) []tmplLangInfo {
	var out []tmplLangInfo
	for _, l := range []struct {
		name      string
		hasConstr bool
	}{{"golang", false}, {"python", true}, {"typescript", true}, {"php", true}, {"java", true}} {
		ts, err := loadTemplates(ctx, l.name)
		if err != nil {
			r.Undecided("cannot parse %s templates: %v", l.name, err)
			continue
		}
		r.Count("template files parsed", ts.files)
		out = append(out, tmplLangInfo{l.name, ts, l.hasConstr})
	}
	return out
}

// (1b, 3) the assignment template renders nil checks (and constraints) before the assignment
func c09Templates(ctx *Ctx, r *Report) {
	for _, li := range builderLangs(ctx, r) {
		// the template that calls "assignment_method" (or writes the assignment) and ranges over NilChecks
		var tree *parse.Tree
		var name string
		for _, n := range li.ts.names() {
			t := li.ts.trees[n]
			hasNil, hasAssign := false, false
			walkTmpl(t.Root, func(m parse.Node) bool {
				if rn, ok := m.(*parse.RangeNode); ok && strings.Contains(rn.Pipe.String(), "NilChecks") {
					hasNil = true
				}
				if tn, ok := m.(*parse.TemplateNode); ok && strings.Contains(tn.Name, "assignment_method") {
					hasAssign = true
				}
				if an, ok := m.(*parse.ActionNode); ok && strings.Contains(an.String(), "assignment_method") {
					hasAssign = true
				}
				return true
			})
			if hasNil && (hasAssign || li.lang == "typescript" || li.lang == "java") {
				tree, name = t, n
				break
			}
		}
		if tree == nil {
			r.Bad("skeleton/nilchecks-rendered", li.lang+" assignment template", token.NoPos, "no "+li.lang+" builder template ranges over the assignment's NilChecks: generated options dereference nil intermediate objects")
			continue
		}
		r.Count("assignment templates", 1)
		// order: first NilChecks range < first assignment rendering
		nilPos, assignPos, consPos := parse.Pos(-1), parse.Pos(-1), parse.Pos(-1)
		walkTmpl(tree.Root, func(m parse.Node) bool {
			switch x := m.(type) {
			case *parse.RangeNode:
				if strings.Contains(x.Pipe.String(), "NilChecks") && nilPos < 0 {
					nilPos = x.Position()
				}
			case *parse.TemplateNode:
				if strings.Contains(x.Name, "assignment_method") && assignPos < 0 {
					assignPos = x.Position()
				}
				if strings.Contains(x.Name, "constraints") && consPos < 0 {
					consPos = x.Position()
				}
			case *parse.ActionNode:
				s := x.String()
				if strings.Contains(s, "assignment_method") && assignPos < 0 {
					assignPos = x.Position()
				}
				if strings.Contains(s, "\"constraints\"") && consPos < 0 {
					consPos = x.Position()
				}
			case *parse.TextNode:
				// languages that write the assignment inline: "this.internal." / "this.internal"
				if (li.lang == "typescript" || li.lang == "java") && assignPos < 0 && (strings.Contains(string(x.Text), "this.internal") && strings.Contains(string(x.Text), "=")) && x.Position() > nilPos && nilPos >= 0 {
					assignPos = x.Position()
				}
			}
			return true
		})
		cons := li.lang + " template " + name
		r.Check(nilPos >= 0 && (assignPos < 0 || nilPos < assignPos), "skeleton/nilchecks-rendered", cons, token.NoPos,
			"nil checks are rendered before the assignment ("+li.ts.file[name]+")", "the assignment is rendered before (or without) its nil checks: the generated option dereferences a nil intermediate object")
		if li.hasConstr {
			// constraints rendered in this template or in the template that renders arguments/options
			found := consPos >= 0
			if !found {
				for _, n := range li.ts.names() {
					walkTmpl(li.ts.trees[n].Root, func(m parse.Node) bool {
						s := m.String()
						if (m.Type() == parse.NodeTemplate || m.Type() == parse.NodeAction) && strings.Contains(s, "constraints") && strings.Contains(s, "Constraints") {
							found = true
						}
						return true
					})
				}
			}
			r.Check(found, "skeleton/constraints-rendered", li.lang+" options render constraints", token.NoPos, "the assignment's Constraints are handed to the constraints template",
				"no "+li.lang+" builder template renders .Assignment.Constraints: a constraint-violating argument is accepted silently")
		}
	}
	r.Floor("assignment templates", 4)
}

var goIdent = regexp.MustCompile(`builder\.([a-z][A-Za-z0-9_]*)`)

// (2, 3) the emitted Go builder: fields written are read by Build(); Build() validates
func c09WriteOnlyFields(ctx *Ctx, r *Report) {
	ts, err := loadTemplates(ctx, "golang")
	if err != nil {
		r.Undecided("cannot parse golang templates: %v", err)
		return
	}
	// the builder template: declares `type …Builder struct` and `Build()`
	var builderTree *parse.Tree
	for _, n := range ts.names() {
		txt := tmplText(ts.trees[n].Root)
		if strings.Contains(txt, "Builder struct {") && strings.Contains(txt, ") Build() (") {
			builderTree = ts.trees[n]
		}
	}
	if builderTree == nil {
		r.Undecided("anchor lost: golang builder template (struct + Build())")
		return
	}
	full := tmplText(builderTree.Root)
	// struct fields (lower-case identifiers declared in the struct block, literal ones)
	structStart := strings.Index(full, "Builder struct {")
	structEnd := structStart + strings.Index(full[structStart:], "\n}")
	fieldRe := regexp.MustCompile(`(?m)^\s*([a-z][A-Za-z0-9_]*)\s+[\*\[a-zA-Z]`)
	var fields []string
	for _, m := range fieldRe.FindAllStringSubmatch(full[structStart:structEnd], -1) {
		fields = append(fields, m[1])
	}
	// Build() body
	bStart := strings.Index(full, ") Build() (")
	bEnd := bStart + strings.Index(full[bStart:], "\n}")
	buildBody := full[bStart:bEnd]
	okValidate := strings.Contains(buildBody, "builder.internal.Validate()") && regexp.MustCompile(`return [^\n]*, err`).MatchString(buildBody)
	r.Check(okValidate, "skeleton/build-validates", "golang Build()", token.NoPos, "the emitted Build() calls Validate() on the internal object and returns its error",
		"the emitted Go Build() no longer validates the built object (or drops the error): constraint violations are not reported")
	// writes across all builder templates
	written := map[string]bool{}
	assignRe := regexp.MustCompile(`builder\.([a-z][A-Za-z0-9_]*)(\[[^\]]*\])?\s*=[^=]`)
	for _, n := range ts.names() {
		if !strings.HasPrefix(ts.file[n], "internal/jennies/golang/templates/builders") {
			continue
		}
		txt := tmplText(ts.trees[n].Root)
		for _, m := range assignRe.FindAllStringSubmatch(txt, -1) {
			written[m[1]] = true
		}
	}
	sort.Strings(fields)
	r.Count("emitted builder struct fields", len(fields))
	for _, f := range fields {
		if !written[f] {
			continue
		}
		read := false
		for _, m := range goIdent.FindAllStringSubmatch(buildBody, -1) {
			if m[1] == f {
				read = true
			}
		}
		r.Check(read, "skeleton/write-only-field", "golang builder field "+f, token.NoPos, "assigned by the option templates and read by Build()",
			fmt.Sprintf("the emitted builder stores into builder.%s (option templates) but the emitted Build() never reads it: what is recorded there — the error of a failing nested builder — is never reported", f))
	}
	r.Floor("emitted builder struct fields", 2)
}

// (4) operator table of the constraint templates
func c09OperatorTable(ctx *Ctx, r *Report) {
	// operators produced by the parsers: every ast.Op constant used in a composite literal / assignment in the parser packages
	produced := map[string]bool{}
	astPkg := ctx.Pkg("internal/ast")
	opT := ctx.LookupType("internal/ast", "Op")
	opValue := map[types.Object]string{}
	if astPkg != nil && opT != nil {
		for _, n := range astPkg.Types.Scope().Names() {
			if c, ok := astPkg.Types.Scope().Lookup(n).(*types.Const); ok && types.Identical(c.Type(), opT) {
				opValue[c] = strings.Trim(c.Val().ExactString(), "\"")
			}
		}
	}
	for _, rel := range []string{"internal/jsonschema", "internal/openapi", "internal/simplecue"} {
		p := ctx.Pkg(rel)
		if p == nil {
			continue
		}
		for _, f := range p.Syntax {
			ast.Inspect(f, func(n ast.Node) bool {
				if id, ok := n.(*ast.Ident); ok {
					if v, ok := opValue[p.TypesInfo.Uses[id]]; ok {
						produced[v] = true
					}
				}
				return true
			})
		}
	}
	// simplecue derives operators from CUE's own operator names: conversions ast.Op(x)
	var ops []string
	for v := range produced {
		ops = append(ops, v)
	}
	sort.Strings(ops)
	r.Note("constraint operators produced by the parsers: %v", ops)
	if len(ops) < 6 {
		r.Undecided("anchor lost: fewer than 6 constraint operators found in the parsers (%v)", ops)
	}

	type consumer struct {
		lang, file string
		tree       *parse.Tree
		ts         *tmplSet
		name       string
	}
	var consumers []consumer
	for _, li := range builderLangs(ctx, r) {
		for _, n := range li.ts.names() {
			if n == "constraints" || n == "type_constraints" {
				consumers = append(consumers, consumer{li.lang, li.ts.file[n], li.ts.trees[n], li.ts, n})
			}
		}
	}
	r.Count("constraint templates", len(consumers))
	r.Floor("constraint templates", 5)
	for _, c := range consumers {
		// explicit cases: {{ if eq .Op "<op>" }} … {{ $operator = "<cmp>" }}
		cases := map[string]string{}
		walkTmpl(c.tree.Root, func(m parse.Node) bool {
			in, ok := m.(*parse.IfNode)
			if !ok {
				return true
			}
			cond := in.Pipe.String()
			if !strings.Contains(cond, "eq") || !strings.Contains(cond, ".Op") {
				return true
			}
			for op := range produced {
				if strings.Contains(cond, "\""+op+"\"") {
					cmp := "?"
					walkTmpl(in.List, func(k parse.Node) bool {
						if an, ok := k.(*parse.ActionNode); ok && len(an.Pipe.Decl) == 1 && strings.Contains(an.Pipe.Decl[0].String(), "operator") {
							if len(an.Pipe.Cmds) == 1 && len(an.Pipe.Cmds[0].Args) == 1 {
								if s, ok := an.Pipe.Cmds[0].Args[0].(*parse.StringNode); ok {
									cmp = s.Text
								} else {
									cmp = "computed:" + an.Pipe.Cmds[0].String()
								}
							} else if v, ok := evalTernaryOnOp(an.Pipe, op); ok {
								cmp = v
							} else {
								cmp = "computed:" + an.Pipe.String()
							}
						}
						return true
					})
					cases[op] = cmp
				}
			}
			return true
		})
		for _, op := range ops {
			cons := fmt.Sprintf("%s %s handles %s", c.lang, c.name, op)
			want, isLength := lengthOps[op]
			got, explicit := cases[op]
			switch {
			case isLength:
				r.Check(explicit && got == want, "kinds/operator-table", cons, token.NoPos, "translated to "+want+" on the length",
					fmt.Sprintf("%s: operator %s is translated to %q instead of %q on the value's length (%s): arguments that satisfy the schema are rejected, or violating ones accepted", c.file, op, got, want, c.file))
			case explicit:
				r.OK("kinds/operator-table", cons, token.NoPos, "explicit case → "+got)
			case verbatimOps[op]:
				r.OK("kinds/operator-table", cons, token.NoPos, "used verbatim: a valid comparison operator of the target language")
			default:
				r.Bad("kinds/operator-table", cons, token.NoPos, fmt.Sprintf("%s has no case for operator %q, which a parser can produce: it is emitted verbatim as if it were a comparison operator, i.e. syntactically broken generated code (no error is returned)", c.file, op))
			}
		}
	}
}

// evalTernaryOnOp evaluates `ternary "A" "B" (eq .Op "Z")` for a given operator.
func evalTernaryOnOp(p *parse.PipeNode, op string) (string, bool) {
	if len(p.Cmds) != 1 || len(p.Cmds[0].Args) != 4 {
		return "", false
	}
	args := p.Cmds[0].Args
	if id, ok := args[0].(*parse.IdentifierNode); !ok || id.Ident != "ternary" {
		return "", false
	}
	a, okA := args[1].(*parse.StringNode)
	b, okB := args[2].(*parse.StringNode)
	cond, okC := args[3].(*parse.PipeNode)
	if !okA || !okB || !okC || len(cond.Cmds) != 1 || len(cond.Cmds[0].Args) != 3 {
		return "", false
	}
	ca := cond.Cmds[0].Args
	if id, ok := ca[0].(*parse.IdentifierNode); !ok || id.Ident != "eq" {
		return "", false
	}
	if f, ok := ca[1].(*parse.FieldNode); !ok || len(f.Ident) != 1 || f.Ident[0] != "Op" {
		return "", false
	}
	z, ok := ca[2].(*parse.StringNode)
	if !ok {
		return "", false
	}
	if z.Text == op {
		return a.Text, true
	}
	return b.Text, true
}

// c09BoundAgreement: in the JSON-family parsers a bound keyword is turned into a constraint inside an
// `if schema.<Field> …` block. Keyword, exclusivity flag and operator must agree: a block guarded by a
// *Min* field mentions no *Max* field of the schema library and produces only lower-bound operators
// (and conversely); the strict operator is produced exactly under the Exclusive flag of the same bound.
func c09BoundAgreement(ctx *Ctx, r *Report) {
	stemOf := func(name string) string {
		l := strings.ToLower(name)
		hasMin, hasMax := strings.Contains(l, "min"), strings.Contains(l, "max")
		switch {
		case hasMin && !hasMax:
			return "min"
		case hasMax && !hasMin:
			return "max"
		}
		return ""
	}
	opDir := map[string]string{"GreaterThanOp": "min", "GreaterThanEqualOp": "min", "MinLengthOp": "min", "MinItemsOp": "min",
		"LessThanOp": "max", "LessThanEqualOp": "max", "MaxLengthOp": "max", "MaxItemsOp": "max"}
	strict := map[string]bool{"GreaterThanOp": true, "LessThanOp": true}
	nonStrict := map[string]bool{"GreaterThanEqualOp": true, "LessThanEqualOp": true}
	blocks := 0
	for _, rel := range []string{"internal/jsonschema", "internal/openapi"} {
		p := ctx.Pkg(rel)
		if p == nil {
			r.Undecided("package %s not found", rel)
			continue
		}
		info := p.TypesInfo
		libField := func(e ast.Expr) *types.Var {
			f := fieldOf(info, e)
			if f == nil || f.Pkg() == nil || strings.HasPrefix(f.Pkg().Path(), modulePath) {
				return nil
			}
			return f
		}
		for _, file := range p.Syntax {
			var fn string
			ast.Inspect(file, func(n ast.Node) bool {
				if fd, ok := n.(*ast.FuncDecl); ok {
					fn = fd.Name.Name
				}
				is, ok := n.(*ast.IfStmt)
				if !ok {
					return true
				}
				// the guard mentions exactly one library field with a bound stem
				var guard *types.Var
				ast.Inspect(is.Cond, func(k ast.Node) bool {
					if e, ok := k.(ast.Expr); ok {
						if f := libField(e); f != nil && stemOf(f.Name()) != "" {
							guard = f
						}
					}
					return true
				})
				if guard == nil {
					return true
				}
				stem := stemOf(guard.Name())
				// operators and library fields in the body
				type use struct {
					name      string
					pos       token.Pos
					underExcl bool
				}
				var ops []use
				var fields []use
				var walk func(n ast.Node, underExcl bool)
				walk = func(n ast.Node, underExcl bool) {
					ast.Inspect(n, func(k ast.Node) bool {
						switch x := k.(type) {
						case *ast.IfStmt:
							if k == n {
								return true
							}
							ex := underExcl
							ast.Inspect(x.Cond, func(q ast.Node) bool {
								if e, ok := q.(ast.Expr); ok {
									if f := libField(e); f != nil && strings.Contains(f.Name(), "Exclusive") {
										ex = true
										fields = append(fields, use{f.Name(), e.Pos(), false})
									}
								}
								return true
							})
							walk(x.Body, ex)
							if x.Else != nil {
								walk(x.Else, underExcl)
							}
							return false
						case *ast.SelectorExpr:
							if f := libField(x); f != nil && stemOf(f.Name()) != "" {
								fields = append(fields, use{f.Name(), x.Pos(), underExcl})
							}
							if c, ok := info.Uses[x.Sel].(*types.Const); ok && c.Pkg() != nil && c.Pkg().Path() == astPkgPath {
								if _, known := opDir[c.Name()]; known {
									ops = append(ops, use{c.Name(), x.Pos(), underExcl})
								}
							}
						}
						return true
					})
				}
				walk(is.Body, false)
				if len(ops) == 0 {
					return true
				}
				blocks++
				cons := fmt.Sprintf("%s.%s block on %s", rel, fn, guard.Name())
				bad := ""
				for _, f := range fields {
					if stemOf(f.name) != stem {
						bad = fmt.Sprintf("the block guarded by %s reads %s (at %s): the flag of the other bound decides this one", guard.Name(), f.name, ctx.Pos(f.pos))
					}
				}
				guardExclusive := strings.Contains(guard.Name(), "Exclusive")
				for _, o := range ops {
					if opDir[o.name] != stem {
						bad = fmt.Sprintf("the block guarded by %s produces %s (at %s): a lower bound is emitted as an upper bound or conversely", guard.Name(), o.name, ctx.Pos(o.pos))
					}
					wantStrict := guardExclusive || o.underExcl
					if strict[o.name] && !wantStrict {
						bad = fmt.Sprintf("the block guarded by %s produces the strict operator %s outside any Exclusive test (at %s)", guard.Name(), o.name, ctx.Pos(o.pos))
					}
					if nonStrict[o.name] && wantStrict {
						bad = fmt.Sprintf("the block guarded by %s produces the inclusive operator %s under the Exclusive flag (at %s)", guard.Name(), o.name, ctx.Pos(o.pos))
					}
				}
				// an upper bound of zero is a bound (`maxLength: 0`, `maxItems: 0`): the presence test of an integer-typed "max" field
				// must let 0 through (the library's "unset" is a negative sentinel or a nil pointer, not 0)
				if stem == "max" && bad == "" {
					if b, ok := guard.Type().Underlying().(*types.Basic); ok && b.Info()&types.IsInteger != 0 {
						if v, known := evalWithField(info, is.Cond, guard, 0); known && !v {
							bad = fmt.Sprintf("the presence test `%s` is false for %s = 0: an upper bound of zero (a field that must stay empty) is dropped from the IR", exprString(is.Cond), guard.Name())
						}
					}
				}
				r.Check(bad == "", "kinds/bound-agreement", cons, is.Pos(), "keyword, exclusivity flag and operators agree", bad+": the validation / builder code generated from this constraint accepts or rejects the wrong boundary values")
				return true
			})
		}
	}
	r.Count("bound-to-constraint blocks in the JSON-family parsers", blocks)
	r.Floor("bound-to-constraint blocks in the JSON-family parsers", 6)
}

// evalWithField evaluates a presence test in which the library field `f` has the integer value v; comparisons of the
// field with constants, !, && and || are understood, anything else makes the result unknown.
func evalWithField(info *types.Info, e ast.Expr, f *types.Var, v int64) (val bool, known bool) {
	e = ast.Unparen(e)
	switch x := e.(type) {
	case *ast.UnaryExpr:
		if x.Op == token.NOT {
			b, k := evalWithField(info, x.X, f, v)
			return !b, k
		}
	case *ast.BinaryExpr:
		switch x.Op {
		case token.LAND:
			a, ka := evalWithField(info, x.X, f, v)
			b, kb := evalWithField(info, x.Y, f, v)
			if (ka && !a) || (kb && !b) {
				return false, true
			}
			return a && b, ka && kb
		case token.LOR:
			a, ka := evalWithField(info, x.X, f, v)
			b, kb := evalWithField(info, x.Y, f, v)
			if (ka && a) || (kb && b) {
				return true, true
			}
			return a || b, ka && kb
		}
		l, r := ast.Unparen(x.X), ast.Unparen(x.Y)
		op := x.Op
		if fieldOf(info, l) != f {
			if fieldOf(info, r) != f {
				return false, false
			}
			l, r = r, l
			switch op {
			case token.LSS:
				op = token.GTR
			case token.GTR:
				op = token.LSS
			case token.LEQ:
				op = token.GEQ
			case token.GEQ:
				op = token.LEQ
			}
		}
		tv, ok := info.Types[r]
		if !ok || tv.Value == nil {
			return false, false
		}
		c, exact := constant.Int64Val(constant.ToInt(tv.Value))
		if !exact {
			return false, false
		}
		switch op {
		case token.EQL:
			return v == c, true
		case token.NEQ:
			return v != c, true
		case token.LSS:
			return v < c, true
		case token.LEQ:
			return v <= c, true
		case token.GTR:
			return v > c, true
		case token.GEQ:
			return v >= c, true
		}
	}
	return false, false
}

// c09StaleLoopState: a variable declared outside a loop, assigned in the loop body only under a condition and read in the
// body afterwards keeps, for the elements that do not satisfy the condition, the value computed for an earlier element.
// In the veneers this hands one field's constraints (or type, or default) to the next field: a valid argument is then
// rejected by the generated option. Accumulators (the new value is computed from the old one) and flags read only after
// the loop are not concerned.
func c09StaleLoopState(ctx *Ctx, r *Report, pkgs []string, floor int) {
	n := 0
	for _, rel := range pkgs {
		p := ctx.Pkg(rel)
		if p == nil {
			r.Undecided("anchor lost: package %s", rel)
			continue
		}
		info := p.TypesInfo
		for _, file := range p.Syntax {
			for _, d := range file.Decls {
				fd, ok := d.(*ast.FuncDecl)
				if !ok || fd.Body == nil {
					continue
				}
				fobj, _ := info.Defs[fd.Name].(*types.Func)
				parents := parentMap(fd)
				ast.Inspect(fd.Body, func(m ast.Node) bool {
					var body *ast.BlockStmt
					switch x := m.(type) {
					case *ast.RangeStmt:
						body = x.Body
					case *ast.ForStmt:
						body = x.Body
					}
					if body == nil {
						return true
					}
					n++
					// assignments (=) in the body to variables declared outside it
					type asg struct {
						stmt *ast.AssignStmt
						cond bool
						self bool
					}
					byVar := map[types.Object][]asg{}
					ast.Inspect(body, func(q ast.Node) bool {
						if _, ok := q.(*ast.FuncLit); ok {
							return false
						}
						as, ok := q.(*ast.AssignStmt)
						if !ok || as.Tok == token.DEFINE {
							return true
						}
						for i, l := range as.Lhs {
							id, ok := ast.Unparen(l).(*ast.Ident)
							if !ok {
								continue
							}
							o := objOf(info, id)
							v, isVar := o.(*types.Var)
							if !isVar || v.IsField() || (o.Pos() >= body.Pos() && o.Pos() <= body.End()) {
								continue
							}
							conditional := false
							for a := parents[as]; a != nil && a != ast.Node(body); a = parents[a] {
								switch a.(type) {
								case *ast.IfStmt, *ast.CaseClause, *ast.ForStmt, *ast.RangeStmt:
									conditional = true
								}
							}
							self := as.Tok != token.ASSIGN // +=, etc.
							if i < len(as.Rhs) {
								ast.Inspect(as.Rhs[i], func(z ast.Node) bool {
									if rid, ok := z.(*ast.Ident); ok && objOf(info, rid) == o {
										self = true
									}
									return true
								})
							}
							byVar[o] = append(byVar[o], asg{as, conditional, self})
						}
						return true
					})
					var vars []types.Object
					for o := range byVar {
						vars = append(vars, o)
					}
					sort.Slice(vars, func(i, j int) bool { return vars[i].Pos() < vars[j].Pos() })
					for _, o := range vars {
						all := byVar[o]
						onlyConditional, accumulator := true, false
						for _, a := range all {
							if !a.cond {
								onlyConditional = false
							}
							if a.self {
								accumulator = true
							}
						}
						if !onlyConditional || accumulator {
							continue
						}
						// a read in the body that is not inside the statement of one of its assignments' conditional blocks and comes after the first assignment
						var readAt token.Pos
						ast.Inspect(body, func(q ast.Node) bool {
							if _, ok := q.(*ast.FuncLit); ok {
								return false
							}
							id, ok := q.(*ast.Ident)
							if !ok || objOf(info, id) != o || readAt.IsValid() {
								return true
							}
							// skip the assignment targets themselves
							if as, ok := parents[id].(*ast.AssignStmt); ok {
								for _, l := range as.Lhs {
									if l == ast.Expr(id) {
										return true
									}
								}
							}
							if id.Pos() < all[0].stmt.Pos() {
								return true
							}
							// inside the same conditional block as an assignment that precedes it: fresh on that path
							for _, a := range all {
								var blk ast.Node
								for x := parents[a.stmt]; x != nil && x != ast.Node(body); x = parents[x] {
									if b, ok := x.(*ast.BlockStmt); ok && blk == nil {
										blk = b
									}
								}
								if blk != nil && id.Pos() > blk.Pos() && id.End() <= blk.End() && id.Pos() > a.stmt.Pos() {
									return true
								}
							}
							readAt = id.Pos()
							return true
						})
						if !readAt.IsValid() {
							continue
						}
						// boolean flags and error holders are reported elsewhere (sticky errors are wanted)
						if t := o.Type(); t != nil {
							if b, ok := t.Underlying().(*types.Basic); ok && b.Kind() == types.Bool {
								continue
							}
							if t.String() == "error" {
								continue
							}
						}
						r.Bad("flow/loop-state-fresh", fmt.Sprintf("%s loop variable %s", ctx.FuncName(fobj), o.Name()), all[0].stmt.Pos(),
							fmt.Sprintf("%s: %s is declared outside the loop, assigned in it only under a condition and read at %s: for an element that does not satisfy the condition it still holds what was computed for an earlier element (constraints / type / default of the previous field are applied to this one)", ctx.FuncName(fobj), o.Name(), ctx.Pos(readAt)))
					}
					return true
				})
			}
		}
	}
	r.Count("loops examined for state carried from one element to the next", n)
	r.Floor("loops examined for state carried from one element to the next", floor)
	if n >= floor {
		r.OK("flow/loop-state-fresh", "veneers and builder derivation", token.NoPos, "no loop reads, for one element, a value assigned under a condition for an earlier one")
	}
}

// c09RatExactness: the JSON Schema library holds numeric bounds as *big.Rat; (*big.Rat).Float64 returns the nearest
// float64 and whether the conversion was *exact*. 0.1 is not exactly representable: code that treats the second result
// as a success flag drops every such bound from the IR. The flag may be ignored; it may not decide anything.
func c09RatExactness(ctx *Ctx, r *Report) {
	n := 0
	for _, rel := range []string{"internal/jsonschema", "internal/openapi"} {
		p := ctx.Pkg(rel)
		if p == nil {
			continue
		}
		info := p.TypesInfo
		for _, file := range p.Syntax {
			var fname string
			ast.Inspect(file, func(m ast.Node) bool {
				if fd, ok := m.(*ast.FuncDecl); ok {
					fname = fd.Name.Name
				}
				as, ok := m.(*ast.AssignStmt)
				if !ok || len(as.Lhs) != 2 || len(as.Rhs) != 1 {
					return true
				}
				c, ok := ast.Unparen(as.Rhs[0]).(*ast.CallExpr)
				if !ok {
					return true
				}
				fn := callee(info, c)
				if fn == nil || fn.FullName() != "(*math/big.Rat).Float64" {
					return true
				}
				n++
				id, _ := as.Lhs[1].(*ast.Ident)
				used := ""
				if id != nil && id.Name != "_" {
					o := objOf(info, id)
					ast.Inspect(file, func(q ast.Node) bool {
						if u, ok := q.(*ast.Ident); ok && u != id && objOf(info, u) == o && used == "" {
							used = exprString(u)
						}
						return true
					})
				}
				r.Check(used == "", "frontier/rat-exactness-not-failure", fmt.Sprintf("%s.%s bound #%d", rel, fname, n), c.Pos(), "the exactness flag of Rat.Float64 decides nothing",
					fmt.Sprintf("%s.%s reads the second result of (*big.Rat).Float64 (`%s`): it says whether the conversion is exact, not whether it succeeded — bounds like 0.1 or 0.9 are not exact and would be dropped: values outside them pass Validate()", rel, fname, used))
				return true
			})
		}
	}
	r.Count("conversions of rational bounds", n)
	r.Floor("conversions of rational bounds", 1)
}

// c09TypedConstantSetup: when the target of a constant assignment is optional, the Go builder template first declares a
// variable holding the constant (`valX := …`) and assigns its address. The declared literal must carry the field's type
// for numeric kinds: an untyped `42` makes the variable an `int`, whose address is not a `*int64`. The helper that prints
// it (the FuncMap entry "formatValue" of the builder jenny) must have a numeric case that mentions the scalar kind.
func c09TypedConstantSetup(ctx *Ctx, r *Report) {
	p := ctx.Pkg("internal/jennies/golang")
	if p == nil {
		return
	}
	var lit *ast.FuncLit
	for _, f := range p.Syntax {
		ast.Inspect(f, func(n ast.Node) bool {
			if kv, ok := n.(*ast.KeyValueExpr); ok {
				if bl, ok := kv.Key.(*ast.BasicLit); ok && bl.Value == `"formatValue"` {
					if fl, ok := kv.Value.(*ast.FuncLit); ok && strings.HasSuffix(ctx.Fset.Position(fl.Pos()).Filename, "/builder.go") {
						lit = fl
					}
				}
			}
			return true
		})
	}
	if lit == nil {
		r.Undecided("anchor lost: the formatValue template function of the Go builder jenny")
		return
	}
	typed := false
	ast.Inspect(lit.Body, func(m ast.Node) bool {
		is, ok := m.(*ast.IfStmt)
		if !ok || !strings.Contains(exprString(is.Cond), "IsNumeric()") {
			return true
		}
		ast.Inspect(is.Body, func(q ast.Node) bool {
			if s, ok := q.(*ast.SelectorExpr); ok && s.Sel.Name == "ScalarKind" {
				typed = true
			}
			return true
		})
		return true
	})
	r.Count("constant formatters of the Go builder jenny", 1)
	r.Check(typed, "skeleton/go-typed-constant-setup", "golang builder formatValue numeric case", lit.Pos(), "numeric constants are printed with their kind",
		"the Go builder prints the constant assigned through `valX := …; &valX` as an untyped literal: for a numeric field the variable is an int / float64 and `&valX` is not a *int64 — the generated builder does not compile (`version?: 42`)")
}

// c09UnfoldAccumulators: the Go template that unfolds collections of builders recurses with `ResultVar` naming the
// variable the nested expansion appends to / assigns. Wherever it recurses with a `…Depth<d>` result variable, that
// variable must have been declared (`…Depth<d> := make(…)`) in the same list before the call — the array branch does, the
// map branch did not: `undefined: groupsDepth1`.
func c09UnfoldAccumulators(ctx *Ctx, r *Report) {
	ts, err := loadTemplates(ctx, "golang")
	if err != nil {
		r.Undecided("cannot parse golang templates: %v", err)
		return
	}
	tree := ts.trees["unfold_builders"]
	if tree == nil {
		r.Undecided("anchor lost: template unfold_builders")
		return
	}
	n, conds := 0, 0
	var visit func(l *parse.ListNode)
	visit = func(l *parse.ListNode) {
		if l == nil {
			return
		}
		text := ""
		for _, nd := range l.Nodes {
			switch x := nd.(type) {
			case *parse.TextNode:
				text += string(x.Text)
			case *parse.ActionNode:
				text += "⟦" + x.Pipe.String() + "⟧"
			case *parse.IfNode:
				// the test under which a value is expanded further has to name both kinds of containers: a value
				// that is a map (or a list) and falls into the else-part gets `.Build()` called on it
				recursesHere := false
				for _, inner := range x.List.Nodes {
					if tn, ok := inner.(*parse.TemplateNode); ok && tn.Name == "unfold_builders" {
						recursesHere = true
					}
				}
				if recursesHere && x.ElseList != nil {
					conds++
					c := x.Pipe.String()
					r.Check(strings.Contains(c, "IsArray") && strings.Contains(c, "IsMap"), "skeleton/unfold-recurses-into-containers", fmt.Sprintf("unfold_builders expansion test #%d", conds), token.NoPos, "the value is expanded further when it is a list or a map",
						ts.file["unfold_builders"]+": unfold_builders expands a value further under `"+c+"` only: the other kind of container (a map of maps, a list of maps of builders) falls into the else-part, where Build() is called on the container — the generated builder does not type-check")
				}
				visit(x.List)
				visit(x.ElseList)
			case *parse.RangeNode:
				visit(x.List)
			case *parse.TemplateNode:
				if x.Name != "unfold_builders" {
					continue
				}
				res := dictArgs(x.Pipe)["ResultVar"]
				if !strings.Contains(res, "Depth") {
					continue
				}
				n++
				declRe := regexp.MustCompile(`Depth⟦\.Depth⟧\s*:=\s*make\(`)
				declared := declRe.MatchString(text)
				if !declared {
					// the declaration can be limited to list values (`{{ if ….IsArray }}x := make(…){{ end }}`) when the branch
					// that expands a map declares its own result (`{{ .ResultVar }} := make(…)`): both shapes are then covered
					mapDeclares := regexp.MustCompile(`⟦\.ResultVar⟧\s*:=\s*make\(`).MatchString(tmplTextFull(tree.Root))
					for _, sib := range l.Nodes {
						if in, ok := sib.(*parse.IfNode); ok && strings.Contains(in.Pipe.String(), "IsArray") && !strings.Contains(in.Pipe.String(), "IsMap") && declRe.MatchString(tmplTextFull(in.List)) && mapDeclares {
							declared = true
						}
					}
				}
				r.Check(declared, "skeleton/unfold-accumulator-declared", fmt.Sprintf("unfold_builders recursive call #%d", n), token.NoPos, "the result variable of the nested expansion is declared before the call",
					ts.file["unfold_builders"]+": unfold_builders recurses with ResultVar "+res+" without having declared that variable in the branch: the nested expansion appends to an undeclared name — the generated builder does not compile (map of lists of builders)")
			}
		}
	}
	visit(tree.Root)
	r.Count("recursive calls of unfold_builders with a depth-named result", n)
	r.Floor("recursive calls of unfold_builders with a depth-named result", 2)
	r.Count("expansion tests of unfold_builders", conds)
	r.Floor("expansion tests of unfold_builders", 2)
}

// c09ConstraintsThroughReferences: Python options check the constraints the *assignment* carries (Go relies on the
// Validate() of the built type). FieldAssignment copies the constraints of the field's own scalar type only: a field
// typed by a reference to a constrained scalar (`name: #Name`, `#Name: string & MaxRunes(5)`), or a list of constrained
// scalars, yields an assignment without constraints — the Python option accepts the violating argument silently.
func c09ConstraintsThroughReferences(ctx *Ctx, r *Report) {
	fn := ctx.LookupFunc("internal/ast", "FieldAssignment")
	fd, p := ctx.DeclOf(fn)
	der := ctx.LookupMethod("internal/ast", "BuilderGenerator", "structObjectToBuilder")
	dfd, _ := ctx.DeclOf(der)
	if fd == nil || dfd == nil {
		r.Undecided("anchor lost: ast.FieldAssignment / BuilderGenerator.structObjectToBuilder")
		return
	}
	info := p.TypesInfo
	// the methods of the generator that the derivation calls belong to it
	derivation := []*ast.BlockStmt{fd.Body, dfd.Body}
	constrains := map[*types.Func]bool{} // helpers that put resolved constraints on the option they return
	ast.Inspect(dfd.Body, func(m ast.Node) bool {
		if c, ok := m.(*ast.CallExpr); ok {
			if f := callee(info, c); f != nil && f != der && f.Pkg() == p.Types {
				if sig, ok := f.Type().(*types.Signature); ok && sig.Recv() != nil && namedName(sig.Recv().Type()) == "BuilderGenerator" {
					if hfd, _ := ctx.DeclOf(f); hfd != nil && hfd.Body != nil {
						derivation = append(derivation, hfd.Body)
						ast.Inspect(hfd.Body, func(k ast.Node) bool {
							if kc, ok := k.(*ast.CallExpr); ok {
								if kf := callee(info, kc); kf != nil && kf.Name() == "WithTypeConstraints" {
									constrains[f] = true
								}
							}
							return true
						})
					}
				}
			}
		}
		return true
	})
	// (a) references: the derivation applies the constraints of the type the field's reference resolves to
	resolves := false
	for _, body := range derivation {
		ast.Inspect(body, func(m ast.Node) bool {
			c, ok := m.(*ast.CallExpr)
			if !ok {
				return true
			}
			f := callee(info, c)
			if f == nil || f.Name() != "WithTypeConstraints" || len(c.Args) != 1 {
				return true
			}
			// the argument comes from a resolved type
			if root := rootIdent(c.Args[0]); root != nil {
				ast.Inspect(body, func(k ast.Node) bool {
					as, ok := k.(*ast.AssignStmt)
					if !ok || len(as.Lhs) == 0 || len(as.Rhs) != 1 {
						return true
					}
					if id, ok := as.Lhs[0].(*ast.Ident); ok && objOf(info, id) == objOf(info, root) {
						if rc, ok := ast.Unparen(as.Rhs[0]).(*ast.CallExpr); ok {
							if rf := callee(info, rc); rf != nil && (strings.HasPrefix(rf.Name(), "Resolve") || strings.HasPrefix(rf.Name(), "Locate")) {
								resolves = true
							}
						}
					}
					return true
				})
			}
			return true
		})
	}
	r.Count("derivations of assignment constraints", 1)
	r.Check(resolves, "derive/constraints-through-references", "builder derivation follows references for constraints", dfd.Pos(), "the constraints of the scalar a field's reference resolves to are put on the assignment",
		"the derivation copies constraints only when the field's own type is a scalar: it never looks through a reference — Python: `name(\"toolong\")` on `name: #Name` with `#Name: string & strings.MaxRunes(5)` is accepted silently, while the same constraint written inline raises ValueError")
	// (a') every option the derivation appends comes from the code that does so: a path that builds its options
	// otherwise (the branches of a union wrapper) loses the constraints reached through references
	appends := 0
	ast.Inspect(dfd.Body, func(m ast.Node) bool {
		c, ok := m.(*ast.CallExpr)
		if !ok || len(c.Args) != 2 {
			return true
		}
		if id, ok := ast.Unparen(c.Fun).(*ast.Ident); !ok || id.Name != "append" || !strings.HasSuffix(exprString(c.Args[0]), ".Options") {
			return true
		}
		appends++
		constrained := false
		origin := c.Args[1]
		if id, ok := ast.Unparen(origin).(*ast.Ident); ok {
			// a local variable: where it comes from, and whether WithTypeConstraints is applied to it in this function
			ast.Inspect(dfd.Body, func(k ast.Node) bool {
				switch x := k.(type) {
				case *ast.AssignStmt:
					if len(x.Lhs) == 1 && len(x.Rhs) == 1 {
						if l, ok := x.Lhs[0].(*ast.Ident); ok && objOf(info, l) == objOf(info, id) {
							origin = x.Rhs[0]
						}
					}
				case *ast.CallExpr:
					if inner, ok := ast.Unparen(x.Fun).(*ast.CallExpr); ok {
						if f := callee(info, inner); f != nil && f.Name() == "WithTypeConstraints" && len(x.Args) == 1 {
							if root := rootIdent(x.Args[0]); root != nil && objOf(info, root) == objOf(info, id) {
								constrained = true
							}
						}
					}
				}
				return true
			})
		}
		if oc, ok := ast.Unparen(origin).(*ast.CallExpr); ok && constrains[callee(info, oc)] {
			constrained = true
		}
		r.Check(constrained, "derive/constraints-through-references", fmt.Sprintf("structObjectToBuilder option #%d (%s)", appends, exprString(c.Args[1])), c.Pos(), "built by the code that puts the resolved constraints on the assignment",
			"an option of the derivation is built without the step that follows references for constraints: `u: StrC | int` with `StrC: string & strings.MinRunes(2)` gives the branch option StrC(StrC) no constraint, while `s: StrC` has [minLength 2] — Java checks constraints in options only, the value goes through")
		return true
	})
	if appends == 0 {
		r.Undecided("anchor changed: structObjectToBuilder appends no option")
	}
	// (b) elements of lists and maps
	elements := false
	for _, body := range derivation {
		ast.Inspect(body, func(m ast.Node) bool {
			if sel, ok := m.(*ast.SelectorExpr); ok && sel.Sel.Name == "ValueType" {
				elements = true
			}
			return true
		})
	}
	r.Check(elements, "derive/constraints-of-elements", "ast.FieldAssignment element constraints", fd.Pos(), "the constraints of list / map elements are looked at",
		"the derivation never looks into the elements of a list or a map: `tags: [...string & strings.MinRunes(1)]` gives an option without any constraint — Python: tags([\"\"]).build() is accepted (Go's Build() calls the generated Validate(), which has the check)")
}

// tmplTextFull renders a subtree with every action written as ⟦pipeline⟧ (tmplText hides the pipelines).
func tmplTextFull(n parse.Node) string {
	var b strings.Builder
	walkTmpl(n, func(m parse.Node) bool {
		switch x := m.(type) {
		case *parse.TextNode:
			b.Write(x.Text)
		case *parse.ActionNode:
			b.WriteString("⟦" + x.Pipe.String() + "⟧")
			return false
		}
		return true
	})
	return b.String()
}

// c09FourthRound — third hunting pass.
// (a) Go: the template helpers that decide "this target is a pointer" (maybeAsPointer, maybeDereference) must
// exclude every kind the type formatter never declares with a `*`: arrays, maps, composable slots, `any` and bytes.
// An option of an optional `any` field otherwise stores &payload — a *interface{} — instead of the value.
// (b) Python: the second argument of an isinstance() written by a template is a class: it comes from
// formatRuntimeClass, or from an annotation formatter under a test that excludes arrays and maps.
// (c) struct_fields_as_arguments computes the constraints of each field: both ways of assigning the fields (one
// assignment per field / one envelope appended to a list) have to carry them.
func c09FourthRound(ctx *Ctx, r *Report) {
	// (a)
	if p := ctx.Pkg("internal/jennies/golang"); p != nil {
		info := p.TypesInfo
		n := 0
		for _, file := range p.Syntax {
			ast.Inspect(file, func(m ast.Node) bool {
				kv, ok := m.(*ast.KeyValueExpr)
				if !ok {
					return true
				}
				key, ok := kv.Key.(*ast.BasicLit)
				if !ok || (key.Value != `"maybeAsPointer"` && key.Value != `"maybeDereference"`) {
					return true
				}
				lit, ok := kv.Value.(*ast.FuncLit)
				if !ok {
					return true
				}
				n++
				seen := map[string]bool{}
				visited := map[*types.Func]bool{}
				var scan func(body ast.Node, depth int)
				scan = func(body ast.Node, depth int) {
					ast.Inspect(body, func(q ast.Node) bool {
						switch x := q.(type) {
						case *ast.Ident:
							if c, ok := info.Uses[x].(*types.Const); ok {
								seen[c.Name()] = true
							}
						case *ast.CallExpr:
							if fn := callee(info, x); fn != nil {
								if fn.Name() == "IsAny" {
									seen["IsAny"] = true
								}
								if fn.Pkg() == p.Types && !visited[fn] && depth < 2 {
									visited[fn] = true
									if fd, _ := ctx.DeclOf(fn); fd != nil && fd.Body != nil {
										scan(fd.Body, depth+1)
									}
								}
							}
						}
						return true
					})
				}
				scan(lit.Body, 0)
				var missing []string
				for _, k := range []string{"KindArray", "KindMap", "KindComposableSlot", "KindBytes", "IsAny"} {
					if !seen[k] {
						missing = append(missing, k)
					}
				}
				r.Check(len(missing) == 0, "siblings/go-pointer-predicate", "golang template helper "+strings.Trim(key.Value, `"`), lit.Pos(), "excludes every kind the type formatter never declares as a pointer",
					fmt.Sprintf("the helper treats a nullable target as a pointer without excluding %v, which golang.doFormatType never declares with a `*`: the option of an optional `any` field stores &payload (a *interface{}) instead of the value; for optional bytes the builder does not compile", missing))
				return true
			})
		}
		r.Count("pointer helpers of the Go builder templates", n)
		r.Floor("pointer helpers of the Go builder templates", 2)
	}
	// (b)
	if ts, err := loadTemplates(ctx, "python"); err != nil {
		r.Undecided("templates of python: %v", err)
	} else {
		n := 0
		annotation := map[string]bool{"formatType": true, "formatRawType": true, "formatTypeNotNullable": true, "formatRawTypeNotNullable": true, "formatFullyQualifiedRef": true}
		for _, name := range ts.names() {
			tree := ts.trees[name]
			seen := map[string]int{}
			var visit func(list *parse.ListNode, conds []string)
			visit = func(list *parse.ListNode, conds []string) {
				if list == nil {
					return
				}
				for i, node := range list.Nodes {
					switch x := node.(type) {
					case *parse.IfNode:
						visit(x.List, append(append([]string{}, conds...), x.Pipe.String()))
						visit(x.ElseList, conds)
					case *parse.RangeNode:
						visit(x.List, conds)
						visit(x.ElseList, conds)
					case *parse.WithNode:
						visit(x.List, conds)
						visit(x.ElseList, conds)
					case *parse.ActionNode:
						// an action that follows `isinstance(<expr>, ` — possibly with the first argument's action in between
						prev := ""
						for j := i - 1; j >= 0 && j >= i-3; j-- {
							if t, ok := list.Nodes[j].(*parse.TextNode); ok {
								prev = string(t.Text) + prev
							} else {
								prev = "⟦⟧" + prev
							}
						}
						if !regexp.MustCompile(`isinstance\([^()]*,\s*$`).MatchString(prev) {
							continue
						}
						fn := ""
						walkTmpl(x.Pipe, func(q parse.Node) bool {
							if id, ok := q.(*parse.IdentifierNode); ok && fn == "" && (annotation[id.Ident] || id.Ident == "formatRuntimeClass") {
								fn = id.Ident
							}
							return true
						})
						n++
						key := fmt.Sprintf("python %s isinstance class %s", name, x.Pipe.String())
						seen[key]++
						cons := key
						if seen[key] > 1 {
							cons = fmt.Sprintf("%s #%d", key, seen[key])
						}
						guarded := false
						for _, c := range conds {
							if strings.Contains(c, "not") && strings.Contains(c, ".IsArray") && strings.Contains(c, ".IsMap") {
								guarded = true
							}
						}
						where := ts.posOf(ctx, name, x)
						r.Check(fn == "formatRuntimeClass" || (annotation[fn] && guarded), "skeleton/python-isinstance-class", cons, token.NoPos,
							where+": the class comes from formatRuntimeClass, or from an annotation under a test excluding arrays and maps",
							where+": isinstance() receives the *annotation* of the type ("+x.Pipe.String()+"): `list[str]`, `dict[str, int]`, `typing.Literal[…]`, `typing.Optional[…]` and `None` are not classes — the option raises TypeError when it is given the list, map, literal or string branch of the union")
					}
				}
			}
			visit(tree.Root, nil)
		}
		r.Count("isinstance() calls written by the Python templates", n)
		r.Floor("isinstance() calls written by the Python templates", 2)
	}
	// (c)
	found := false
	forEachVeneerClosure(ctx, func(p *packages.Package, fd *ast.FuncDecl, fobj *types.Func, lit *ast.FuncLit) {
		if fd.Name.Name != "StructFieldsAsArgumentsAction" {
			return
		}
		found = true
		info := p.TypesInfo
		// the variable holding the field's constraints
		var cvar types.Object
		ast.Inspect(lit.Body, func(m ast.Node) bool {
			if as, ok := m.(*ast.AssignStmt); ok && len(as.Lhs) == 1 && len(as.Rhs) == 1 && strings.HasSuffix(exprString(as.Rhs[0]), ".Constraints") {
				if id, ok := as.Lhs[0].(*ast.Ident); ok && cvar == nil {
					cvar = objOf(info, id)
				}
			}
			return true
		})
		if cvar == nil {
			r.Undecided("anchor changed: StructFieldsAsArgumentsAction no longer reads the constraints of a field into a variable")
			return
		}
		n := 0
		ast.Inspect(lit.Body, func(m ast.Node) bool {
			is, ok := m.(*ast.IfStmt)
			if !ok || is.Else == nil || !strings.Contains(exprString(is.Cond), "assignIntoList") {
				return true
			}
			uses := func(b ast.Node) bool {
				u := false
				ast.Inspect(b, func(q ast.Node) bool {
					if id, ok := q.(*ast.Ident); ok && objOf(info, id) == cvar {
						u = true
					}
					return true
				})
				return u
			}
			inBody, inElse := uses(is.Body), uses(is.Else)
			if !inBody && !inElse {
				return true
			}
			n++
			r.Check(inBody && inElse, "effects/envelope-keeps-constraints", ctx.FuncName(fobj)+" uses the field's constraints on both ways of assigning it", is.Pos(), "the per-field assignment and the appended envelope both carry them",
				"struct_fields_as_arguments computes the constraints of each field and only one of its two branches (one assignment per field / one envelope appended to a list) uses them: `links(title, url)` accepts a title the schema forbids while `link(title, url)` reports it — in Python nothing checks it later")
			return true
		})
		r.Count("branches of struct_fields_as_arguments that assign a field", n)
		r.Floor("branches of struct_fields_as_arguments that assign a field", 1)
	})
	if !found {
		r.Undecided("anchor lost: option.StructFieldsAsArgumentsAction")
	}
}

// c09CueNumberConstraints: the CUE front-end reads the constraints of a number from the text cue/format prints for it,
// split on " & ". (a) The filter that decides which parts are constraints lets through every leading byte the operator
// decoder has a branch for — a branch the filter never feeds is a constraint that is silently dropped (`!=0`).
// (b) CUE prints `int & >=0` as `uint`, `int & >=0 & <=255` as `uint8`…: the loop over the parts consults a table of
// these names, or the bound disappears whenever the number is not given that type (`int & >=0 | *5`).
func c09CueNumberConstraints(ctx *Ctx, r *Report) {
	p := ctx.Pkg("internal/simplecue")
	fn := ctx.LookupMethod("internal/simplecue", "generator", "declareNumberConstraints")
	fd, _ := ctx.DeclOf(fn)
	if p == nil || fd == nil {
		r.Undecided("anchor lost: simplecue.generator.declareNumberConstraints")
		return
	}
	info := p.TypesInfo
	charOf := func(e ast.Expr) (string, bool) {
		if tv, ok := info.Types[e]; ok && tv.Value != nil && tv.Value.Kind() == constant.Int {
			if v, ok := constant.Int64Val(tv.Value); ok && v > 0 && v < 128 {
				return string(rune(v)), true
			}
		}
		return "", false
	}
	firstByteTests := func(n ast.Node, op token.Token) map[string]bool {
		out := map[string]bool{}
		ast.Inspect(n, func(m ast.Node) bool {
			be, ok := m.(*ast.BinaryExpr)
			if !ok || be.Op != op {
				return true
			}
			ix, ok := ast.Unparen(be.X).(*ast.IndexExpr)
			if !ok {
				return true
			}
			if tv, ok := info.Types[ix.Index]; !ok || tv.Value == nil || tv.Value.String() != "0" {
				return true
			}
			if c, ok := charOf(be.Y); ok {
				out[c] = true
			}
			return true
		})
		return out
	}
	// the decoder: the function literal whose result list holds an ast.Op
	var decoder *ast.FuncLit
	var loop *ast.RangeStmt
	ast.Inspect(fd.Body, func(m ast.Node) bool {
		switch x := m.(type) {
		case *ast.FuncLit:
			if x.Type.Results != nil {
				for _, res := range x.Type.Results.List {
					if namedName(info.TypeOf(res.Type)) == "Op" {
						decoder = x
					}
				}
			}
			return false
		case *ast.RangeStmt:
			if loop == nil {
				loop = x
			}
		}
		return true
	})
	if decoder == nil || loop == nil {
		r.Undecided("anchor changed: declareNumberConstraints has no operator decoder / no loop over the parts")
		return
	}
	decoded := firstByteTests(decoder.Body, token.EQL)
	var filter *ast.IfStmt
	for _, st := range loop.Body.List {
		if is, ok := st.(*ast.IfStmt); ok && endsInExit(is.Body) && len(firstByteTests(is.Cond, token.NEQ)) > 0 {
			filter = is
		}
	}
	if filter == nil || len(decoded) == 0 {
		r.Undecided("anchor changed: declareNumberConstraints no longer filters the parts on their first byte")
		return
	}
	allowed := firstByteTests(filter.Cond, token.NEQ)
	// reviewed: `==` is not a unary operator of CUE (an equality constraint is the value itself)
	notCue := map[string]string{"=": "`==x` is not a CUE constraint: the value is written `x`"}
	var chars []string
	for c := range decoded {
		chars = append(chars, c)
	}
	sort.Strings(chars)
	for _, c := range chars {
		if why, ok := notCue[c]; ok {
			r.OK("frontier/cue-number-operators-read", "simplecue.declareNumberConstraints feeds the decoder parts starting with "+c, filter.Pos(), "reviewed: "+why)
			continue
		}
		r.Check(allowed[c], "frontier/cue-number-operators-read", "simplecue.declareNumberConstraints feeds the decoder parts starting with "+c, filter.Pos(), "the filter lets these parts through",
			fmt.Sprintf("the operator decoder has a branch for parts starting with %q and the filter in front of it drops them: `divisor: int64 & !=0` reaches the IR without its constraint — Divisor(0).Build() reports nothing, Validate() accepts 0", c))
	}
	r.Count("leading bytes the CUE operator decoder understands", len(chars))
	r.Floor("leading bytes the CUE operator decoder understands", 4)
	// (b)
	table := false
	ast.Inspect(loop.Body, func(m ast.Node) bool {
		ix, ok := m.(*ast.IndexExpr)
		if !ok {
			return true
		}
		id, ok := ast.Unparen(ix.X).(*ast.Ident)
		if !ok {
			return true
		}
		v, ok := objOf(info, id).(*types.Var)
		if !ok || v.Parent() != p.Types.Scope() {
			return true
		}
		if _, isMap := v.Type().Underlying().(*types.Map); !isMap {
			return true
		}
		// the keys of the table
		for _, f := range p.Syntax {
			ast.Inspect(f, func(k ast.Node) bool {
				vs, ok := k.(*ast.ValueSpec)
				if !ok {
					return true
				}
				for i, nm := range vs.Names {
					if info.Defs[nm] != v || i >= len(vs.Values) {
						continue
					}
					if cl, ok := vs.Values[i].(*ast.CompositeLit); ok {
						for _, el := range cl.Elts {
							if kv, ok := el.(*ast.KeyValueExpr); ok {
								if tv, ok := info.Types[kv.Key]; ok && tv.Value != nil && tv.Value.Kind() == constant.String && constant.StringVal(tv.Value) == "uint" {
									table = true
								}
							}
						}
					}
				}
				return true
			})
		}
		return true
	})
	r.Count("tables of CUE predeclared number types", 1)
	r.Check(table, "frontier/cue-predeclared-bounds-kept", "simplecue.declareNumberConstraints knows the predeclared number types", loop.Pos(), "the parts are looked up in a table that knows `uint`",
		"the loop over the printed parts only understands operators: CUE prints `int & >=0 & <=100` as `uint & <=100`, and for `m: int & >=0 & <=100 | *50` (an int64 because of the default) the lower bound disappears — M(-5).Build() reports nothing")
}

// c09GoEnvelopeConstants: an envelope (`append(list, Link{Kind: "link", Title: title})`) holds one value per field. The
// Go templates that prepare and print a *constant* of an envelope must reason on the field it goes to — its type decides
// whether a `val<Field>` temporary is needed and what it is called — not on the target of the whole envelope (the list).
// In "assignment_setup" and "value_envelope", inside the range over the envelope's values, some call is handed the
// path of the value itself (`.Path`).
func c09GoEnvelopeConstants(ctx *Ctx, r *Report) {
	ts, err := loadTemplates(ctx, "golang")
	if err != nil {
		r.Undecided("templates of golang: %v", err)
		return
	}
	n := 0
	for _, define := range []string{"assignment_setup", "value_envelope"} {
		tree := ts.trees[define]
		if tree == nil {
			r.Undecided("anchor lost: golang template %q", define)
			continue
		}
		found, perField := false, false
		walkTmpl(tree.Root, func(q parse.Node) bool {
			rn, ok := q.(*parse.RangeNode)
			if !ok || !strings.HasSuffix(strings.TrimSpace(rn.Pipe.String()), ".Values") {
				return true
			}
			found = true
			walkTmpl(rn.List, func(k parse.Node) bool {
				text := ""
				switch x := k.(type) {
				case *parse.TemplateNode:
					if x.Pipe != nil {
						text = x.Pipe.String()
					}
				case *parse.ActionNode:
					text = x.String()
				}
				if strings.Contains(text, "assignment_") || strings.Contains(text, "\"Assignment\"") {
					if strings.Contains(text, "\"Path\" .Path") {
						perField = true
					}
				}
				return true
			})
			return false
		})
		if !found {
			r.Undecided("anchor changed: golang template %q no longer ranges over the values of an envelope", define)
			continue
		}
		n++
		r.Check(perField, "skeleton/go-envelope-constant-per-field", "golang "+define+" handles the constants of an envelope", token.NoPos, ts.file[define]+": a value of the envelope is handled with its own path",
			ts.file[define]+": every value of an envelope is prepared with the assignment of the whole envelope: for `Link: {kind: \"link\", title: string}; Dash: {links?: [...Link]}` with array_to_append + struct_fields_as_arguments the option starts with `valLinks := \"link\"` — named after the list, declared and never used; an optional constant is written `&\"olink\"`")
	}
	r.Count("Go templates handling envelope values", n)
	r.Floor("Go templates handling envelope values", 2)
}

// c09PythonUnionCollectionBranches: the Python template "unfold_builders" turns the builders an option receives into the
// objects they build. For a union argument it must also reach the branches that are a list or a map of builders
// (`links?: Link | [...Link]`): the branch of the template that handles unions ranges over the union's branches and
// recurses with the value type of the array branches and of the map branches.
func c09PythonUnionCollectionBranches(ctx *Ctx, r *Report) {
	ts, err := loadTemplates(ctx, "python")
	if err != nil {
		r.Undecided("templates of python: %v", err)
		return
	}
	tree := ts.trees["unfold_builders"]
	if tree == nil {
		r.Undecided("anchor lost: python template \"unfold_builders\"")
		return
	}
	var top *parse.IfNode
	for _, n := range tree.Root.Nodes {
		if in, ok := n.(*parse.IfNode); ok {
			top = in
			break
		}
	}
	if top == nil {
		r.Undecided("anchor changed: python template \"unfold_builders\" has no dispatch")
		return
	}
	found := false
	for _, b := range ifChain(top) {
		if b.cond == nil || !strings.Contains(b.cond.String(), "IsDisjunction") {
			continue
		}
		found = true
		arrays, maps := false, false
		walkTmpl(b.body, func(q parse.Node) bool {
			rn, ok := q.(*parse.RangeNode)
			if !ok || !strings.Contains(rn.Pipe.String(), "Disjunction.Branches") {
				return true
			}
			for _, call := range recursiveCalls(rn.List, "unfold_builders") {
				if strings.Contains(call["InputType"], "Array.ValueType") {
					arrays = true
				}
				if strings.Contains(call["InputType"], "Map.ValueType") {
					maps = true
				}
			}
			return true
		})
		r.Check(arrays && maps, "skeleton/python-union-collection-branches", "python unfold_builders union branch", token.NoPos, ts.file["unfold_builders"]+": list and map branches of a union are built element by element",
			ts.file["unfold_builders"]+": a union argument is built as a whole (`X.build()`), whatever its branches: for `links?: Link | [...Link]` the option does `links.build()` on a list — AttributeError for a valid argument — and for `see?: [...Link] | string` it stores the builders themselves in the object")
	}
	if !found {
		r.Undecided("anchor changed: python template \"unfold_builders\" has no branch for unions")
	}
	r.Count("union branches of the Python unfold template", 1)
}

// c09CueConstraintsThroughReferences: a field can take its bounds from a definition and add to them
// (`#Pos & <10`, `#Name & strings.MaxRunes(5)`) or give them a default (`#Pos | *5`): the definition is then written as
// a *reference* among the conjuncts. (a) The bounds of a number are read from the printed text of the value: the text
// printed is the one of the evaluated value (`v.Eval()`), in which references are replaced by what they stand for.
// (b) The constraints of a string are read conjunct by conjunct: a conjunct that is a reference is dereferenced and its
// own constraints collected.
func c09CueConstraintsThroughReferences(ctx *Ctx, r *Report) {
	p := ctx.Pkg("internal/simplecue")
	if p == nil {
		r.Undecided("anchor lost: internal/simplecue")
		return
	}
	info := p.TypesInfo
	if fn := ctx.LookupMethod("internal/simplecue", "generator", "declareNumberConstraints"); fn == nil {
		r.Undecided("anchor lost: simplecue.generator.declareNumberConstraints")
	} else if fd, _ := ctx.DeclOf(fn); fd != nil {
		evaluated, found := false, false
		ast.Inspect(fd.Body, func(m ast.Node) bool {
			c, ok := m.(*ast.CallExpr)
			if !ok || len(c.Args) == 0 {
				return true
			}
			f := callee(info, c)
			if f == nil || f.Pkg() == nil || !strings.HasSuffix(f.Pkg().Path(), "cue/format") || f.Name() != "Node" {
				return true
			}
			found = true
			if strings.Contains(exprString(c.Args[0]), ".Eval()") {
				evaluated = true
			}
			return true
		})
		if !found {
			r.Undecided("anchor changed: declareNumberConstraints no longer prints the value with cue/format")
		} else {
			r.Count("texts the CUE number constraints are read from", 1)
			r.Check(evaluated, "frontier/cue-constraints-through-references", "simplecue.declareNumberConstraints prints the evaluated value", fd.Pos(), "format.Node is given v.Eval().Syntax()",
				"the bounds of a number are read from the text of the value as written: `#Pos & <10` is printed as a reference and a braced `<10`, `#Pos | *5` as a reference — the `>0` of #Pos is never seen, Validate() accepts -3")
		}
	}
	if fn := ctx.LookupMethod("internal/simplecue", "generator", "declareStringConstraints"); fn == nil {
		r.Undecided("anchor lost: simplecue.generator.declareStringConstraints")
	} else if fd, _ := ctx.DeclOf(fn); fd != nil {
		inLoop, single := false, false
		ast.Inspect(fd.Body, func(m ast.Node) bool {
			switch x := m.(type) {
			case *ast.RangeStmt:
				ast.Inspect(x.Body, func(k ast.Node) bool {
					if c, ok := k.(*ast.CallExpr); ok {
						if f := callee(info, c); f != nil && f.Name() == "Dereference" {
							inLoop = true
						}
					}
					return true
				})
				return false
			case *ast.CallExpr:
				if f := callee(info, x); f != nil && f.Name() == "Dereference" {
					single = true
				}
			}
			return true
		})
		r.Count("places where string constraints meet a reference", 2)
		r.Check(inLoop, "frontier/cue-constraints-through-references", "simplecue.declareStringConstraints follows a reference among the conjuncts", fd.Pos(), "a conjunct that is a reference is dereferenced",
			"the conjuncts that are not calls are skipped, references included: `#Name & strings.MaxRunes(5)` keeps MaxRunes(5) and loses the MinRunes(2) of #Name — Validate() accepts \"a\"")
		r.Check(single, "frontier/cue-constraints-through-references", "simplecue.declareStringConstraints follows a reference standing alone", fd.Pos(), "a value that is only a reference (once its default is removed) is dereferenced",
			"`#Name | *\"abc\"` is, once the default is removed, the reference #Name alone: nothing is read from it and the string has no constraint at all")
	}
}

// c09FifthHunt — fourth hunt:
//   - Python: the modules a builders file imports are known under the name of their package; the builder jenny formats
//     the names of methods and factories with a function that knows those names (a method `demo` in package demo takes
//     the place of the module in every annotation written after it — the builders module can not be imported);
//   - the bounds of an integer are integers: walkNumber of the JSON Schema input does not hand the result of
//     (*big.Rat).Float64 to a constraint directly (2^53+1 would be rounded, MaxInt64 would become a float constant that
//     overflows int64 in the generated Go), and getArgs of the OpenAPI input tests the int64 range before converting a
//     float64 (the conversion of a float beyond it is not defined: MaxInt64, read as 2^63, became MinInt64 on amd64).
func c09FifthHunt(ctx *Ctx, r *Report) {
	n := 0
	// (a)
	n += c09PythonMethodNamesSpareModules(ctx, r)
	// (b)
	if fp := ctx.Pkg("internal/jsonschema"); fp == nil {
		r.Undecided("anchor lost: internal/jsonschema")
	} else if fd := c12Method(fp, "walkNumber"); fd == nil {
		r.Undecided("anchor lost: jsonschema.generator.walkNumber")
	} else {
		info := fp.TypesInfo
		// variables holding the first result of (*big.Rat).Float64
		rounded := map[types.Object]bool{}
		ast.Inspect(fd.Body, func(m ast.Node) bool {
			as, ok := m.(*ast.AssignStmt)
			if !ok || len(as.Rhs) != 1 || len(as.Lhs) == 0 {
				return true
			}
			if c, ok := ast.Unparen(as.Rhs[0]).(*ast.CallExpr); ok {
				if f := callee(info, c); f != nil && f.FullName() == "(*math/big.Rat).Float64" {
					if id, ok := as.Lhs[0].(*ast.Ident); ok {
						rounded[objOf(info, id)] = true
					}
				}
			}
			return true
		})
		constraints, bad := 0, 0
		ast.Inspect(fd.Body, func(m ast.Node) bool {
			cl, ok := m.(*ast.CompositeLit)
			if !ok || namedName(info.TypeOf(cl)) != "TypeConstraint" {
				return true
			}
			constraints++
			for _, el := range cl.Elts {
				kv, ok := el.(*ast.KeyValueExpr)
				if !ok || exprString(kv.Key) != "Args" {
					continue
				}
				ast.Inspect(kv.Value, func(k ast.Node) bool {
					if id, ok := k.(*ast.Ident); ok && rounded[objOf(info, id)] {
						bad++
					}
					return true
				})
			}
			return true
		})
		// the helpers walkNumber calls (two levels) keep integers exact: one of them reads the bound as a big.Int
		exact := false
		seenHelpers := map[*types.Func]bool{}
		var scanHelpers func(body ast.Node, depth int)
		scanHelpers = func(body ast.Node, depth int) {
			ast.Inspect(body, func(m ast.Node) bool {
				c, ok := m.(*ast.CallExpr)
				if !ok {
					return true
				}
				f := callee(info, c)
				if f == nil {
					return true
				}
				if f.FullName() == "(*math/big.Int).Int64" {
					exact = true
				}
				if f.Pkg() == fp.Types && !seenHelpers[f] && depth < 2 {
					seenHelpers[f] = true
					if hfd, _ := ctx.DeclOf(f); hfd != nil && hfd.Body != nil {
						scanHelpers(hfd.Body, depth+1)
					}
				}
				return true
			})
		}
		scanHelpers(fd.Body, 0)
		if constraints == 0 {
			r.Undecided("anchor changed: jsonschema.walkNumber builds no constraint")
		} else {
			n++
			r.Check(bad == 0 && exact, "frontier/integer-bounds-exact", "jsonschema.walkNumber reads the bounds of a number", fd.Pos(), "no constraint takes the float64 reading of a bound as it is",
				fmt.Sprintf("%d constraint(s) of walkNumber take the result of (*big.Rat).Float64 whatever the kind of the number: `\"type\": \"integer\", \"maximum\": 9007199254740993` is bound by 9007199254740992 (the valid 2^53+1 is refused by Build() and by the Python option), and `\"maximum\": 9223372036854775807` gives `<= 9.223372036854776e+18` — truncated to int64, the Go package does not compile", bad))
		}
	}
	n += c09OpenAPIIntegerConversions(ctx, r)
	r.Count("hunted clauses of the builders (5th hunt)", n)
	r.Floor("hunted clauses of the builders (5th hunt)", 3)
}

// c09OpenAPIIntegerConversions: kin-openapi reads every number as a float64. Every function of the OpenAPI front-end
// that converts a float64 to int64 tests it against both ends of the int64 range first: the conversion of a float
// beyond it is not defined (9223372036854775807, read as 2^63, became MinInt64 on amd64 — as a bound, as a default and
// as an enum value).
func c09OpenAPIIntegerConversions(ctx *Ctx, r *Report) int {
	p := ctx.Pkg("internal/openapi")
	if p == nil {
		r.Undecided("anchor lost: internal/openapi")
		return 0
	}
	info := p.TypesInfo
	n := 0
	for _, file := range p.Syntax {
		for _, d := range file.Decls {
			fd, ok := d.(*ast.FuncDecl)
			if !ok || fd.Body == nil {
				continue
			}
			var conversions []token.Pos
			ast.Inspect(fd.Body, func(m ast.Node) bool {
				if c, ok := m.(*ast.CallExpr); ok && len(c.Args) == 1 {
					if tv, ok := info.Types[c.Fun]; ok && tv.IsType() {
						if b, ok := tv.Type.Underlying().(*types.Basic); ok && b.Kind() == types.Int64 {
							if at, ok := info.TypeOf(c.Args[0]).Underlying().(*types.Basic); ok && at.Info()&types.IsFloat != 0 {
								if atv, ok := info.Types[c.Args[0]]; !ok || atv.Value == nil {
									conversions = append(conversions, c.Pos())
								}
							}
						}
					}
				}
				return true
			})
			if len(conversions) == 0 {
				continue
			}
			tested := map[string]bool{}
			ast.Inspect(fd.Body, func(m ast.Node) bool {
				var conds []ast.Expr
				switch x := m.(type) {
				case *ast.IfStmt:
					conds = append(conds, x.Cond)
				case *ast.CaseClause:
					conds = append(conds, x.List...)
				}
				for _, cond := range conds {
					ast.Inspect(cond, func(k ast.Node) bool {
						if id, ok := k.(*ast.Ident); ok {
							if c, ok := info.Uses[id].(*types.Const); ok && c.Pkg() != nil && c.Pkg().Path() == "math" {
								tested[c.Name()] = true
							}
						}
						return true
					})
				}
				return true
			})
			fobj, _ := info.Defs[fd.Name].(*types.Func)
			n++
			r.Check(tested["MaxInt64"] && tested["MinInt64"], "frontier/integer-bounds-exact", ctx.FuncName(fobj)+" converts a float64 to int64", conversions[0], "after testing it against both ends of the int64 range",
				ctx.FuncName(fobj)+" converts the float64 kin-openapi read without a range test: `type: integer, format: int64, maximum: 9223372036854775807` (or `default:`) is read as 2^63, whose conversion is not defined — MinInt64 on amd64: `must be <= -9223372036854775808`, every argument refused; a default of MaxInt64 changes sign")
		}
	}
	if n == 0 {
		// no conversion left: integers are read some other way
		n = 1
	}
	return n
}

// c09PythonMethodNamesSpareModules: the modules a Python builders file imports are known under the name of their
// package; a method or a factory of that name takes the place of the module in every annotation written after it.
// (1) the jenny names methods with a function that consults a set of module names; (2) that set is filled, in the
// function that renders the file, from what the builders of that file refer to (a function reading ReferredPkg) —
// (3) and not from the packages of the run: an unrelated input called `title` would rename the option `title` of
// every other package (C07).
func c09PythonMethodNamesSpareModules(ctx *Ctx, r *Report) int {
	fn := ctx.LookupMethod("internal/jennies/python", "Builder", "generateBuilder")
	gen := ctx.LookupMethod("internal/jennies/python", "Builder", "Generate")
	fd, p := ctx.DeclOf(fn)
	gfd, _ := ctx.DeclOf(gen)
	if fd == nil || gfd == nil {
		r.Undecided("anchor lost: python.Builder.generateBuilder / Generate")
		return 0
	}
	info := p.TypesInfo
	// (1) the map the formatter consults
	var consulted types.Object
	ast.Inspect(fd.Body, func(m ast.Node) bool {
		kv, ok := m.(*ast.KeyValueExpr)
		if !ok {
			return true
		}
		if bl, ok := kv.Key.(*ast.BasicLit); !ok || bl.Value != `"formatFunctionName"` {
			return true
		}
		ast.Inspect(kv.Value, func(k ast.Node) bool {
			if ix, ok := k.(*ast.IndexExpr); ok {
				if id, ok := ast.Unparen(ix.X).(*ast.Ident); ok {
					if o := objOf(info, id); o != nil {
						if _, isMap := o.Type().Underlying().(*types.Map); isMap {
							consulted = o
						}
					}
				}
			}
			return true
		})
		return true
	})
	r.Check(consulted != nil, "kinds/python-method-names-spare-modules", "python.Builder.generateBuilder formats method names", fd.Pos(), "with a function that consults a set of module names",
		"the builder templates name methods and factories with the global formatFunctionName, which knows nothing of the modules the file imports (`from ..models import demo`): `Obj: {demo?: string, kind?: Kind}` in package demo gives `def demo(self, …)` then `def kind(self, kind: demo.Kind)` — AttributeError: 'function' object has no attribute 'Kind', the builders module can not be imported")
	if consulted == nil {
		return 1
	}
	// the variable of Generate (or of generateBuilder itself) that holds the set
	holder, holderBody := consulted, fd.Body
	sig := fn.Type().(*types.Signature)
	for i := 0; i < sig.Params().Len(); i++ {
		if sig.Params().At(i) != consulted {
			continue
		}
		ast.Inspect(gfd.Body, func(m ast.Node) bool {
			c, ok := m.(*ast.CallExpr)
			if !ok || callee(info, c) != fn || i >= len(c.Args) {
				return true
			}
			if id, ok := ast.Unparen(c.Args[i]).(*ast.Ident); ok {
				holder, holderBody = objOf(info, id), gfd.Body
			}
			return true
		})
	}
	// (2) filled from what the builders refer to, (3) not from the packages of the run
	fromReferences, fromRun := false, ""
	readsReferredPkg := func(body ast.Node) bool {
		found := false
		ast.Inspect(body, func(k ast.Node) bool {
			if sel, ok := k.(*ast.SelectorExpr); ok && sel.Sel.Name == "ReferredPkg" {
				found = true
			}
			return true
		})
		return found
	}
	ast.Inspect(holderBody, func(m ast.Node) bool {
		switch x := m.(type) {
		case *ast.CallExpr:
			// handed to a function of the jenny that reads ReferredPkg
			f := callee(info, x)
			if f == nil || f.Pkg() == nil || !strings.HasPrefix(f.Pkg().Path(), modulePath+"/") || f == fn {
				return true
			}
			for _, a := range x.Args {
				if id, ok := ast.Unparen(a).(*ast.Ident); ok && objOf(info, id) == holder {
					if hfd, _ := ctx.DeclOf(f); hfd != nil && hfd.Body != nil && readsReferredPkg(hfd.Body) {
						fromReferences = true
					}
				}
			}
		case *ast.RangeStmt:
			if !strings.HasSuffix(exprString(x.X), ".Schemas") {
				return true
			}
			ast.Inspect(x.Body, func(k ast.Node) bool {
				if as, ok := k.(*ast.AssignStmt); ok && len(as.Lhs) == 1 {
					if ix, ok := ast.Unparen(as.Lhs[0]).(*ast.IndexExpr); ok {
						if id, ok := ast.Unparen(ix.X).(*ast.Ident); ok && objOf(info, id) == holder {
							fromRun = ctx.Pos(as.Pos())
						}
					}
				}
				return true
			})
		case *ast.AssignStmt:
			if len(x.Lhs) == 1 {
				if ix, ok := ast.Unparen(x.Lhs[0]).(*ast.IndexExpr); ok {
					if id, ok := ast.Unparen(ix.X).(*ast.Ident); ok && objOf(info, id) == holder && readsReferredPkg(ix.Index) {
						fromReferences = true
					}
				}
			}
		}
		return true
	})
	r.Check(fromReferences, "kinds/python-method-names-spare-modules", "python.Builder fills the set of module names", gfd.Pos(), "from the packages the builders of the file refer to",
		"the set of names the methods have to spare is not filled from what the builders of the file refer to: a method called like a module the file imports (`def common(…)` before `common.Deep`) shadows it")
	r.Check(fromRun == "", "kinds/python-method-names-spare-modules", "python.Builder spares the names of its own imports only", gfd.Pos(), "the set is not filled from the packages of the run",
		"the set of names the methods have to spare is filled from context.Schemas ("+fromRun+"): an unrelated input of package `title` renames the option `title` of every other package to `title_val` — Dashboard().title('x') raises AttributeError, while adding an input that nothing references must change no file of the other packages")
	return 3
}

// c09SixthHunt — fifth hunt:
//   - Python: the second argument of isinstance() is a class at run time. formatRuntimeClass follows a *reference* down
//     to such a class before it picks one: `Alias: Inner` is declared `typing.TypeAlias = 'Inner'` (a string), a named
//     list is `list[str]` (a parameterized generic) — isinstance raised TypeError on every valid call;
//   - Go: the packages a builder file imports are known under their name; the jenny formats argument names with a
//     function that knows the packages the builder refers to (`Other(other []cog.Builder[other.Thing])` wrote
//     `make([]other.Thing, …)` — other.Thing is not a type);
//   - Go: the multipleOf check of an integer is computed on the integer (`%`), math.Mod through float64 is kept for
//     floats: 2^53+1 is not exact as a float64.
func c09SixthHunt(ctx *Ctx, r *Report) {
	n := 0
	// (a)
	if pp := ctx.Pkg("internal/jennies/python"); pp == nil {
		r.Undecided("anchor lost: internal/jennies/python")
	} else {
		info := pp.TypesInfo
		found, follows := false, false
		for _, file := range pp.Syntax {
			ast.Inspect(file, func(m ast.Node) bool {
				kv, ok := m.(*ast.KeyValueExpr)
				if !ok {
					return true
				}
				if bl, ok := kv.Key.(*ast.BasicLit); !ok || bl.Value != `"formatRuntimeClass"` {
					return true
				}
				fl, ok := kv.Value.(*ast.FuncLit)
				if !ok {
					return true
				}
				found = true
				// a loop (or a helper) that looks the referred object up while the type is a reference
				ast.Inspect(fl.Body, func(k ast.Node) bool {
					if fs, ok := k.(*ast.ForStmt); ok {
						locates := false
						ast.Inspect(fs, func(q ast.Node) bool {
							if c, ok := q.(*ast.CallExpr); ok {
								if f := callee(info, c); f != nil && (strings.HasPrefix(f.Name(), "LocateObject") || strings.HasPrefix(f.Name(), "Resolve")) {
									locates = true
								}
							}
							return true
						})
						if locates && strings.Contains(exprString(fs.Cond), "IsRef") {
							follows = true
						}
					}
					if c, ok := k.(*ast.CallExpr); ok {
						if f := callee(info, c); f != nil && f.Name() == "ResolveRefs" {
							follows = true
						}
					}
					return true
				})
				return true
			})
		}
		if !found {
			r.Undecided("anchor lost: python template helper formatRuntimeClass")
		} else {
			n++
			r.Check(follows, "skeleton/python-isinstance-class", "python formatRuntimeClass follows references", token.NoPos, "a reference is followed down to what is a class at run time",
				"formatRuntimeClass formats a reference as it is: `Alias: Inner` is `typing.TypeAlias = 'Inner'` and `#Names: [...string]` is `list[str]` — `isinstance(u1_resource, demo.Alias)` raises TypeError: isinstance() arg 2 must be a type, on every valid call of the option")
		}
	}
	// (b)
	if fn := ctx.LookupMethod("internal/jennies/golang", "Builder", "generateBuilder"); fn == nil {
		r.Undecided("anchor lost: golang.Builder.generateBuilder")
	} else if fd, p := ctx.DeclOf(fn); fd != nil {
		info := p.TypesInfo
		// maps filled (directly or through a second map) by a function that reads ReferredPkg
		fromReferences := map[types.Object]bool{}
		ast.Inspect(fd.Body, func(m ast.Node) bool {
			c, ok := m.(*ast.CallExpr)
			if !ok {
				return true
			}
			f := callee(info, c)
			if f == nil || f.Pkg() == nil || !strings.HasPrefix(f.Pkg().Path(), modulePath+"/") {
				return true
			}
			hfd, _ := ctx.DeclOf(f)
			if hfd == nil || hfd.Body == nil {
				return true
			}
			reads := false
			ast.Inspect(hfd.Body, func(k ast.Node) bool {
				if sel, ok := k.(*ast.SelectorExpr); ok && sel.Sel.Name == "ReferredPkg" {
					reads = true
				}
				return true
			})
			if !reads {
				return true
			}
			for _, a := range c.Args {
				if id, ok := ast.Unparen(a).(*ast.Ident); ok {
					if _, isMap := info.TypeOf(id).Underlying().(*types.Map); isMap {
						fromReferences[objOf(info, id)] = true
					}
				}
			}
			return true
		})
		// one more hop: `for pkg := range referred { imported[f(pkg)] = … }`
		ast.Inspect(fd.Body, func(m ast.Node) bool {
			rs, ok := m.(*ast.RangeStmt)
			if !ok {
				return true
			}
			id, ok := ast.Unparen(rs.X).(*ast.Ident)
			if !ok || !fromReferences[objOf(info, id)] {
				return true
			}
			ast.Inspect(rs.Body, func(k ast.Node) bool {
				if as, ok := k.(*ast.AssignStmt); ok && len(as.Lhs) == 1 {
					if ix, ok := ast.Unparen(as.Lhs[0]).(*ast.IndexExpr); ok {
						if mid, ok := ast.Unparen(ix.X).(*ast.Ident); ok {
							fromReferences[objOf(info, mid)] = true
						}
					}
				}
				return true
			})
			return true
		})
		knows := false
		ast.Inspect(fd.Body, func(m ast.Node) bool {
			kv, ok := m.(*ast.KeyValueExpr)
			if !ok {
				return true
			}
			if bl, ok := kv.Key.(*ast.BasicLit); !ok || bl.Value != `"formatArgName"` {
				return true
			}
			ast.Inspect(kv.Value, func(k ast.Node) bool {
				if id, ok := k.(*ast.Ident); ok && fromReferences[objOf(info, id)] {
					knows = true
				}
				return true
			})
			return true
		})
		n++
		r.Check(knows, "kinds/go-argument-names-spare-packages", "golang.Builder.generateBuilder formats argument names", fd.Pos(), "with a function that knows the packages the builder refers to",
			"the Go builder templates name arguments with the global formatArgName, which only knows `cog`: `Obj: {other?: [...oth.Thing]}` gives `Other(other []cog.Builder[other.Thing])` whose body says `make([]other.Thing, 0, len(other))` — other.Thing is not a type, the package does not compile")
	}
	// (c)
	ts, err := loadTemplates(ctx, "golang")
	if err != nil {
		r.Undecided("cannot parse golang templates: %v", err)
	} else if tree := ts.trees["type_constraints"]; tree == nil {
		r.Undecided("anchor lost: golang template type_constraints")
	} else {
		integerRemainder := false
		walkTmpl(tree.Root, func(m parse.Node) bool {
			in, ok := m.(*parse.IfNode)
			if !ok || !strings.Contains(in.Pipe.String(), "multipleOf") {
				return true
			}
			// inside the multipleOf branch: a test on the kind of the scalar, and a `%` in one of its arms
			walkTmpl(in.List, func(k parse.Node) bool {
				inner, ok := k.(*parse.IfNode)
				if !ok || !strings.Contains(inner.Pipe.String(), "float") {
					return true
				}
				arms := tmplText(inner.List)
				if inner.ElseList != nil {
					arms += tmplText(inner.ElseList)
				}
				if strings.Contains(arms, " % ") && strings.Contains(arms, "math.Mod") {
					integerRemainder = true
				}
				return true
			})
			return true
		})
		n++
		r.Check(integerRemainder, "skeleton/go-integer-multiple-of", "golang type_constraints checks multipleOf", token.NoPos, "with `%` for integers and math.Mod for floats, told apart by the kind of the scalar",
			ts.file["type_constraints"]+": multipleOf is always checked with math.Mod(float64(x), float64(n)): for `even: {type: integer, multipleOf: 2}` the odd 9007199254740993 (2^53+1) is accepted by Build() and, with multipleOf 3, refused although it is 3 × 3002399751580331 — the Python check (`% 3 == 0`) is exact")
	}
	r.Count("hunted clauses of the builders (6th hunt)", n)
	r.Floor("hunted clauses of the builders (6th hunt)", 3)
}

// c09SeventhHunt — sixth hunt of C09 (the veneers that make options out of the fields of a struct):
//   - struct_fields_as_options and struct_fields_as_arguments give the option the constraints of a field typed by a
//     reference to a scalar, as the builder of the struct itself does (constrainedFieldToOption);
//   - struct_fields_as_options makes no option of a field whose value the schema fixes;
//   - (finding, shared) the Go builder of a named optional of a struct.
func c09SeventhHunt(ctx *Ctx, r *Report) {
	n := 0
	p := ctx.Pkg("internal/veneers/option")
	if p == nil {
		r.Undecided("anchor lost: internal/veneers/option")
		return
	}
	info := p.TypesInfo
	for _, name := range []string{"StructFieldsAsOptionsAction", "StructFieldsAsArgumentsAction"} {
		fd, _ := ctx.DeclOf(ctx.LookupFunc("internal/veneers/option", name))
		if fd == nil {
			r.Undecided("anchor lost: option.%s", name)
			continue
		}
		resolved := map[types.Object]bool{}
		ast.Inspect(fd.Body, func(m ast.Node) bool {
			as, ok := m.(*ast.AssignStmt)
			if !ok || len(as.Lhs) != 1 || len(as.Rhs) != 1 {
				return true
			}
			if c, ok := ast.Unparen(as.Rhs[0]).(*ast.CallExpr); ok {
				if f := callee(info, c); f != nil && (f.Name() == "ResolveToType" || f.Name() == "ResolveRefs") {
					if id, ok := as.Lhs[0].(*ast.Ident); ok {
						if o := objOf(info, id); o != nil {
							resolved[o] = true
						}
					}
				}
			}
			return true
		})
		through := false
		ast.Inspect(fd.Body, func(m ast.Node) bool {
			sel, ok := m.(*ast.SelectorExpr)
			if !ok || sel.Sel.Name != "Constraints" {
				return true
			}
			ast.Inspect(sel.X, func(q ast.Node) bool {
				if id, ok := q.(*ast.Ident); ok && resolved[info.Uses[id]] {
					through = true
				}
				return true
			})
			return true
		})
		n++
		r.Check(through, "derive/veneer-constraints-through-references", "option."+name+" reads the constraints of the fields it makes arguments of", fd.Pos(), "also through a reference to a scalar",
			"option."+name+" reads the constraints of inline scalars only: with `#Name: string & strings.MaxRunes(5); Pos: {label: #Name}` and the veneer on Obj.pos, Obj().label(\"toolong\") is accepted while Pos().label(\"toolong\") raises ValueError — and Python has no later validation")
	}
	if fd, _ := ctx.DeclOf(ctx.LookupFunc("internal/veneers/option", "StructFieldsAsOptionsAction")); fd != nil {
		skips := false
		ast.Inspect(fd.Body, func(m ast.Node) bool {
			rs, ok := m.(*ast.RangeStmt)
			if !ok || !strings.HasSuffix(exprString(rs.X), ".Fields") {
				return true
			}
			for _, st := range rs.Body.List {
				if is, ok := st.(*ast.IfStmt); ok && strings.Contains(exprString(is.Cond), "IsConcreteScalar()") && len(is.Body.List) == 1 {
					if br, ok := is.Body.List[0].(*ast.BranchStmt); ok && br.Tok == token.CONTINUE {
						skips = true
					}
				}
			}
			return true
		})
		n++
		r.Check(skips, "derive/veneer-options-skip-constants", "option.StructFieldsAsOptionsAction makes an option of every field of the struct", fd.Pos(), "but of those whose value the schema fixes",
			"struct_fields_as_options turns every field into an option, constants included: `Pos: {type: \"point\", x: int64}` with the veneer on Obj.pos gives Obj an option Type() — NewObjBuilder().Type(\"line\").Build() returns {\"pos\":{\"type\":\"line\",\"x\":0}} and no error, while the builder of Pos has no such option")
	}
	n += c06GoNamedOptionalBuilder(ctx, r)
	r.Count("hunted clauses of the builder-validation rules (7th hunt)", n)
	r.Floor("hunted clauses of the builder-validation rules (7th hunt)", 4)
}
