package main

// C05 — every reference resolves. Engines E3 "traverse" + E4 "effects".

import (
	"fmt"
	"go/ast"
	"go/constant"
	"go/token"
	"go/types"
	"regexp"
	"sort"
	"strings"

	"golang.org/x/tools/go/packages"
)

func init() { register("C05", checkC05) }

const compilerPkgPath = modulePath + "/internal/ast/compiler"

func astField(ctx *Ctx, typ, field string) *types.Var {
	nt := ctx.LookupType("internal/ast", typ)
	if nt == nil {
		return nil
	}
	st, ok := nt.Underlying().(*types.Struct)
	if !ok {
		return nil
	}
	for i := 0; i < st.NumFields(); i++ {
		if st.Field(i).Name() == field {
			return st.Field(i)
		}
	}
	return nil
}

// typeBearingFields: fields of IR structs (reachable from Schema) whose type
// contains ast.Type — the positions a traversal has to reach.
func typeBearingFields(ctx *Ctx) map[*types.Var]string {
	astPkg := ctx.Pkg("internal/ast")
	typeT := ctx.LookupType("internal/ast", "Type")
	out := map[*types.Var]string{}
	if astPkg == nil || typeT == nil {
		return out
	}
	var containsType func(t types.Type, seen map[types.Type]bool) bool
	containsType = func(t types.Type, seen map[types.Type]bool) bool {
		if seen[t] {
			return false
		}
		seen[t] = true
		if nt := namedOf(t); nt != nil && nt == typeT {
			return true
		}
		switch u := t.Underlying().(type) {
		case *types.Slice:
			return containsType(u.Elem(), seen)
		case *types.Pointer:
			return containsType(u.Elem(), seen)
		case *types.Struct:
			if nt := namedOf(t); nt != nil && nt.Obj().Pkg() == astPkg.Types {
				for i := 0; i < u.NumFields(); i++ {
					if containsType(u.Field(i).Type(), seen) {
						return true
					}
				}
			}
		}
		return false
	}
	// IR node structs: the kind-specific members of Type, plus Object, Schema, StructField, EnumValue
	st := typeT.Underlying().(*types.Struct)
	var nodes []*types.Named
	for i := 0; i < st.NumFields(); i++ {
		if pt, ok := st.Field(i).Type().(*types.Pointer); ok {
			if nt := namedOf(pt.Elem()); nt != nil {
				nodes = append(nodes, nt)
			}
		}
	}
	for _, n := range []string{"Object", "Schema", "StructField", "EnumValue"} {
		if nt := ctx.LookupType("internal/ast", n); nt != nil {
			nodes = append(nodes, nt)
		}
	}
	for _, nt := range nodes {
		s, ok := nt.Underlying().(*types.Struct)
		if !ok {
			continue
		}
		for i := 0; i < s.NumFields(); i++ {
			f := s.Field(i)
			if containsType(f.Type(), map[types.Type]bool{}) {
				out[f] = nt.Obj().Name() + "." + f.Name()
			}
		}
	}
	return out
}

func checkC05(ctx *Ctx, r *Report) {
	r.Explanation = "Structural necessary conditions for references to keep resolving, decided from source: (1) the shared compiler.Visitor passes every Type-bearing field of every IR node (computed from go/types) to a Visit* method in its default branches — a skipped position is a position every rename/inline pass silently misses; (2) every name-changing pass (found by the effects engine: it stores into Object.Name of objects it did not create) also stores into every other position that names an object — RefType.ReferredType, ConstantReferenceType.ReferredType, discriminator mappings, Schema.EntryPoint — compares configured names with the same case rule for objects and references, and rewrites references under the same condition as it renames objects; (3) every object created in internal/ast/compiler reaches a registration sink; (4) object-removing passes: FilterSchemas follows both reference kinds and visits every allowed object unconditionally; InlineObjectsWithTypes collects over all schemas before rewriting any and removes only after rewriting; (5) parsers declare what they reference in their own package."
	r.NotCovered = "references into packages that were not loaded; replace_reference towards a non-existing object; whether two passes compose; that the rewritten name is the right one (only that every position is rewritten)."
	r.Exhaustive = true

	eng := newEffectsEngine(ctx)
	c05Visitor(ctx, r)
	c05NameChanging(ctx, r, eng)
	c05Registration(ctx, r)
	c05Removal(ctx, r)
	c05Parsers(ctx, r)
	c05ParserErrors(ctx, r)
	c05FreshRefsBacked(ctx, r)
	c05RemovedObjectsRewrittenEverywhere(ctx, r, eng)
	c05SubstitutedContentRevisited(ctx, r)
	c05EntryPointFollowsRemoval(ctx, r)
	c05OpenAPIMappingNames(ctx, r)
	c05RefFilePattern(ctx, r)
	c05GeneratedNamesUnique(ctx, r)
	c15ReferenceSiblings(ctx, r)
	c07ReferenceByBareName(ctx, r)
	c05FourthRound(ctx, r)
	c05FifthRound(ctx, r)
	c05SixthRound(ctx, r)
	c05SeventhRound(ctx, r)
	c05RemovedNamesComparedWithPackage(ctx, r)
	c05BothUnionHintsFollowed(ctx, r)
	c05OpenAPIExternalPackagesNamed(ctx, r)
	c18HintedBranchesVisited(ctx, r)
	c18SpreadFieldsCopied(ctx, r) // types shared by duplicates are renamed once through each: PA -> PPA, a dangling reference
	c07ObjectSetsKeyedByIdentity(ctx, r)
	c01DefinitionIdentity(ctx, r)
}

// ---------------------------------------------------------------------------
// (1) visitor completeness

func visitorMethods(ctx *Ctx) (map[*types.Func]*ast.FuncDecl, *packages.Package) {
	out := map[*types.Func]*ast.FuncDecl{}
	vt := ctx.LookupType("internal/ast/compiler", "Visitor")
	if vt == nil {
		return out, nil
	}
	var pkg *packages.Package
	for i := 0; i < vt.NumMethods(); i++ {
		if !strings.HasPrefix(vt.Method(i).Name(), "Visit") {
			continue
		}
		fd, p := ctx.DeclOf(vt.Method(i))
		if fd != nil {
			out[vt.Method(i)] = fd
			pkg = p
		}
	}
	return out, pkg
}

func c05Visitor(ctx *Ctx, r *Report) {
	positions := typeBearingFields(ctx)
	r.Count("type-bearing IR positions", len(positions))
	methods, pkg := visitorMethods(ctx)
	if pkg == nil || len(methods) < 8 {
		r.Undecided("anchor lost: compiler.Visitor and its Visit* methods")
		return
	}
	info := pkg.TypesInfo
	visited := map[*types.Var]token.Pos{}
	for _, fd := range methods {
		// range-variable aliases inside this method
		ranges := map[types.Object]ast.Expr{}
		ast.Inspect(fd.Body, func(n ast.Node) bool {
			if rs, ok := n.(*ast.RangeStmt); ok {
				if id, ok := rs.Value.(*ast.Ident); ok {
					ranges[objOf(info, id)] = rs.X
				}
			}
			return true
		})
		ast.Inspect(fd.Body, func(n ast.Node) bool {
			call, ok := n.(*ast.CallExpr)
			if !ok {
				return true
			}
			fn := callee(info, call)
			if fn == nil {
				return true
			}
			if _, isVisit := methods[fn]; !isVisit {
				return true
			}
			for _, a := range call.Args {
				e := ast.Unparen(a)
				if id, ok := e.(*ast.Ident); ok {
					if rx, ok := ranges[objOf(info, id)]; ok {
						e = rx
					}
				}
				ap := accessPathOf(info, e)
				if !ap.ok {
					continue
				}
				for i := len(ap.steps) - 1; i >= 0; i-- {
					if f := ap.steps[i].field; f != nil {
						if _, isPos := positions[f]; isPos {
							visited[f] = call.Pos()
						}
						break
					}
				}
			}
			return true
		})
	}
	// exception table (one reason each)
	exceptions := map[string]string{
		"EnumValue.Type":  "enum member types are scalars by construction (parsers and passes only build them with ast.String()/NewScalar): they cannot hold a reference",
		"EnumType.Values": "enum members carry scalar types only (see EnumValue.Type)",
	}
	names := make([]string, 0, len(positions))
	byName := map[string]*types.Var{}
	for f, n := range positions {
		names = append(names, n)
		byName[n] = f
	}
	sort.Strings(names)
	for _, n := range names {
		f := byName[n]
		if why, ok := exceptions[n]; ok {
			r.OK("traverse/visitor-position", n, f.Pos(), "exempt: "+why)
			continue
		}
		pos, ok := visited[f]
		if ok {
			r.OK("traverse/visitor-position", n, pos, "passed to a Visit* method by the visitor's default traversal")
		} else {
			r.Bad("traverse/visitor-position", n, f.Pos(), "the shared visitor never descends into "+n+": a reference (or any construct) stored there is invisible to every visitor-based pass (renames, inlining, reference following)")
		}
	}
	r.Floor("type-bearing IR positions", 9)

	// the default traversal of each container must be unconditional: a child is not skipped
	// because of its kind
	for m, fd := range methods {
		parents := parentMap(fd)
		ast.Inspect(fd.Body, func(n ast.Node) bool {
			call, ok := n.(*ast.CallExpr)
			if !ok {
				return true
			}
			fn := callee(info, call)
			if _, isVisit := methods[fn]; fn == nil || !isVisit {
				return true
			}
			if m.Name() == "VisitType" || m.Name() == "VisitSchemas" {
				return true // the kind dispatcher itself
			}
			bad := ""
			for _, c := range enclosingConds(parents, call) {
				if mentionsKindTest(info, c.stmt.Cond) {
					bad = exprString(c.stmt.Cond)
				}
			}
			for _, l := range enclosingLoops(parents, call) {
				var body *ast.BlockStmt
				switch x := l.(type) {
				case *ast.RangeStmt:
					body = x.Body
				case *ast.ForStmt:
					body = x.Body
				}
				for _, st := range body.List {
					if st.Pos() >= call.Pos() {
						break
					}
					if is, ok := st.(*ast.IfStmt); ok && len(is.Body.List) > 0 && mentionsKindTest(info, is.Cond) {
						if br, ok := is.Body.List[len(is.Body.List)-1].(*ast.BranchStmt); ok && (br.Tok == token.CONTINUE || br.Tok == token.BREAK) {
							bad = exprString(is.Cond)
						}
					}
				}
			}
			r.Check(bad == "", "traverse/visitor-unconditional", ctx.FuncName(m)+" visits "+exprString(call.Args[len(call.Args)-1]), call.Pos(), "children are visited whatever their kind",
				"the default traversal skips children depending on their kind ("+bad+"): constructs nested in the skipped children are invisible to every visitor-based pass")
			return true
		})
	}
}

// ---------------------------------------------------------------------------
// (2) name-changing passes

type passInfo struct {
	named   *types.Named
	process *types.Func
	facts   []WriteFact
}

func allPasses(ctx *Ctx, eng *effectsEngine) []passInfo {
	passI := ctx.LookupType("internal/ast/compiler", "Pass")
	if passI == nil {
		return nil
	}
	iface := passI.Underlying().(*types.Interface)
	var out []passInfo
	for _, nt := range eng.allNamed {
		if _, isI := nt.Underlying().(*types.Interface); isI {
			continue
		}
		if nt.Obj().Pkg().Path() != compilerPkgPath {
			continue
		}
		for _, T := range []types.Type{nt, types.NewPointer(nt)} {
			if types.Implements(T, iface) {
				obj, _, _ := types.LookupFieldOrMethod(T, true, nt.Obj().Pkg(), "Process")
				if f, ok := obj.(*types.Func); ok {
					out = append(out, passInfo{named: nt, process: f.Origin(), facts: eng.EffectsOf(f.Origin())})
				}
				break
			}
		}
	}
	sort.Slice(out, func(i, j int) bool { return out[i].named.Obj().Name() < out[j].named.Obj().Name() })
	return out
}

func factsWriteField(facts []WriteFact, f *types.Var, through *types.Var) (WriteFact, bool) {
	for _, w := range facts {
		if w.Final() != f {
			continue
		}
		if through != nil {
			ok := false
			for _, p := range w.Path {
				if p == through {
					ok = true
				}
			}
			if !ok {
				continue
			}
		}
		return w, true
	}
	return WriteFact{}, false
}

func c05NameChanging(ctx *Ctx, r *Report, eng *effectsEngine) {
	objName := astField(ctx, "Object", "Name")
	refReferred := astField(ctx, "RefType", "ReferredType")
	crefReferred := astField(ctx, "ConstantReferenceType", "ReferredType")
	mapping := astField(ctx, "DisjunctionType", "DiscriminatorMapping")
	entryPoint := astField(ctx, "Schema", "EntryPoint")
	typeRef := astField(ctx, "Type", "Ref")
	selfRef := astField(ctx, "Object", "SelfRef")
	if objName == nil || refReferred == nil || crefReferred == nil || mapping == nil || entryPoint == nil || typeRef == nil || selfRef == nil {
		r.Undecided("anchor lost: IR fields Object.Name / RefType.ReferredType / ConstantReferenceType.ReferredType / DisjunctionType.DiscriminatorMapping / Schema.EntryPoint")
		return
	}
	passes := allPasses(ctx, eng)
	r.Count("compiler passes analysed", len(passes))
	r.Floor("compiler passes analysed", 30)
	nameChanging := 0
	for _, p := range passes {
		if !c05RenamesObjects(ctx, p, objName) {
			continue
		}
		nameChanging++
		pname := p.named.Obj().Name()
		required := []struct {
			what    string
			field   *types.Var
			through *types.Var
		}{
			{"type references (RefType.ReferredType)", refReferred, typeRef},
			{"constant references (ConstantReferenceType.ReferredType)", crefReferred, nil},
			{"discriminator mapping targets (DisjunctionType.DiscriminatorMapping)", mapping, nil},
			{"the schema entry point (Schema.EntryPoint)", entryPoint, nil},
		}
		direct := c05DirectStores(ctx, p)
		for _, req := range required {
			w, ok := factsWriteField(p.facts, req.field, req.through)
			if !ok {
				w, ok = factsWriteField(direct, req.field, req.through)
			}
			cons := pname + " rewrites " + req.field.Name()
			if req.through != nil {
				cons = pname + " rewrites Ref." + req.field.Name()
			}
			if ok {
				r.OK("effects/rename-covers", cons, w.Pos, "writes "+req.what+" ("+w.String()+")")
			} else {
				r.Bad("effects/rename-covers", cons, p.process.Pos(), fmt.Sprintf("%s changes object names (stores into Object.Name) but never writes %s: such a reference to a renamed object dangles afterwards", pname, req.what))
			}
		}
		c05SelectorConsistency(ctx, r, p)
		c05UnconditionalRewrite(ctx, r, p, []*types.Var{refReferred, crefReferred, mapping})
		c05RenameGuardShape(ctx, r, p, map[*types.Var]bool{objName: true, refReferred: true, crefReferred: true, mapping: true, entryPoint: true})
	}
	r.Count("name-changing passes", nameChanging)
	r.Floor("name-changing passes", 2)
}

// methodsOf returns the methods of a named type that are reachable from its
// Process method (called, or used as method values — e.g. registered as
// visitor callbacks). A callback that is declared but no longer registered
// does not count.
func methodsOf(ctx *Ctx, nt *types.Named) []*ast.FuncDecl {
	byObj := map[*types.Func]*ast.FuncDecl{}
	var start *types.Func
	for i := 0; i < nt.NumMethods(); i++ {
		m := nt.Method(i)
		if fd, _ := ctx.DeclOf(m); fd != nil && fd.Body != nil {
			byObj[m] = fd
			if m.Name() == "Process" {
				start = m
			}
		}
	}
	if start == nil {
		var all []*ast.FuncDecl
		for _, fd := range byObj {
			all = append(all, fd)
		}
		sort.Slice(all, func(i, j int) bool { return all[i].Pos() < all[j].Pos() })
		return all
	}
	seen := map[*types.Func]bool{start: true}
	queue := []*types.Func{start}
	var out []*ast.FuncDecl
	for len(queue) > 0 {
		m := queue[0]
		queue = queue[1:]
		fd := byObj[m]
		out = append(out, fd)
		_, pkg := ctx.DeclOf(m)
		ast.Inspect(fd.Body, func(n ast.Node) bool {
			if id, ok := n.(*ast.Ident); ok {
				if f, ok := pkg.TypesInfo.Uses[id].(*types.Func); ok {
					f = f.Origin()
					if _, mine := byObj[f]; mine && !seen[f] {
						seen[f] = true
						queue = append(queue, f)
					}
				}
			}
			return true
		})
	}
	sort.Slice(out, func(i, j int) bool { return out[i].Pos() < out[j].Pos() })
	return out
}

// c05SelectorConsistency: a configured object name (a field of type
// ObjectReference / string on the pass) must not be compared with `==` in one
// place while objects are matched with the case-insensitive Matches helpers.
func c05SelectorConsistency(ctx *Ctx, r *Report, p passInfo) {
	pkg := ctx.Pkg("internal/ast/compiler")
	info := pkg.TypesInfo
	objRefT := ctx.LookupType("internal/ast/compiler", "ObjectReference")
	var objField *types.Var
	if objRefT != nil {
		st := objRefT.Underlying().(*types.Struct)
		for i := 0; i < st.NumFields(); i++ {
			if st.Field(i).Name() == "Object" {
				objField = st.Field(i)
			}
		}
	}
	usesMatches := false
	var rawCompare ast.Node
	for _, fd := range methodsOf(ctx, p.named) {
		ast.Inspect(fd.Body, func(n ast.Node) bool {
			switch x := n.(type) {
			case *ast.CallExpr:
				if fn := callee(info, x); fn != nil && (fn.Name() == "Matches" || fn.Name() == "MatchesRef") && fn.Pkg() != nil && fn.Pkg().Path() == compilerPkgPath {
					usesMatches = true
				}
			case *ast.BinaryExpr:
				if x.Op == token.EQL || x.Op == token.NEQ {
					for _, side := range []ast.Expr{x.X, x.Y} {
						if objField != nil && fieldOf(info, side) == objField {
							rawCompare = x
						}
					}
				}
			}
			return true
		})
	}
	cons := p.named.Obj().Name() + " name comparison"
	if usesMatches && rawCompare != nil {
		r.Bad("effects/selector-consistency", cons, rawCompare.Pos(), p.named.Obj().Name()+" selects objects case-insensitively (ObjectReference.Matches) but compares the configured object name with == elsewhere: for a name given in a different letter case the object is renamed while references to it are left behind")
	} else {
		r.OK("effects/selector-consistency", cons, p.process.Pos(), "one comparison rule for the configured name")
	}
}

// c05UnconditionalRewrite: when the pass renames every object unconditionally,
// every rewrite of a reference-bearing position must be unconditional too.
func c05UnconditionalRewrite(ctx *Ctx, r *Report, p passInfo, refFields []*types.Var) {
	pkg := ctx.Pkg("internal/ast/compiler")
	info := pkg.TypesInfo
	objName := astField(ctx, "Object", "Name")
	// is the object rename unconditional (inside its callback)?
	renameUnconditional := false
	for _, fd := range methodsOf(ctx, p.named) {
		parents := parentMap(fd)
		ast.Inspect(fd.Body, func(n ast.Node) bool {
			as, ok := n.(*ast.AssignStmt)
			if !ok {
				return true
			}
			for _, l := range as.Lhs {
				if fieldOf(info, l) == objName && len(enclosingConds(parents, as)) == 0 {
					renameUnconditional = true
				}
			}
			return true
		})
	}
	if !renameUnconditional {
		return
	}
	for _, fd := range methodsOf(ctx, p.named) {
		parents := parentMap(fd)
		fobj, _ := info.Defs[fd.Name].(*types.Func)
		ast.Inspect(fd.Body, func(n ast.Node) bool {
			as, ok := n.(*ast.AssignStmt)
			if !ok {
				return true
			}
			for _, l := range as.Lhs {
				lu := ast.Unparen(l)
				target := lu
				if ix, ok := lu.(*ast.IndexExpr); ok {
					target = ix.X
				}
				var f *types.Var
				if ff := fieldOf(info, target); ff != nil {
					f = ff
				}
				isRefField := false
				for _, rf := range refFields {
					if f == rf {
						isRefField = true
					}
				}
				// also: stores into a local map that is the rebuilt mapping (map[string]string value prefixed)
				if !isRefField {
					if ix, ok := lu.(*ast.IndexExpr); ok {
						if mt, ok := info.TypeOf(ix.X).Underlying().(*types.Map); ok && fd.Type.Results != nil && len(fd.Type.Results.List) == 1 {
							if rt, ok := info.TypeOf(fd.Type.Results.List[0].Type).Underlying().(*types.Map); ok && types.Identical(mt, rt) {
								isRefField = true
							}
						}
					}
				}
				if !isRefField {
					continue
				}
				r.Count("reference rewrites in renaming-all passes", 1)
				conds := enclosingConds(parents, as)
				pkgTested := false
				// a preceding `if … { continue|return }` in the same block also makes it conditional
				skipped := false
				if blk, ok := parents[as].(*ast.BlockStmt); ok {
					for _, st := range blk.List {
						if st == ast.Stmt(as) {
							break
						}
						if is, ok := st.(*ast.IfStmt); ok && len(is.Body.List) > 0 {
							if c05ProcessedPackageTest(ctx, info, p.named, is.Cond) {
								pkgTested = true
								continue // leaves for references to packages whose objects are not renamed
							}
							switch last := is.Body.List[len(is.Body.List)-1].(type) {
							case *ast.BranchStmt:
								if last.Tok == token.CONTINUE || last.Tok == token.BREAK {
									skipped = true
								}
							case *ast.ReturnStmt:
								// error returns are fine
								if len(last.Results) == 0 || isNilIdent(info, last.Results[len(last.Results)-1]) {
									skipped = true
								}
							}
						}
					}
				}
				okc := !skipped
				for _, c := range conds {
					// the reference is rewritten exactly when its target is renamed: its package is one of the processed schemas
					if c05ProcessedPackageTest(ctx, info, p.named, c.stmt.Cond) {
						pkgTested = true
						continue
					}
					// the presence test of the hint that holds the mapping is structural, not a name condition
					if call, ok := ast.Unparen(c.stmt.Cond).(*ast.CallExpr); ok {
						if fn := callee(info, call); fn != nil && fn.Name() == "HasHint" {
							continue
						}
					}
					// `if v, ok := x.Hints[k].(T); ok`: presence-and-type test of the hint, equally structural
					if init, ok := c.stmt.Init.(*ast.AssignStmt); ok && len(init.Rhs) == 1 {
						if ta, ok := ast.Unparen(init.Rhs[0]).(*ast.TypeAssertExpr); ok {
							if ix, ok := ast.Unparen(ta.X).(*ast.IndexExpr); ok {
								if f := fieldOf(info, ix.X); f != nil && f.Name() == "Hints" {
									continue
								}
							}
						}
					}
					okc = false
				}
				cons := ctx.FuncName(fobj) + " rewrites " + exprString(lu)
				r.Check(okc, "effects/rewrite-unconditional", cons, as.Pos(), "rewritten on every path, like the object names", "objects are renamed unconditionally but this reference-bearing position is rewritten only under a condition: for inputs on the other side of the condition the reference no longer names the renamed object")
				// the converse: only the objects of the processed schemas are renamed, so a position that can designate an
				// object of any package (a reference, a constant reference, a mapping entry) is rewritten under a test
				// of its package. The object's own SelfRef and stores of the unchanged name are not such positions.
				if strings.Contains(exprString(lu), "SelfRef") {
					continue
				}
				if ix, ok := as.Rhs[0].(*ast.Ident); ok && len(as.Rhs) == 1 && !strings.Contains(strings.ToLower(ix.Name), "prefix") {
					continue // `newMapping[k] = typeName`: the unchanged name
				}
				if c, ok := ast.Unparen(as.Rhs[0]).(*ast.CallExpr); ok && len(as.Rhs) == 1 {
					if fn := callee(info, c); fn != nil {
						if sig, _ := fn.Type().(*types.Signature); sig != nil && sig.Recv() != nil && namedOf(sig.Recv().Type()) == p.named {
							continue // delegated to a method of the pass, whose own stores are judged
						}
					}
				}
				r.Check(pkgTested, "effects/rewrite-only-renamed-packages", cons, as.Pos(), "rewritten only when the package of the designated object is one of the processed schemas",
					"the pass renames the objects of the schemas it is given and rewrites this reference-bearing position whatever package it designates: a reference to an object of a package that is not processed (preserved external references, a library imported by name) is renamed although its target is not, and names nothing")
			}
			return true
		})
	}
}

// ---------------------------------------------------------------------------
// (3) created objects reach a registration sink

func c05Registration(ctx *Ctx, r *Report) {
	pkg := ctx.Pkg("internal/ast/compiler")
	if pkg == nil {
		r.Undecided("package internal/ast/compiler not found")
		return
	}
	info := pkg.TypesInfo
	newObject := ctx.LookupFunc("internal/ast", "NewObject")
	sinks := map[string]bool{"RegisterNewObject": true, "AddObject": true, "AddObjects": true, "Set": true}
	for _, file := range pkg.Syntax {
		for _, d := range file.Decls {
			fd, ok := d.(*ast.FuncDecl)
			if !ok || fd.Body == nil {
				continue
			}
			fobj, _ := info.Defs[fd.Name].(*types.Func)
			parents := parentMap(fd)
			ast.Inspect(fd.Body, func(n ast.Node) bool {
				call, ok := n.(*ast.CallExpr)
				if !ok || callee(info, call) != newObject {
					return true
				}
				r.Count("objects created by passes", 1)
				cons := ctx.FuncName(fobj) + " creates an object"
				as, ok := parents[call].(*ast.AssignStmt)
				if !ok || len(as.Lhs) != 1 {
					// directly passed / returned
					switch pp := parents[call].(type) {
					case *ast.CallExpr:
						if fn := callee(info, pp); fn != nil && sinks[fn.Name()] {
							r.OK("traverse/registered", cons, call.Pos(), "passed to "+fn.Name())
							return true
						}
					case *ast.ReturnStmt:
						r.OK("traverse/registered", cons, call.Pos(), "returned to the caller")
						return true
					}
					r.Bad("traverse/registered", cons, call.Pos(), "object created but not bound, registered or returned")
					return true
				}
				id, _ := as.Lhs[0].(*ast.Ident)
				local := objOf(info, id)
				reached := ""
				ast.Inspect(fd.Body, func(m ast.Node) bool {
					switch x := m.(type) {
					case *ast.CallExpr:
						fn := callee(info, x)
						for _, a := range x.Args {
							if isIdentOf(info, a, local) {
								if fn != nil && sinks[fn.Name()] {
									reached = "passed to " + fn.Name()
								}
								if isBuiltinCall(info, x, "append") {
									reached = "appended to " + exprString(x.Args[0])
								}
							}
						}
					case *ast.ReturnStmt:
						for _, res := range x.Results {
							if isIdentOf(info, res, local) {
								reached = "returned to the caller"
							}
						}
					}
					return true
				})
				r.Check(reached != "", "traverse/registered", cons, call.Pos(), reached, "the new object is never registered with the visitor / added to a schema / handed on: a reference to it is created but the object is dropped")
				return true
			})
		}
	}
	r.Floor("objects created by passes", 5)
}

// ---------------------------------------------------------------------------
// (4) removal passes

func c05Removal(ctx *Ctx, r *Report) {
	pkg := ctx.Pkg("internal/ast/compiler")
	info := pkg.TypesInfo
	visitorT := ctx.LookupType("internal/ast/compiler", "Visitor")
	// FilterSchemas.buildAllowList
	fn := ctx.LookupMethod("internal/ast/compiler", "FilterSchemas", "buildAllowList")
	fd, _ := ctx.DeclOf(fn)
	if fd == nil || visitorT == nil {
		r.Undecided("anchor lost: FilterSchemas.buildAllowList")
	} else {
		parents := parentMap(fd)
		var lit *ast.CompositeLit
		ast.Inspect(fd.Body, func(n ast.Node) bool {
			if cl, ok := n.(*ast.CompositeLit); ok && namedOf(info.TypeOf(cl)) == visitorT {
				lit = cl
			}
			return true
		})
		set := map[string]bool{}
		if lit != nil {
			for _, el := range lit.Elts {
				if kv, ok := el.(*ast.KeyValueExpr); ok {
					if id, ok := kv.Key.(*ast.Ident); ok {
						set[id.Name] = true
					}
				}
			}
		}
		for _, cb := range []struct{ name, what string }{{"OnRef", "type references"}, {"OnConstantRef", "constant references"}} {
			r.Check(set[cb.name], "traverse/filter-follows", "FilterSchemas.buildAllowList follows "+cb.what, fd.Pos(), "the closure visitor has a "+cb.name+" callback",
				"the allow-list closure has no "+cb.name+" callback: objects reachable only through "+cb.what+" are dropped by allowed_objects while the references to them stay")
		}
		// the visit of each root object is unconditional w.r.t. the object's kind
		vm, _ := visitorMethods(ctx)
		ast.Inspect(fd.Body, func(n ast.Node) bool {
			call, ok := n.(*ast.CallExpr)
			if !ok {
				return true
			}
			c := callee(info, call)
			if c == nil {
				return true
			}
			if _, isVisit := vm[c]; !isVisit {
				return true
			}
			fl := enclosingFuncLit(parents, call)
			var scope ast.Node = fd.Body
			if fl != nil {
				scope = fl.Body
			}
			bad := ""
			// guards in the same function literal before the visit: only membership / lookup-failure tests
			ast.Inspect(scope, func(m ast.Node) bool {
				is, ok := m.(*ast.IfStmt)
				if !ok || is.Pos() > call.Pos() {
					return true
				}
				exits := false
				if len(is.Body.List) > 0 {
					if _, isRet := is.Body.List[len(is.Body.List)-1].(*ast.ReturnStmt); isRet {
						exits = true
					}
				}
				if !exits && !containsNode(is, call) {
					return true
				}
				if mentionsKindTest(info, is.Cond) {
					bad = exprString(is.Cond)
				}
				return true
			})
			r.Check(bad == "", "traverse/filter-follows", "FilterSchemas.buildAllowList visits every allowed object", call.Pos(), "the type of every allowed object is traversed, whatever its kind",
				"the traversal of an allowed object's type is skipped for some kinds ("+bad+"): references held by such objects (aliases, intersections, …) are not followed")
			return true
		})
	}

	// InlineObjectsWithTypes.Process: collect over all schemas, then rewrite, then remove
	fn = ctx.LookupMethod("internal/ast/compiler", "InlineObjectsWithTypes", "Process")
	fd, _ = ctx.DeclOf(fn)
	if fd == nil {
		r.Undecided("anchor lost: InlineObjectsWithTypes.Process")
		return
	}
	parents := parentMap(fd)
	vm, _ := visitorMethods(ctx)
	var collectPos, visitPos, removePos token.Pos
	var collectLoop, visitLoop ast.Node
	outerLoop := func(n ast.Node) ast.Node {
		var top ast.Node
		for p := parents[n]; p != nil; p = parents[p] {
			switch p.(type) {
			case *ast.RangeStmt, *ast.ForStmt:
				top = p
			}
		}
		return top
	}
	ast.Inspect(fd.Body, func(n ast.Node) bool {
		call, ok := n.(*ast.CallExpr)
		if !ok {
			return true
		}
		c := callee(info, call)
		if c == nil {
			return true
		}
		if funcIs(c, omapPkgPath, "Map.Set") {
			collectPos = call.Pos()
			collectLoop = outerLoop(call)
		}
		if _, isVisit := vm[c]; isVisit {
			visitPos = call.Pos()
			visitLoop = outerLoop(call)
		}
		if funcIs(c, omapPkgPath, "Map.Filter") {
			removePos = call.Pos()
		}
		return true
	})
	okOrder := collectPos.IsValid() && visitPos.IsValid() && removePos.IsValid() && collectPos < visitPos && visitPos < removePos && (visitLoop == nil || visitLoop != collectLoop)
	r.Check(okOrder, "traverse/inline-phases", "InlineObjectsWithTypes.Process", fd.Pos(),
		"objects to inline are collected over all schemas before any schema is rewritten, and removed only afterwards",
		"collection of inlinable objects, rewriting of references and removal are not three separate phases over all schemas: a reference to an alias of a schema processed later is left pointing at an object that is then removed")
}

func mentionsKindTest(info *types.Info, cond ast.Expr) bool {
	found := false
	ast.Inspect(cond, func(n ast.Node) bool {
		switch x := n.(type) {
		case *ast.CallExpr:
			if fn := callee(info, x); fn != nil && fn.Pkg() != nil && fn.Pkg().Path() == astPkgPath {
				if strings.HasPrefix(fn.Name(), "Is") || fn.Name() == "IsAnyOf" {
					found = true
				}
			}
		case *ast.SelectorExpr:
			if f := fieldOf(info, x); f != nil && f.Name() == "Kind" && f.Pkg() != nil && f.Pkg().Path() == astPkgPath {
				found = true
			}
		}
		return !found
	})
	return found
}

// ---------------------------------------------------------------------------
// (5) parsers declare what they reference

func c05Parsers(ctx *Ctx, r *Report) {
	newRef := ctx.LookupFunc("internal/ast", "NewRef")
	addObject := ctx.LookupMethod("internal/ast", "Schema", "AddObject")
	pkgField := astField(ctx, "Schema", "Package")
	hasFn := ctx.LookupMethod("internal/orderedmap", "Map", "Has")
	for _, rel := range []string{"internal/jsonschema", "internal/simplecue", "internal/openapi"} {
		p := ctx.Pkg(rel)
		if p == nil {
			r.Undecided("parser package %s not found", rel)
			continue
		}
		info := p.TypesInfo
		// declare functions: those that (directly) add an object to the schema
		declares := map[*types.Func]bool{}
		for _, file := range p.Syntax {
			for _, d := range file.Decls {
				fd, ok := d.(*ast.FuncDecl)
				if !ok || fd.Body == nil {
					continue
				}
				ast.Inspect(fd.Body, func(n ast.Node) bool {
					if c, ok := n.(*ast.CallExpr); ok && callee(info, c) == addObject {
						declares[info.Defs[fd.Name].(*types.Func)] = true
					}
					return true
				})
			}
		}
		for _, file := range p.Syntax {
			for _, d := range file.Decls {
				fd, ok := d.(*ast.FuncDecl)
				if !ok || fd.Body == nil {
					continue
				}
				fobj := info.Defs[fd.Name].(*types.Func)
				parents := parentMap(fd)
				n := 0
				ast.Inspect(fd.Body, func(node ast.Node) bool {
					call, ok := node.(*ast.CallExpr)
					if !ok || callee(info, call) != newRef || len(call.Args) < 2 {
						return true
					}
					n++
					r.Count("references created by parsers", 1)
					cons := fmt.Sprintf("%s NewRef #%d", ctx.FuncName(fobj), n)
					ownPkg := fieldOf(info, call.Args[0]) == pkgField
					nameArg := call.Args[1]
					declared := false
					ast.Inspect(fd.Body, func(m ast.Node) bool {
						c, ok := m.(*ast.CallExpr)
						if !ok || c.Pos() > call.Pos() || len(c.Args) == 0 {
							return true
						}
						if fn := callee(info, c); fn != nil && declares[fn] && sameAccessPath(info, c.Args[0], nameArg) {
							declared = true
						}
						return true
					})
					guarded := false
					for _, c := range enclosingConds(parents, call) {
						if hc, ok := ast.Unparen(c.stmt.Cond).(*ast.CallExpr); ok && !c.inElse && callee(info, hc) == hasFn && len(hc.Args) == 1 && sameAccessPath(info, hc.Args[0], nameArg) {
							guarded = true
						}
					}
					switch {
					case declared:
						r.OK("traverse/parser-declares", cons, call.Pos(), "the referred definition is declared before the reference is returned")
					case guarded:
						r.OK("traverse/parser-declares", cons, call.Pos(), "reference returned only when the object already exists")
					case !ownPkg:
						r.OK("traverse/parser-declares", cons, call.Pos(), "reference into a package named by a variable (external package or components declared up front): outside the claim")
					default:
						r.Bad("traverse/parser-declares", cons, call.Pos(), "a reference into the schema's own package is created without declaring the referred definition (and without checking that it exists)")
					}
					return true
				})
			}
		}
	}
	// openapi: all components are declared up front
	if p := ctx.Pkg("internal/openapi"); p != nil {
		gen := ctx.LookupFunc("internal/openapi", "GenerateAST")
		fd, _ := ctx.DeclOf(gen)
		ok := false
		if fd != nil {
			ast.Inspect(fd.Body, func(n ast.Node) bool {
				if c, isCall := n.(*ast.CallExpr); isCall && len(c.Args) == 1 {
					if f := fieldOf(p.TypesInfo, c.Args[0]); f != nil && f.Name() == "Schemas" {
						ok = true
					}
				}
				return true
			})
		}
		r.Check(ok, "traverse/parser-declares", "internal/openapi.GenerateAST declares all components", gen.Pos(), "every component schema is declared before references are resolved", "OpenAPI components are no longer declared up front")
	}
	r.Floor("references created by parsers", 6)
}

// c05RenamesObjects: some method of the pass assigns Object.Name of an object
// it did not create itself (DeepCopy / NewObject results are new objects, not
// renames of existing ones).
func c05RenamesObjects(ctx *Ctx, p passInfo, objName *types.Var) bool {
	pkg := ctx.Pkg("internal/ast/compiler")
	info := pkg.TypesInfo
	found := false
	for _, fd := range methodsOf(ctx, p.named) {
		fresh := map[types.Object]bool{}
		ast.Inspect(fd.Body, func(n ast.Node) bool {
			as, ok := n.(*ast.AssignStmt)
			if !ok || len(as.Lhs) != len(as.Rhs) {
				return true
			}
			for i, l := range as.Lhs {
				id, ok := l.(*ast.Ident)
				if !ok {
					continue
				}
				if c, ok := ast.Unparen(as.Rhs[i]).(*ast.CallExpr); ok {
					if isCopyCall(info, c) {
						fresh[objOf(info, id)] = true
					}
					if fn := callee(info, c); fn != nil && fn.Name() == "NewObject" {
						fresh[objOf(info, id)] = true
					}
				}
			}
			return true
		})
		ast.Inspect(fd.Body, func(n ast.Node) bool {
			as, ok := n.(*ast.AssignStmt)
			if !ok {
				return true
			}
			for _, l := range as.Lhs {
				if fieldOf(info, l) != objName {
					continue
				}
				if root := rootIdent(l); root != nil && !fresh[objOf(info, root)] {
					found = true
				}
			}
			return true
		})
	}
	return found
}

// c05DirectStores: stores written in the bodies of the pass's own methods
// (func literals included), whatever their root — passes work on by-value
// copies that they return, so these stores are not all visible as effects.
func c05DirectStores(ctx *Ctx, p passInfo) []WriteFact {
	pkg := ctx.Pkg("internal/ast/compiler")
	info := pkg.TypesInfo
	var out []WriteFact
	for _, fd := range methodsOf(ctx, p.named) {
		ast.Inspect(fd.Body, func(n ast.Node) bool {
			as, ok := n.(*ast.AssignStmt)
			if !ok {
				return true
			}
			for _, l := range as.Lhs {
				ap := accessPathOf(info, l)
				if !ap.ok {
					continue
				}
				w := WriteFact{Root: rootUnknown, Kind: "store", Pos: as.Pos(), Direct: true}
				for _, sp := range ap.steps {
					if sp.field != nil {
						w.Path = append(w.Path, sp.field)
					}
				}
				if len(w.Path) > 0 {
					out = append(out, w)
				}
			}
			return true
		})
	}
	return out
}

// c05RenameGuardShape: in a selective name-changing pass, the condition under
// which the object is renamed and the conditions under which each
// reference-bearing position is rewritten must all be the bare selector test
// (Matches / MatchesRef of the same configured reference), with nothing
// conjoined: any extra conjunct on one side renames objects without their
// references, or references without their object.
func c05RenameGuardShape(ctx *Ctx, r *Report, p passInfo, nameFields map[*types.Var]bool) {
	pkg := ctx.Pkg("internal/ast/compiler")
	info := pkg.TypesInfo
	for _, fd := range methodsOf(ctx, p.named) {
		parents := parentMap(fd)
		fobj, _ := info.Defs[fd.Name].(*types.Func)
		n := 0
		ast.Inspect(fd.Body, func(node ast.Node) bool {
			as, ok := node.(*ast.AssignStmt)
			if !ok {
				return true
			}
			for _, l := range as.Lhs {
				lu := ast.Unparen(l)
				target := lu
				if ix, ok := lu.(*ast.IndexExpr); ok {
					target = ix.X
				}
				f := fieldOf(info, target)
				if f == nil || !nameFields[f] {
					continue
				}
				if root := rootIdent(lu); root != nil && isFreshLocal(info, fd, objOf(info, root)) {
					continue
				}
				conds := enclosingConds(parents, as)
				if len(conds) == 0 {
					continue // unconditional passes are handled by rewrite-unconditional
				}
				n++
				bad := ""
				for _, c := range conds {
					cond := ast.Unparen(c.stmt.Cond)
					if u, ok := cond.(*ast.UnaryExpr); ok && u.Op == token.NOT {
						cond = ast.Unparen(u.X)
					}
					switch x := cond.(type) {
					case *ast.CallExpr:
						fn := callee(info, x)
						if fn != nil && (fn.Name() == "Matches" || fn.Name() == "MatchesRef" || fn.Name() == "HasHint" || fn.Name() == "EqualFold") {
							continue
						}
						if fn != nil && strings.HasPrefix(fn.Name(), "Is") {
							continue // kind test (e.g. only structs are unspec-ed)
						}
						bad = exprString(c.stmt.Cond)
					case *ast.BinaryExpr:
						if x.Op == token.LAND || x.Op == token.LOR {
							// a conjunction is fine only if every conjunct is a selector/kind test of the visited item
							okAll := true
							var visit func(e ast.Expr)
							visit = func(e ast.Expr) {
								e = ast.Unparen(e)
								if be, ok := e.(*ast.BinaryExpr); ok && (be.Op == token.LAND || be.Op == token.LOR) {
									visit(be.X)
									visit(be.Y)
									return
								}
								if u, ok := e.(*ast.UnaryExpr); ok && u.Op == token.NOT {
									okAll = false // a negated extra condition narrows one side only
									return
								}
								if ce, ok := e.(*ast.CallExpr); ok {
									if fn := callee(info, ce); fn != nil && (fn.Name() == "Matches" || fn.Name() == "MatchesRef" || fn.Name() == "EqualFold" || strings.HasPrefix(fn.Name(), "Is")) {
										return
									}
								}
								if be, ok := e.(*ast.BinaryExpr); ok && (be.Op == token.EQL || be.Op == token.NEQ) {
									return
								}
								okAll = false
							}
							visit(x)
							if !okAll {
								bad = exprString(c.stmt.Cond)
							}
							continue
						}
						// simple comparison (found-in-map test, != "")
					case *ast.Ident:
						// boolean result of a lookup (`found`)
					default:
						bad = exprString(c.stmt.Cond)
					}
				}
				cons := fmt.Sprintf("%s guard of %s", ctx.FuncName(fobj), exprString(lu))
				r.Check(bad == "", "effects/rename-guard-shape", cons, as.Pos(), "guarded by the selector test only",
					"the rename/rewrite of "+exprString(lu)+" is subject to an extra condition ("+bad+") that the other name-bearing positions are not subject to: the object and the references to it are no longer renamed together")
			}
			return true
		})
	}
}

// ---------------------------------------------------------------------------
// c05ParserErrors: the front-ends register a definition's name before walking it (so that recursive definitions
// resolve) and add the object only once the walk succeeded. That is sound only because a failed walk fails the whole
// parse: an error swallowed on the way up leaves the name registered and every later `$ref` to it yields a reference to
// an object that was never added. Rule: in the three front-end packages, the error returned by a call to one of the
// package's own functions is tested in the statement that follows, and the `err != nil` branch leaves the function
// returning a non-nil error.
func c05ParserErrors(ctx *Ctx, r *Report) {
	n := 0
	errT := types.Universe.Lookup("error").Type()
	for _, rel := range []string{"internal/jsonschema", "internal/openapi", "internal/simplecue"} {
		p := ctx.Pkg(rel)
		if p == nil {
			r.Undecided("anchor lost: package %s", rel)
			continue
		}
		info := p.TypesInfo
		for _, file := range p.Syntax {
			for _, d := range file.Decls {
				fd, ok := d.(*ast.FuncDecl)
				if !ok || fd.Body == nil {
					continue
				}
				fobj, _ := info.Defs[fd.Name].(*types.Func)
				seen := map[string]int{}
				parents := parentMap(fd)
				var visitBlock func(list []ast.Stmt)
				checkCall := func(call *ast.CallExpr, errObj types.Object, follow []ast.Stmt, self *ast.IfStmt) {
					fn := callee(info, call)
					if fn == nil || fn.Pkg() != p.Types {
						return
					}
					sig, _ := fn.Type().(*types.Signature)
					if sig == nil || sig.Results().Len() == 0 || !types.Identical(sig.Results().At(sig.Results().Len()-1).Type(), errT) {
						return
					}
					n++
					name := fn.Name()
					seen[name]++
					cons := fmt.Sprintf("%s checks the error of %s #%d", ctx.FuncName(fobj), name, seen[name])
					// the test: `self` (if with init) or the next statement
					var test *ast.IfStmt
					if self == nil && len(follow) == 0 {
						follow = continuation(parents, call)
					}
					if self != nil {
						test = self
					} else if len(follow) > 0 {
						test, _ = follow[0].(*ast.IfStmt)
					}
					why := ""
					switch {
					case errObj == nil:
						why = "the error result is discarded"
					case test == nil:
						// `return g.walk(…)`-like uses never reach here; a missing test is a dropped error unless the next statement returns err
						if len(follow) > 0 {
							if rs, ok := follow[0].(*ast.ReturnStmt); ok && len(rs.Results) > 0 {
								if id, ok := ast.Unparen(rs.Results[len(rs.Results)-1]).(*ast.Ident); ok && objOf(info, id) == errObj {
									break
								}
							}
						}
						why = "the statement that follows does not test the error"
					default:
						// walk the if / else-if chain: the branch whose condition is `err != nil` (alone or in a conjunction)
						found := false
						for cur := test; cur != nil; {
							if condTestsNonNil(info, cur.Cond, errObj) {
								found = true
								if !blockReturnsError(info, cur.Body, errT) && !endsInPanic(cur.Body) {
									why = "the `err != nil` branch does not leave the function with an error (it continues, or returns nil)"
								}
								break
							}
							next, _ := cur.Else.(*ast.IfStmt)
							cur = next
						}
						if !found {
							why = "the statement that follows does not test the error against nil"
						}
					}
					r.Check(why == "", "flow/parser-error-propagated", cons, call.Pos(), "a failed walk fails the parse",
						fmt.Sprintf("%s: %s. The front-end registers a definition's name before walking it; when the walk's error is swallowed the name stays registered while the object is never added, so a later reference to it dangles (and a construct cog cannot represent disappears silently instead of failing the run)", ctx.FuncName(fobj), why))
				}
				visitBlock = func(list []ast.Stmt) {
					for i, st := range list {
						switch x := st.(type) {
						case *ast.AssignStmt:
							if len(x.Rhs) == 1 {
								if call, ok := ast.Unparen(x.Rhs[0]).(*ast.CallExpr); ok {
									var errObj types.Object
									if id, ok := x.Lhs[len(x.Lhs)-1].(*ast.Ident); ok && id.Name != "_" {
										errObj = objOf(info, id)
									}
									checkCall(call, errObj, list[i+1:], nil)
								}
							}
						case *ast.ExprStmt:
							if call, ok := ast.Unparen(x.X).(*ast.CallExpr); ok {
								checkCall(call, nil, nil, nil)
							}
						case *ast.IfStmt:
							if as, ok := x.Init.(*ast.AssignStmt); ok && len(as.Rhs) == 1 {
								if call, ok := ast.Unparen(as.Rhs[0]).(*ast.CallExpr); ok {
									var errObj types.Object
									if id, ok := as.Lhs[len(as.Lhs)-1].(*ast.Ident); ok && id.Name != "_" {
										errObj = objOf(info, id)
									}
									checkCall(call, errObj, nil, x)
								}
							}
						}
					}
				}
				ast.Inspect(fd.Body, func(m ast.Node) bool {
					switch x := m.(type) {
					case *ast.BlockStmt:
						visitBlock(x.List)
					case *ast.CaseClause:
						visitBlock(x.Body)
					}
					return true
				})
			}
		}
	}
	r.Count("front-end calls whose error must fail the parse", n)
	r.Floor("front-end calls whose error must fail the parse", 40)
}

func condTestsNonNil(info *types.Info, cond ast.Expr, obj types.Object) bool {
	cond = ast.Unparen(cond)
	if be, ok := cond.(*ast.BinaryExpr); ok {
		if be.Op == token.LAND {
			return condTestsNonNil(info, be.X, obj) || condTestsNonNil(info, be.Y, obj)
		}
		if be.Op == token.NEQ {
			for _, pr := range [][2]ast.Expr{{be.X, be.Y}, {be.Y, be.X}} {
				if id, ok := ast.Unparen(pr[0]).(*ast.Ident); ok && objOf(info, id) == obj && isNilIdent(info, pr[1]) {
					return true
				}
			}
		}
	}
	return false
}

// the block's last statement is a return whose last result is an error-typed expression other than nil
func blockReturnsError(info *types.Info, b *ast.BlockStmt, errT types.Type) bool {
	if len(b.List) == 0 {
		return false
	}
	rs, ok := b.List[len(b.List)-1].(*ast.ReturnStmt)
	if !ok || len(rs.Results) == 0 {
		return false
	}
	last := rs.Results[len(rs.Results)-1]
	if isNilIdent(info, last) {
		return false
	}
	t := info.TypeOf(last)
	return t != nil && types.AssignableTo(t, errT)
}

func endsInPanic(b *ast.BlockStmt) bool {
	if len(b.List) == 0 {
		return false
	}
	if es, ok := b.List[len(b.List)-1].(*ast.ExprStmt); ok {
		if c, ok := es.X.(*ast.CallExpr); ok {
			if id, ok := c.Fun.(*ast.Ident); ok && id.Name == "panic" {
				return true
			}
		}
	}
	return false
}

// continuation: the statements executed after the one containing n when that one is the last of its block: the
// followers of the enclosing if / switch / block statement, climbing while nothing follows. Loops and function literals
// stop the climb (falling off a loop body runs the loop again).
func continuation(parents map[ast.Node]ast.Node, n ast.Node) []ast.Stmt {
	var cur ast.Node = n
	for cur != nil {
		par := parents[cur]
		switch x := par.(type) {
		case *ast.BlockStmt:
			switch parents[x].(type) {
			case *ast.SwitchStmt, *ast.TypeSwitchStmt, *ast.SelectStmt:
				// the clauses of a switch do not follow one another
			default:
				for i, st := range x.List {
					if ast.Node(st) == cur {
						if i+1 < len(x.List) {
							return x.List[i+1:]
						}
					}
				}
			}
		case *ast.CaseClause:
			for i, st := range x.Body {
				if ast.Node(st) == cur {
					if i+1 < len(x.Body) {
						return x.Body[i+1:]
					}
				}
			}
		case *ast.ForStmt, *ast.RangeStmt, *ast.FuncLit, *ast.FuncDecl:
			return nil
		}
		cur = par
	}
	return nil
}

// c05FreshRefsBacked: a pass that builds a reference to a name it computed itself (not a name read from an existing
// reference or object) must know that an object of that name exists *in that package*: either it creates the object in
// the same function (ast.NewObject with the same name), or the reference is built under a test that asks the visitor /
// the schema for that very (package, name) pair. A private memory of names ("already generated") says nothing about the
// package at hand.
func c05FreshRefsBacked(ctx *Ctx, r *Report) {
	pkg := ctx.Pkg("internal/ast/compiler")
	newRef := ctx.LookupFunc("internal/ast", "NewRef")
	newObject := ctx.LookupFunc("internal/ast", "NewObject")
	if pkg == nil || newRef == nil || newObject == nil {
		r.Undecided("anchor lost: ast.NewRef / ast.NewObject")
		return
	}
	info := pkg.TypesInfo
	n := 0
	for _, file := range pkg.Syntax {
		for _, d := range file.Decls {
			fd, ok := d.(*ast.FuncDecl)
			if !ok || fd.Body == nil {
				continue
			}
			fobj, _ := info.Defs[fd.Name].(*types.Func)
			parents := parentMap(fd)
			k := 0
			ast.Inspect(fd.Body, func(m ast.Node) bool {
				call, ok := m.(*ast.CallExpr)
				if !ok || callee(info, call) != newRef || len(call.Args) < 2 {
					return true
				}
				nameID, ok := ast.Unparen(call.Args[1]).(*ast.Ident)
				if !ok {
					return true // a name read from an object / reference / the configuration
				}
				v, ok := objOf(info, nameID).(*types.Var)
				if !ok || v.IsField() {
					return true
				}
				n++
				k++
				pkgArg := exprString(call.Args[0])
				backed := ""
				// (a) created in this function
				ast.Inspect(fd.Body, func(q ast.Node) bool {
					if c, ok := q.(*ast.CallExpr); ok && callee(info, c) == newObject && len(c.Args) >= 2 && c.Pos() < call.Pos() {
						if id, ok := ast.Unparen(c.Args[1]).(*ast.Ident); ok && objOf(info, id) == v {
							backed = "the object is created in the same function (ast.NewObject with the same name)"
						}
					}
					return true
				})
				// (b) built under an existence test on the same pair
				if backed == "" {
					for _, ce := range enclosingConds(parents, call) {
						if ce.inElse {
							continue
						}
						ast.Inspect(ce.stmt.Cond, func(q ast.Node) bool {
							c, ok := q.(*ast.CallExpr)
							if !ok {
								return true
							}
							fn := callee(info, c)
							if fn == nil {
								return true
							}
							switch fn.Name() {
							case "HasNewObject", "LocateObject", "LocateObjectByRef", "Has":
							default:
								return true
							}
							mentionsName, mentionsPkg := false, false
							ast.Inspect(c, func(z ast.Node) bool {
								if id, ok := z.(*ast.Ident); ok && objOf(info, id) == v {
									mentionsName = true
								}
								if e, ok := z.(ast.Expr); ok && exprString(e) == pkgArg {
									mentionsPkg = true
								}
								return true
							})
							// schema.LocateObject(name): the receiver is the schema whose package is used
							if sel, ok := c.Fun.(*ast.SelectorExpr); ok && strings.HasPrefix(pkgArg, exprString(sel.X)+".") {
								mentionsPkg = true
							}
							if mentionsName && mentionsPkg {
								backed = "built under `" + exprString(ce.stmt.Cond) + "`, which asks for this package and name"
							}
							return true
						})
					}
				}
				r.Check(backed != "", "traverse/fresh-ref-backed", fmt.Sprintf("%s reference to computed name %s #%d", ctx.FuncName(fobj), nameID.Name, k), call.Pos(), backed,
					fmt.Sprintf("%s builds a reference to %s.%s, a name it computed, without creating that object in the same function and without asking the visitor / schema whether (%s, %s) exists: in a package where the object was not generated the reference dangles", ctx.FuncName(fobj), pkgArg, nameID.Name, pkgArg, nameID.Name))
				return true
			})
		}
	}
	r.Count("references to computed names built by passes", n)
	r.Floor("references to computed names built by passes", 3)
}

// c05RemovedObjectsRewrittenEverywhere: a pass that removes objects from a schema has to redirect *every* reference to
// them — references sit in list items, map values, union branches, nested structs, not only directly in struct fields.
// The shared Visitor offers exactly that (OnRef is called for every reference position; traverse/visitor-position
// checks its completeness). A pass that calls Objects.Remove and rewrites references by hand over struct fields only
// leaves the other positions dangling. RemoveIntersections (Java chain) does: recorded finding.
func c05RemovedObjectsRewrittenEverywhere(ctx *Ctx, r *Report, eng *effectsEngine) {
	pkg := ctx.Pkg("internal/ast/compiler")
	if pkg == nil {
		return
	}
	info := pkg.TypesInfo
	visitorT := ctx.LookupType("internal/ast/compiler", "Visitor")
	n := 0
	for _, p := range allPasses(ctx, eng) {
		removes := false
		hasOnRef := false
		for _, fd := range methodsOf(ctx, p.named) {
			ast.Inspect(fd.Body, func(m ast.Node) bool {
				switch x := m.(type) {
				case *ast.CallExpr:
					if sel, ok := x.Fun.(*ast.SelectorExpr); ok && sel.Sel.Name == "Remove" && strings.HasSuffix(exprString(sel.X), ".Objects") {
						removes = true
					}
				case *ast.CompositeLit:
					if namedOf(info.TypeOf(x)) == visitorT {
						for _, el := range x.Elts {
							if kv, ok := el.(*ast.KeyValueExpr); ok {
								if id, ok := kv.Key.(*ast.Ident); ok && id.Name == "OnRef" {
									hasOnRef = true
								}
							}
						}
					}
				}
				return true
			})
		}
		if !removes {
			continue
		}
		n++
		name := p.named.Obj().Name()
		why := c05RemovalExempt[name]
		r.Check(hasOnRef || why != "", "traverse/removed-object-references-rewritten", name+" redirects references to the objects it removes", p.named.Obj().Pos(),
			map[bool]string{true: "through the visitor's OnRef callback (every reference position)", false: "reviewed: " + why}[hasOnRef],
			name+" removes objects from the schema (Objects.Remove) but has no OnRef callback: it rewrites the references it finds directly in struct fields only — a list, map or union that refers to a removed object keeps a dangling reference (Java: `List<Variable>` with no class Variable)")
	}
	r.Count("passes removing objects from a schema", n)
	r.Floor("passes removing objects from a schema", 1)
}

// passes that call Objects.Remove for a reviewed reason (none today: Omit and FilterSchemas filter the ordered map)
var c05RemovalExempt = map[string]string{}

// c05SubstitutedContentRevisited: a pass that replaces references by the content of the objects they designate and
// then removes those objects must treat the substituted content like the rest of the schema — the content can hold
// references to other objects the pass removes. Shape decided: for every pass type whose methods delete objects
// (Objects.Filter / Objects.Remove) and whose OnRef callback returns something else than the reference it was
// given, the callback hands the substituted value back to the visitor (a Visit* call on its Visitor parameter).
func c05SubstitutedContentRevisited(ctx *Ctx, r *Report) {
	p := ctx.Pkg("internal/ast/compiler")
	if p == nil {
		r.Undecided("anchor lost: internal/ast/compiler")
		return
	}
	info := p.TypesInfo
	// OnRef: <method value> in Visitor literals
	type cb struct {
		recv *types.Named
		fd   *ast.FuncDecl
	}
	var cbs []cb
	for _, f := range p.Syntax {
		ast.Inspect(f, func(n ast.Node) bool {
			kv, ok := n.(*ast.KeyValueExpr)
			if !ok {
				return true
			}
			k, ok := kv.Key.(*ast.Ident)
			if !ok || k.Name != "OnRef" {
				return true
			}
			sel, ok := ast.Unparen(kv.Value).(*ast.SelectorExpr)
			if !ok {
				return true
			}
			fn, _ := info.Uses[sel.Sel].(*types.Func)
			if fn == nil {
				return true
			}
			fd, _ := ctx.DeclOf(fn)
			sig, _ := fn.Type().(*types.Signature)
			if fd == nil || sig == nil || sig.Recv() == nil {
				return true
			}
			cbs = append(cbs, cb{namedOf(sig.Recv().Type()), fd})
			return true
		})
	}
	r.Count("OnRef callbacks bound to methods", len(cbs))
	r.Floor("OnRef callbacks bound to methods", 3)
	n := 0
	for _, c := range cbs {
		if c.recv == nil || c.fd.Body == nil {
			continue
		}
		// does the pass delete objects?
		deletes := false
		for _, m := range methodsOf(ctx, c.recv) {
			ast.Inspect(m.Body, func(k ast.Node) bool {
				if call, ok := k.(*ast.CallExpr); ok {
					if s, ok := ast.Unparen(call.Fun).(*ast.SelectorExpr); ok && (s.Sel.Name == "Filter" || s.Sel.Name == "Remove") && strings.HasSuffix(exprString(s.X), ".Objects") {
						deletes = true
					}
				}
				return true
			})
		}
		if !deletes {
			continue
		}
		// parameters: visitor, schema, def
		var params []types.Object
		for _, f := range c.fd.Type.Params.List {
			if len(f.Names) == 0 {
				params = append(params, nil)
			}
			for _, nm := range f.Names {
				params = append(params, info.Defs[nm])
			}
		}
		if len(params) != 3 {
			continue
		}
		substitutes := false
		ast.Inspect(c.fd.Body, func(k ast.Node) bool {
			if _, ok := k.(*ast.FuncLit); ok {
				return false
			}
			if rs, ok := k.(*ast.ReturnStmt); ok && len(rs.Results) == 2 && isNilIdent(info, rs.Results[1]) {
				if id := rootIdent(rs.Results[0]); id == nil || params[2] == nil || objOf(info, id) != params[2] {
					substitutes = true
				}
			}
			return true
		})
		if !substitutes {
			continue
		}
		n++
		revisits := false
		ast.Inspect(c.fd.Body, func(k ast.Node) bool {
			if call, ok := k.(*ast.CallExpr); ok {
				if s, ok := ast.Unparen(call.Fun).(*ast.SelectorExpr); ok && strings.HasPrefix(s.Sel.Name, "Visit") {
					if id, ok := ast.Unparen(s.X).(*ast.Ident); ok && params[0] != nil && objOf(info, id) == params[0] {
						revisits = true
					}
				}
			}
			return true
		})
		cons := ctx.RelPkg(p.PkgPath) + "." + c.recv.Obj().Name() + "." + c.fd.Name.Name + " revisits what it substitutes"
		r.Check(revisits, "traverse/substituted-content-revisited", cons, c.fd.Pos(),
			"the substituted value goes back through the visitor",
			"the pass deletes objects and its OnRef callback replaces references by other content without handing that content back to the visitor: a reference held by the substituted content to another deleted object is left dangling (`A: [...B]; B: [...string]; S: {x: A}` → S.x: array of B, B gone)")
	}
	r.Count("deleting passes whose OnRef substitutes content", n)
	r.Floor("deleting passes whose OnRef substitutes content", 1)
}

// c05EntryPointFollowsRemoval: Schema.EntryPoint / EntryPointType name an object of the schema. Every pass that
// deletes objects (Objects.Filter assigned back, Objects.Remove) reconciles them: some method of the pass assigns
// the EntryPoint of a schema.
func c05EntryPointFollowsRemoval(ctx *Ctx, r *Report) {
	p := ctx.Pkg("internal/ast/compiler")
	if p == nil {
		r.Undecided("anchor lost: internal/ast/compiler")
		return
	}
	info := p.TypesInfo
	type site struct {
		pos  token.Pos
		what string
	}
	deleting := map[*types.Named]site{}
	writes := map[*types.Named]bool{}
	ctx.AllFuncDecls(func(pk *packages.Package, fd *ast.FuncDecl, obj *types.Func) {
		if pk != p || fd.Body == nil || fd.Recv == nil {
			return
		}
		sig, _ := obj.Type().(*types.Signature)
		if sig == nil || sig.Recv() == nil {
			return
		}
		recv := namedOf(sig.Recv().Type())
		if recv == nil {
			return
		}
		ast.Inspect(fd.Body, func(n ast.Node) bool {
			switch x := n.(type) {
			case *ast.AssignStmt:
				for i, l := range x.Lhs {
					if s, ok := ast.Unparen(l).(*ast.SelectorExpr); ok {
						if s.Sel.Name == "EntryPoint" {
							if f := fieldOf(info, s); f != nil {
								writes[recv] = true
							}
						}
						if s.Sel.Name == "Objects" && i < len(x.Rhs) {
							if c, ok := ast.Unparen(x.Rhs[i]).(*ast.CallExpr); ok {
								if cs, ok := ast.Unparen(c.Fun).(*ast.SelectorExpr); ok && cs.Sel.Name == "Filter" {
									deleting[recv] = site{x.Pos(), "filters the objects of a schema"}
								}
							}
						}
					}
				}
			case *ast.CallExpr:
				if s, ok := ast.Unparen(x.Fun).(*ast.SelectorExpr); ok && s.Sel.Name == "Remove" && strings.HasSuffix(exprString(s.X), ".Objects") {
					deleting[recv] = site{x.Pos(), "removes objects from a schema"}
				}
			}
			return true
		})
	})
	var names []string
	byName := map[string]*types.Named{}
	for t := range deleting {
		names = append(names, t.Obj().Name())
		byName[t.Obj().Name()] = t
	}
	sort.Strings(names)
	for _, nm := range names {
		t := byName[nm]
		r.Check(writes[t], "traverse/entry-point-follows-removal", "internal/ast/compiler."+nm+" reconciles the entry point", deleting[t].pos,
			"a method of the pass assigns Schema.EntryPoint",
			"the pass "+deleting[t].what+" and never assigns Schema.EntryPoint: when the object it deletes is the entry point of the schema, EntryPoint and EntryPointType keep naming an object that does not exist any more (the JSON Schema output then writes a root $ref to a missing definition)")
	}
	r.Count("passes that delete objects", len(names))
	r.Floor("passes that delete objects", 4)
}

// c05OpenAPIMappingNames: in the OpenAPI front-end a discriminator mapping value is a schema name or a reference
// (`#/components/schemas/Cat`); references are turned into object names by getRefName (walkRef does). The mapping
// copied into the IR must go through the same function, or its targets name no object.
func c05OpenAPIMappingNames(ctx *Ctx, r *Report) {
	fn := ctx.LookupMethod("internal/openapi", "generator", "getDiscriminator")
	fd, p := ctx.DeclOf(fn)
	if fd == nil || fd.Body == nil {
		r.Undecided("anchor lost: openapi.generator.getDiscriminator")
		return
	}
	info := p.TypesInfo
	n := 0
	ast.Inspect(fd.Body, func(m ast.Node) bool {
		as, ok := m.(*ast.AssignStmt)
		if !ok {
			return true
		}
		for i, l := range as.Lhs {
			ix, ok := ast.Unparen(l).(*ast.IndexExpr)
			if !ok {
				continue
			}
			if _, isMap := info.TypeOf(ix.X).Underlying().(*types.Map); !isMap {
				continue
			}
			n++
			var rhs ast.Expr
			if len(as.Rhs) == len(as.Lhs) {
				rhs = as.Rhs[i]
			} else if len(as.Rhs) == 1 {
				rhs = as.Rhs[0]
			}
			through := false
			if c, ok := ast.Unparen(rhs).(*ast.CallExpr); ok {
				if f := callee(info, c); f != nil && f.Name() == "getRefName" {
					through = true
				}
			}
			r.Check(through, "frontier/openapi-mapping-through-refname", "openapi.getDiscriminator stores mapping targets", as.Pos(),
				"the stored value is a result of getRefName",
				"the mapping values are copied as they are written ("+exprString(rhs)+"): for the reference form `#/components/schemas/Cat` the IR's discriminator mapping names an object that does not exist, while walkRef turns the very same string into `Cat`")
		}
		return true
	})
	r.Count("stores into the discriminator mapping of the OpenAPI front-end", n)
	r.Floor("stores into the discriminator mapping of the OpenAPI front-end", 1)
}

// c05ProcessedPackageTest: cond is `[!]recv.M(e)` where M is a method of the pass that tests membership of its argument
// in a map field of the pass, and Process fills that field with the Package of every schema it is given — the set of
// packages whose objects the pass renames. A reference is rewritten under that test exactly when its target is.
func c05ProcessedPackageTest(ctx *Ctx, info *types.Info, pass *types.Named, cond ast.Expr) bool {
	cond = ast.Unparen(cond)
	if u, ok := cond.(*ast.UnaryExpr); ok && u.Op == token.NOT {
		cond = ast.Unparen(u.X)
	}
	call, ok := cond.(*ast.CallExpr)
	if !ok || len(call.Args) != 1 {
		return false
	}
	fn := callee(info, call)
	if fn == nil {
		return false
	}
	sig, _ := fn.Type().(*types.Signature)
	if sig == nil || sig.Recv() == nil || namedOf(sig.Recv().Type()) != pass {
		return false
	}
	fd, p := ctx.DeclOf(fn)
	if fd == nil || fd.Body == nil || fd.Type.Params.NumFields() != 1 || len(fd.Type.Params.List[0].Names) != 1 {
		return false
	}
	pinfo := p.TypesInfo
	param := pinfo.Defs[fd.Type.Params.List[0].Names[0]]
	var field *types.Var
	ast.Inspect(fd.Body, func(n ast.Node) bool {
		if ix, ok := n.(*ast.IndexExpr); ok {
			if id, ok := ast.Unparen(ix.Index).(*ast.Ident); ok && pinfo.Uses[id] == param {
				if f := fieldOf(pinfo, ix.X); f != nil {
					if _, isMap := f.Type().Underlying().(*types.Map); isMap {
						field = f
					}
				}
			}
		}
		return true
	})
	if field == nil {
		return false
	}
	// Process fills the field from the schemas it is given, and nothing else stores into it
	filled, otherStores := false, false
	for _, m := range methodsOf(ctx, pass) {
		mp := m
		_, mpk := ctx.DeclOf(ctx.LookupMethod(ctx.RelPkg(pass.Obj().Pkg().Path()), pass.Obj().Name(), mp.Name.Name))
		if mpk == nil {
			continue
		}
		minfo := mpk.TypesInfo
		ast.Inspect(mp.Body, func(n ast.Node) bool {
			as, ok := n.(*ast.AssignStmt)
			if !ok {
				return true
			}
			for _, l := range as.Lhs {
				ix, ok := ast.Unparen(l).(*ast.IndexExpr)
				if !ok || fieldOf(minfo, ix.X) != field {
					continue
				}
				if mp.Name.Name == "Process" && strings.HasSuffix(exprString(ix.Index), ".Package") {
					filled = true
				} else {
					otherStores = true
				}
			}
			return true
		})
	}
	return filled && !otherStores
}

// c05RefFilePattern: getRefName of the OpenAPI front-end decides with a regular expression whether a `$ref` points
// into another file; everything else is a reference into the same document. The expression must match a real
// extension: the dot before (json|yml) is escaped and the extension is followed by the end of the string, `/` or `#`.
// Otherwise `#/components/schemas/Geojson` (any char + "json") is taken for a file and the reference gets a package
// made of the start of the pointer.
func c05RefFilePattern(ctx *Ctx, r *Report) {
	fn := ctx.LookupMethod("internal/openapi", "generator", "getRefName")
	fd, p := ctx.DeclOf(fn)
	if fd == nil || fd.Body == nil {
		r.Undecided("anchor lost: openapi.generator.getRefName")
		return
	}
	info := p.TypesInfo
	n := 0
	ast.Inspect(fd.Body, func(m ast.Node) bool {
		c, ok := m.(*ast.CallExpr)
		if !ok || len(c.Args) != 1 {
			return true
		}
		f := callee(info, c)
		if f == nil || f.Pkg() == nil || f.Pkg().Path() != "regexp" {
			return true
		}
		tv, ok := info.Types[c.Args[0]]
		if !ok || tv.Value == nil {
			return true
		}
		n++
		pattern := constant.StringVal(tv.Value)
		// a literal dot, then a group of extensions (letters, `?` for an optional one), then the anchor
		ext := regexp.MustCompile(`\\\.\((?:[a-z?]+\|)*[a-z?]+\)(\(\$\||\$$)`)
		escaped := ext.MatchString(pattern)
		anchored := escaped
		r.Check(escaped && anchored, "frontier/ref-file-pattern", "openapi.getRefName file-reference pattern", c.Pos(), "the extension is a literal dot followed by json / yml, at the end or before `/` or `#`",
			"the pattern "+pattern+" matches any character before json / yml anywhere in the reference: a same-document reference to a schema named Geojson or Appyml is taken for a reference into a file, and names no object")
		return true
	})
	r.Count("regular expressions in openapi.getRefName", n)
	r.Floor("regular expressions in openapi.getRefName", 1)
}

// c05GeneratedNamesUnique: a pass that creates an object under a name it computes (concatenation of parent and
// field names, a type name built from the branches of a union) can compute the name of an object that exists:
// `Panel.options.legend` and `PanelOptions.legend` both give PanelOptionsLegend, and AddObject replaces silently —
// one of the two structs disappears and both fields refer to the survivor. Every ast.NewObject in the compiler
// passes whose name is not taken from the pass's configuration is preceded, in the same function, by a test that the
// name is free (a lookup of that name in a set / the schema / the visitor's new objects).
func c05GeneratedNamesUnique(ctx *Ctx, r *Report) {
	p := ctx.Pkg("internal/ast/compiler")
	newObject := ctx.LookupFunc("internal/ast", "NewObject")
	if p == nil || newObject == nil {
		r.Undecided("anchor lost: compiler / ast.NewObject")
		return
	}
	info := p.TypesInfo
	n := 0
	ctx.AllFuncDecls(func(pk *packages.Package, fd *ast.FuncDecl, obj *types.Func) {
		if pk != p || fd.Body == nil {
			return
		}
		seen := 0
		ast.Inspect(fd.Body, func(m ast.Node) bool {
			c, ok := m.(*ast.CallExpr)
			if !ok || callee(info, c) != newObject || len(c.Args) < 2 {
				return true
			}
			name := ast.Unparen(c.Args[1])
			// names given by the configuration of the pass (pass.As, pass.Object.Object, …) are the user's choice
			if root := rootIdent(name); root != nil {
				if fd.Recv != nil && len(fd.Recv.List) > 0 && len(fd.Recv.List[0].Names) > 0 && objOf(info, root) == info.Defs[fd.Recv.List[0].Names[0]] {
					return true
				}
			}
			id, isIdent := name.(*ast.Ident)
			if !isIdent {
				return true
			}
			n++
			seen++
			tested := false
			ast.Inspect(fd.Body, func(k ast.Node) bool {
				if k == nil || k.Pos() > c.Pos() {
					return true
				}
				switch x := k.(type) {
				case *ast.IndexExpr:
					if _, isMap := info.TypeOf(x.X).Underlying().(*types.Map); isMap && isIdentOf(info, x.Index, objOf(info, id)) {
						tested = true
					}
				case *ast.CallExpr:
					// (the visitor's HasNewObject only knows the objects this pass created: it does not say that the schema
					// holds no object of that name)
					if f := callee(info, x); f != nil && f.Name() != "HasNewObject" && (strings.HasPrefix(f.Name(), "Has") || strings.HasPrefix(f.Name(), "Locate")) {
						for _, a := range x.Args {
							found := false
							ast.Inspect(a, func(q ast.Node) bool {
								if qi, ok := q.(*ast.Ident); ok && objOf(info, qi) == objOf(info, id) {
									found = true
								}
								return true
							})
							if found {
								tested = true
							}
						}
					}
				}
				return true
			})
			cons := fmt.Sprintf("%s creates an object named %s", ctx.FuncName(obj), id.Name)
			if seen > 1 {
				cons = fmt.Sprintf("%s #%d", cons, seen)
			}
			r.Check(tested, "traverse/generated-names-unique", cons, c.Pos(), "the computed name is looked up before the object is created",
				"the pass creates an object under the computed name "+id.Name+" without looking whether an object of that name exists (in the schema or among the objects it created): the new object replaces the other one silently, and every reference to either resolves to the survivor")
			return true
		})
	})
	r.Count("objects created under computed names", n)
	r.Floor("objects created under computed names", 3)
}

// c05FourthRound — third hunting pass.
// (a) OpenAPI: only the direct entries of components.schemas are declared as objects, so walkRef may emit a
// reference only for a $ref it has tested to designate such an entry; on the other path it has to go on with the
// schema the reference resolves to (schema.Value). (b) CUE: only the top-level fields of another package are
// objects there: declareReference / stringOrIntegerFromEnum emit a (constant) reference into another package only
// after a test on the number of selectors of the path. (c) A struct generated from a disjunction keeps the
// disjunction (branches, discriminator mapping) in a hint: a pass whose OnDisjunction handler rewrites discriminator
// mappings needs an OnStruct handler that reads that hint, or the mapping the unmarshallers are generated from keeps
// the old names.
func c05FourthRound(ctx *Ctx, r *Report) {
	// (a)
	if fn := ctx.LookupMethod("internal/openapi", "generator", "walkRef"); fn == nil {
		r.Undecided("anchor lost: openapi.generator.walkRef")
	} else {
		fd, p := ctx.DeclOf(fn)
		info := p.TypesInfo
		tested, inlines := false, false
		for _, st := range fd.Body.List {
			is, ok := st.(*ast.IfStmt)
			if !ok {
				continue
			}
			onRef := false
			ast.Inspect(is.Cond, func(m ast.Node) bool {
				if c, ok := m.(*ast.CallExpr); ok {
					for _, a := range c.Args {
						if s, ok := ast.Unparen(a).(*ast.SelectorExpr); ok && s.Sel.Name == "Ref" {
							onRef = true
						}
					}
				}
				return true
			})
			if !onRef {
				continue
			}
			tested = true
			ast.Inspect(is.Body, func(m ast.Node) bool {
				if c, ok := m.(*ast.CallExpr); ok {
					if f := callee(info, c); f != nil && f.Pkg() == p.Types && strings.HasPrefix(f.Name(), "walk") {
						for _, a := range c.Args {
							if s, ok := ast.Unparen(a).(*ast.SelectorExpr); ok && s.Sel.Name == "Value" {
								inlines = true
							}
						}
					}
				}
				return true
			})
		}
		r.Count("hunted clauses of the parsers (4th round)", 1)
		r.Check(tested && inlines, "frontier/openapi-ref-to-component", "openapi.walkRef only refers to declared component schemas", fd.Pos(), "a $ref that is not a direct entry of components.schemas is replaced by the schema it resolves to",
			"walkRef turns every $ref into a reference named after the last segment of its text: `#/components/schemas/Dashboard/properties/time` becomes a reference to an object `time` that is declared nowhere (only the direct entries of components.schemas are)")
	}
	// (b)
	if p := ctx.Pkg("internal/simplecue"); p != nil {
		info := p.TypesInfo
		n := 0
		selectorsTestBefore := func(path []ast.Node, call ast.Node) bool {
			// an `if … Selectors() … { … return }` among the statements that precede the call in an enclosing block
			for i := len(path) - 1; i >= 0; i-- {
				blk, ok := path[i].(*ast.BlockStmt)
				if !ok {
					continue
				}
				for _, st := range blk.List {
					if st.Pos() >= call.Pos() {
						break
					}
					is, ok := st.(*ast.IfStmt)
					if !ok || len(is.Body.List) == 0 {
						continue
					}
					if _, ok := is.Body.List[len(is.Body.List)-1].(*ast.ReturnStmt); !ok {
						continue
					}
					if strings.Contains(exprString(is.Cond), ".Selectors()") {
						return true
					}
				}
			}
			return false
		}
		for _, file := range p.Syntax {
			for _, d := range file.Decls {
				fd, ok := d.(*ast.FuncDecl)
				if !ok || fd.Body == nil || (fd.Name.Name != "declareReference" && fd.Name.Name != "stringOrIntegerFromEnum") {
					continue
				}
				var stack []ast.Node
				ast.Inspect(fd.Body, func(m ast.Node) bool {
					if m == nil {
						stack = stack[:len(stack)-1]
						return true
					}
					stack = append(stack, m)
					c, ok := m.(*ast.CallExpr)
					if !ok {
						return true
					}
					what := ""
					if sel, ok := c.Fun.(*ast.SelectorExpr); ok && sel.Sel.Name == "externalReferenceFunc" {
						what = "a reference through externalReferenceFunc"
					}
					if f := callee(info, c); f != nil && f.Name() == "NewConstantReferenceType" {
						what = "a constant reference"
					}
					if what == "" {
						return true
					}
					n++
					ok2 := selectorsTestBefore(stack, c)
					if !ok2 && what == "a constant reference" {
						// the foreign case is the else-part of `if refPkg == g.schema.Package`: look inside the if/else that precedes
						for _, st := range enclosingBlock(stack).List {
							if is, ok := st.(*ast.IfStmt); ok && st.Pos() < c.Pos() && is.Else != nil {
								ast.Inspect(is.Else, func(q ast.Node) bool {
									if inner, ok := q.(*ast.IfStmt); ok && strings.Contains(exprString(inner.Cond), ".Selectors()") && len(inner.Body.List) > 0 {
										if _, ok := inner.Body.List[len(inner.Body.List)-1].(*ast.ReturnStmt); ok {
											ok2 = true
										}
									}
									return true
								})
							}
						}
					}
					r.Check(ok2, "frontier/cue-nested-external-value", fmt.Sprintf("simplecue.%s emits %s", fd.Name.Name, what), c.Pos(), "only after the number of selectors of the path has been tested",
						fmt.Sprintf("simplecue.%s emits %s into another package for any path: `common.#Dashboard.time` is reduced to its last selector and becomes a reference to common.time, an object the package common does not have (only its top-level fields are declared)", fd.Name.Name, what))
					return true
				})
			}
		}
		r.Count("references into other packages emitted by the CUE front-end", n)
		r.Floor("references into other packages emitted by the CUE front-end", 2)
	}
	// (c)
	if p := ctx.Pkg("internal/ast/compiler"); p != nil {
		info := p.TypesInfo
		storesMapping := func(fn *types.Func) bool {
			seen := map[*types.Func]bool{}
			var rec func(fn *types.Func, depth int) bool
			rec = func(fn *types.Func, depth int) bool {
				if fn == nil || seen[fn] || depth > 2 {
					return false
				}
				seen[fn] = true
				fd, _ := ctx.DeclOf(fn)
				if fd == nil || fd.Body == nil {
					return false
				}
				found := false
				ast.Inspect(fd.Body, func(m ast.Node) bool {
					switch x := m.(type) {
					case *ast.AssignStmt:
						for _, l := range x.Lhs {
							if strings.Contains(exprString(l), "DiscriminatorMapping") {
								found = true
							}
						}
					case *ast.CallExpr:
						if f := callee(info, x); f != nil && f.Pkg() == p.Types && rec(f, depth+1) {
							found = true
						}
					}
					return true
				})
				return found
			}
			return rec(fn, 0)
		}
		readsHint := func(fn *types.Func) bool {
			fd, _ := ctx.DeclOf(fn)
			if fd == nil || fd.Body == nil {
				return false
			}
			found := false
			ast.Inspect(fd.Body, func(m ast.Node) bool {
				if id, ok := m.(*ast.Ident); ok {
					if namesRefsHint(ctx, info.Uses[id]) {
						found = true
					}
				}
				return true
			})
			return found
		}
		n := 0
		for _, file := range p.Syntax {
			ast.Inspect(file, func(m ast.Node) bool {
				cl, ok := m.(*ast.CompositeLit)
				if !ok {
					return true
				}
				if nt := namedOf(info.TypeOf(cl)); nt == nil || nt.Obj().Name() != "Visitor" {
					return true
				}
				var onDisj, onStruct, onRef *types.Func
				for _, el := range cl.Elts {
					kv, ok := el.(*ast.KeyValueExpr)
					if !ok {
						continue
					}
					var h *types.Func
					if sel, ok := kv.Value.(*ast.SelectorExpr); ok {
						h, _ = info.Uses[sel.Sel].(*types.Func)
					}
					switch exprString(kv.Key) {
					case "OnDisjunction":
						onDisj = h
					case "OnStruct":
						onStruct = h
					case "OnRef":
						onRef = h
					}
				}
				if onDisj == nil || !storesMapping(onDisj) {
					return true
				}
				// a pass that changes names: its OnRef handler stores a referred type
				renames := false
				if onRef != nil {
					if fd, _ := ctx.DeclOf(onRef); fd != nil && fd.Body != nil {
						ast.Inspect(fd.Body, func(q ast.Node) bool {
							if as, ok := q.(*ast.AssignStmt); ok {
								for _, l := range as.Lhs {
									if strings.HasSuffix(exprString(l), ".ReferredType") {
										renames = true
									}
								}
							}
							return true
						})
					}
				}
				if !renames {
					return true
				}
				n++
				r.Check(onStruct != nil && readsHint(onStruct), "traverse/hinted-disjunction-follows", ctx.FuncName(onDisj)+" has a struct handler for the disjunction kept in hints", cl.Pos(), "the OnStruct handler reads the disjunction_of_refs hint",
					"the pass rewrites discriminator mappings of disjunctions but has no OnStruct handler reading the `disjunction_of_refs` hint: a struct generated by disjunction_to_type keeps the old names in the mapping the Go and Java unmarshallers are generated from (`var cat Cat` — undefined)")
				return true
			})
		}
		r.Count("passes rewriting discriminator mappings", n)
		r.Floor("passes rewriting discriminator mappings", 2)
	}
}

func enclosingBlock(stack []ast.Node) *ast.BlockStmt {
	for i := len(stack) - 1; i >= 0; i-- {
		if b, ok := stack[i].(*ast.BlockStmt); ok {
			return b
		}
	}
	return &ast.BlockStmt{}
}

// c05FifthRound — third hunt:
//   - OpenAPI: the object a `$ref` designates is named after the *decoded* last token of the reference (the objects
//     are named after the keys of components.schemas, which are not escaped);
//   - CUE: the package name declared by the sources is mapped to the configured package whatever the number of files
//     the package is made of (an instance built from several files has no source file);
//   - unspec: the references to a renamed `spec` are rewritten in every schema, after every schema has been renamed.
func c05FifthRound(ctx *Ctx, r *Report) {
	n := 0
	// (a)
	if fp := ctx.Pkg("internal/openapi"); fp == nil {
		r.Undecided("anchor lost: internal/openapi")
	} else if fd := c12Method(fp, "getRefName"); fd == nil {
		r.Undecided("anchor lost: openapi.getRefName")
	} else {
		pct, tilde, slash := false, false, false
		bodies := []ast.Node{fd.Body}
		ast.Inspect(fd.Body, func(m ast.Node) bool {
			if c, ok := m.(*ast.CallExpr); ok {
				if f := callee(fp.TypesInfo, c); f != nil && f.Pkg() == fp.Types {
					if hfd, _ := ctx.DeclOf(f); hfd != nil && hfd.Body != nil && hfd != fd {
						bodies = append(bodies, hfd.Body)
					}
				}
			}
			return true
		})
		for _, b := range bodies {
			ast.Inspect(b, func(m ast.Node) bool {
				switch x := m.(type) {
				case *ast.CallExpr:
					if f := callee(fp.TypesInfo, x); f != nil && f.Pkg() != nil && f.Pkg().Path() == "net/url" && (f.Name() == "PathUnescape" || f.Name() == "QueryUnescape") {
						pct = true
					}
				case *ast.BasicLit:
					switch x.Value {
					case `"~0"`:
						tilde = true
					case `"~1"`:
						slash = true
					}
				}
				return true
			})
		}
		n++
		r.Check(pct && tilde && slash, "frontier/ref-token-decoded", "openapi.getRefName decodes the last token of the reference", fd.Pos(), "percent-decoding and JSON Pointer unescaping are undone",
			"the referred object is named after the last token of the `$ref` taken as is: '#/components/schemas/My%2DType' (which the loader resolves to the schema My-Type) gives `ref api.My%2DType` while the object is api.My-Type — a dangling reference")
	}
	// (b)
	if fp := ctx.Pkg("internal/simplecue"); fp == nil {
		r.Undecided("anchor lost: internal/simplecue")
	} else if fn := ctx.LookupFunc("internal/simplecue", "newReferenceResolver"); fn == nil {
		r.Undecided("anchor lost: simplecue.newReferenceResolver")
	} else if fd, _ := ctx.DeclOf(fn); fd != nil {
		parents := parentMap(fd)
		unconditional := false
		stores := 0
		ast.Inspect(fd.Body, func(m ast.Node) bool {
			as, ok := m.(*ast.AssignStmt)
			if !ok || len(as.Lhs) != 1 || len(as.Rhs) != 1 {
				return true
			}
			ix, ok := ast.Unparen(as.Lhs[0]).(*ast.IndexExpr)
			if !ok || !strings.HasSuffix(exprString(ix.X), ".importsAliasMap") || !strings.HasSuffix(exprString(as.Rhs[0]), ".SchemaPackage") {
				return true
			}
			stores++
			// is this store subject to "the value's source is one file"?
			single := false
			for _, c := range enclosingConds(parents, as) {
				text := ""
				if init, ok := c.stmt.Init.(*ast.AssignStmt); ok && len(init.Rhs) == 1 {
					text += exprString(init.Rhs[0])
				}
				text += exprString(c.stmt.Cond)
				if strings.Contains(text, "Source()") {
					single = true
				}
			}
			if !single {
				unconditional = true
			}
			return true
		})
		if stores == 0 {
			r.Undecided("anchor changed: simplecue.newReferenceResolver no longer maps the declared package to SchemaPackage")
		} else {
			n++
			r.Check(unconditional, "frontier/cue-package-name-mapped", "simplecue.newReferenceResolver maps the declared package name", fd.Pos(), "the mapping does not depend on the value having a single source file",
				"the package name declared by the CUE sources is mapped to the configured package only when root.Source() is a file: a package spread over several files (Source() is nil) loaded with `package: renamed` gets objects in `renamed` and references to `multi.Local` — which exists nowhere")
		}
	}
	// (c)
	if named := ctx.LookupType("internal/ast/compiler", "Unspec"); named == nil {
		r.Undecided("anchor lost: compiler.Unspec")
	} else {
		cp := ctx.Pkg("internal/ast/compiler")
		info := cp.TypesInfo
		var process *ast.FuncDecl
		var rewriter *types.Func // the method that builds the rewriting Visitor
		for _, fd := range methodsOf(ctx, named) {
			if fd.Name.Name == "Process" {
				process = fd
			}
			hasVisitor := false
			ast.Inspect(fd.Body, func(m ast.Node) bool {
				if cl, ok := m.(*ast.CompositeLit); ok && namedName(info.TypeOf(cl)) == "Visitor" {
					hasVisitor = true
				}
				return true
			})
			if hasVisitor {
				rewriter, _ = info.Defs[fd.Name].(*types.Func)
			}
		}
		if process == nil || rewriter == nil {
			r.Undecided("anchor changed: compiler.Unspec has no Process / no method building a Visitor")
		} else {
			// the rewriting happens in a loop of Process that comes after the loop in which objects are renamed:
			// a single loop doing both can only know the names changed in the schemas it has already seen
			var loops []*ast.RangeStmt
			for _, st := range process.Body.List {
				if rs, ok := st.(*ast.RangeStmt); ok {
					loops = append(loops, rs)
				}
			}
			calls := func(rs *ast.RangeStmt, f *types.Func) bool {
				found := false
				ast.Inspect(rs.Body, func(m ast.Node) bool {
					if c, ok := m.(*ast.CallExpr); ok && callee(info, c) == f {
						found = true
					}
					return true
				})
				return found
			}
			rewriteLoop := -1
			for i, rs := range loops {
				if calls(rs, rewriter) {
					rewriteLoop = i
				}
			}
			// the table handed to the rewriter is keyed by package
			byPackage := false
			if sig, ok := rewriter.Type().(*types.Signature); ok {
				for i := 0; i < sig.Params().Len(); i++ {
					if mt, ok := sig.Params().At(i).Type().Underlying().(*types.Map); ok {
						if _, inner := mt.Elem().Underlying().(*types.Map); inner {
							byPackage = true
						}
					}
				}
			}
			n++
			r.Check(rewriteLoop >= 1 && byPackage, "siblings/unspec-rewrites-every-schema", "compiler.Unspec.Process rewrites references across schemas", process.Pos(), "references are rewritten in a second loop over all schemas, from a table keyed by package",
				"Unspec renames the `spec` object of a schema and rewrites the references found in that schema only: `from: library.spec` in package dashboard keeps pointing to library.spec after library.spec became library.library — a dangling reference")
		}
	}
	// (d) RemoveIntersections: the object that replaces a removed one can be removed too (an alias of an alias). Every
	// method that takes a replacement out of objectsToRemove (binds the value) follows the chain: it has a loop that looks
	// the replacement's own name up again.
	if named := ctx.LookupType("internal/ast/compiler", "RemoveIntersections"); named == nil {
		r.Undecided("anchor lost: compiler.RemoveIntersections")
	} else {
		cp := ctx.Pkg("internal/ast/compiler")
		info := cp.TypesInfo
		readers := 0
		for _, fd := range methodsOf(ctx, named) {
			var bound []*ast.Ident
			ast.Inspect(fd.Body, func(m ast.Node) bool {
				as, ok := m.(*ast.AssignStmt)
				if !ok || len(as.Lhs) != 2 || len(as.Rhs) != 1 {
					return true
				}
				ix, ok := ast.Unparen(as.Rhs[0]).(*ast.IndexExpr)
				if !ok || !strings.HasSuffix(exprString(ix.X), ".objectsToRemove") {
					return true
				}
				if id, ok := as.Lhs[0].(*ast.Ident); ok && id.Name != "_" {
					bound = append(bound, id)
				}
				return true
			})
			if len(bound) == 0 {
				continue
			}
			readers++
			follows := false
			ast.Inspect(fd.Body, func(m ast.Node) bool {
				var body *ast.BlockStmt
				switch x := m.(type) {
				case *ast.ForStmt:
					body = x.Body
				case *ast.RangeStmt:
					body = x.Body
				}
				if body == nil {
					return true
				}
				ast.Inspect(body, func(k ast.Node) bool {
					if ix, ok := k.(*ast.IndexExpr); ok && strings.HasSuffix(exprString(ix.X), ".objectsToRemove") {
						for _, b := range bound {
							if sel, ok := ast.Unparen(ix.Index).(*ast.SelectorExpr); ok && sel.Sel.Name == "Name" {
								if id, ok := ast.Unparen(sel.X).(*ast.Ident); ok && objOf(info, id) == objOf(info, b) {
									follows = true
								}
							}
						}
					}
					return true
				})
				return true
			})
			fobj, _ := info.Defs[fd.Name].(*types.Func)
			r.Check(follows, "traverse/replacement-chain-followed", ctx.FuncName(fobj)+" takes a replacement out of objectsToRemove", fd.Pos(), "the replacement's own name is looked up again until an object that stays",
				ctx.FuncName(fobj)+" redirects to the object recorded for the removed one without asking whether that object is removed too: `#Variable: {…}; #Alias: #Variable; #Other: #Alias; Root: {v: #Variable}` ends with Root.v = ref Alias while only Other and Root remain (Java chain)")
		}
		if readers == 0 {
			r.Undecided("anchor changed: no method of RemoveIntersections takes a replacement out of objectsToRemove")
		}
		n++
	}
	r.Count("hunted clauses of the reference rules (5th round)", n)
	r.Floor("hunted clauses of the reference rules (5th round)", 4)
}

// c05SixthRound — fourth hunt:
//   - unspec drops the envelope's `metadata` object: the schemas' own object of that name, which they refer to, stays —
//     the test that drops it also consults the set of referred objects, built by a Visitor following both reference kinds;
//   - RemoveIntersections: the Visitor that redirects references to the objects the pass removes also redirects the
//     *names* kept next to references — discriminator mappings (OnDisjunction) and the union kept in the hints of a
//     struct generated from a disjunction (OnStruct);
//   - a kind registry is one input made of several packages: `allowed_objects` is applied once, over all of them (the
//     per-kind loaders, which filter one package at a time, get no `allowed_objects`).
func c05SixthRound(ctx *Ctx, r *Report) {
	n := 0
	cp := ctx.Pkg("internal/ast/compiler")
	if cp == nil {
		r.Undecided("anchor lost: internal/ast/compiler")
		return
	}
	info := cp.TypesInfo
	visitorHandlers := func(cl *ast.CompositeLit) map[string]ast.Expr {
		out := map[string]ast.Expr{}
		for _, el := range cl.Elts {
			if kv, ok := el.(*ast.KeyValueExpr); ok {
				out[exprString(kv.Key)] = kv.Value
			}
		}
		return out
	}
	// (a)
	if named := ctx.LookupType("internal/ast/compiler", "Unspec"); named == nil {
		r.Undecided("anchor lost: compiler.Unspec")
	} else {
		// methods of the pass returning a map and holding a Visitor with OnRef and OnConstantRef: reference collectors
		collectors := map[*types.Func]bool{}
		for _, fd := range methodsOf(ctx, named) {
			fobj, _ := info.Defs[fd.Name].(*types.Func)
			if fobj == nil {
				continue
			}
			sig := fobj.Type().(*types.Signature)
			if sig.Results().Len() != 1 {
				continue
			}
			if _, isMap := sig.Results().At(0).Type().Underlying().(*types.Map); !isMap {
				continue
			}
			ast.Inspect(fd.Body, func(m ast.Node) bool {
				if cl, ok := m.(*ast.CompositeLit); ok && namedName(info.TypeOf(cl)) == "Visitor" {
					h := visitorHandlers(cl)
					if h["OnRef"] != nil && h["OnConstantRef"] != nil {
						collectors[fobj] = true
					}
				}
				return true
			})
		}
		// the closure that drops `metadata`
		found := 0
		for _, fd := range methodsOf(ctx, named) {
			ast.Inspect(fd.Body, func(m ast.Node) bool {
				fl, ok := m.(*ast.FuncLit)
				if !ok {
					return true
				}
				drops := false
				ast.Inspect(fl.Body, func(k ast.Node) bool {
					if bl, ok := k.(*ast.BasicLit); ok && bl.Value == `"metadata"` {
						drops = true
					}
					return true
				})
				if !drops {
					return true
				}
				found++
				// a map defined outside the closure is looked up with the object's reference
				var consulted []types.Object
				ast.Inspect(fl.Body, func(k ast.Node) bool {
					ix, ok := k.(*ast.IndexExpr)
					if !ok {
						return true
					}
					id, ok := ast.Unparen(ix.X).(*ast.Ident)
					if !ok {
						return true
					}
					o := objOf(info, id)
					if o == nil || (o.Pos() >= fl.Pos() && o.Pos() <= fl.End()) {
						return true
					}
					if _, isMap := o.Type().Underlying().(*types.Map); isMap && strings.Contains(exprString(ix.Index), "SelfRef") {
						consulted = append(consulted, o)
					}
					return true
				})
				// that map comes from a reference collector: a parameter fed by the caller, or a local variable
				fromCollector := false
				isCollectorCall := func(e ast.Expr) bool {
					c, ok := ast.Unparen(e).(*ast.CallExpr)
					return ok && collectors[callee(info, c)]
				}
				collectorVars := func(body ast.Node) map[types.Object]bool {
					out := map[types.Object]bool{}
					ast.Inspect(body, func(k ast.Node) bool {
						if as, ok := k.(*ast.AssignStmt); ok && len(as.Lhs) == 1 && len(as.Rhs) == 1 && isCollectorCall(as.Rhs[0]) {
							if id, ok := as.Lhs[0].(*ast.Ident); ok {
								out[objOf(info, id)] = true
							}
						}
						return true
					})
					return out
				}
				self, _ := info.Defs[fd.Name].(*types.Func)
				for _, o := range consulted {
					if collectorVars(fd.Body)[o] {
						fromCollector = true
					}
					// a parameter of the enclosing method
					sig := self.Type().(*types.Signature)
					for i := 0; i < sig.Params().Len(); i++ {
						if sig.Params().At(i) != o {
							continue
						}
						for _, caller := range methodsOf(ctx, named) {
							vars := collectorVars(caller.Body)
							ast.Inspect(caller.Body, func(k ast.Node) bool {
								c, ok := k.(*ast.CallExpr)
								if !ok || callee(info, c) != self || i >= len(c.Args) {
									return true
								}
								if isCollectorCall(c.Args[i]) {
									fromCollector = true
								}
								if id, ok := ast.Unparen(c.Args[i]).(*ast.Ident); ok && vars[objOf(info, id)] {
									fromCollector = true
								}
								return true
							})
						}
					}
				}
				r.Check(fromCollector, "effects/unspec-keeps-referenced-metadata", ctx.FuncName(self)+" drops the object called metadata", fl.Pos(), "unless the set of referred objects (collected over OnRef and OnConstantRef) holds it",
					"unspec drops every object called `metadata` without asking whether the schemas refer to it: `spec: {meta: #Metadata}; #Metadata: {…}` ends with spec.meta → a reference to an object that is gone")
				return true
			})
		}
		if found == 0 {
			r.Undecided("anchor changed: no closure of compiler.Unspec drops the object called metadata")
		}
		n++
	}
	// (b)
	if named := ctx.LookupType("internal/ast/compiler", "RemoveIntersections"); named == nil {
		r.Undecided("anchor lost: compiler.RemoveIntersections")
	} else {
		reaches := func(e ast.Expr, test func(fd *ast.FuncDecl) bool) bool {
			sel, ok := ast.Unparen(e).(*ast.SelectorExpr)
			if !ok {
				return false
			}
			start, _ := info.Uses[sel.Sel].(*types.Func)
			seen := map[*types.Func]bool{}
			var rec func(fn *types.Func, depth int) bool
			rec = func(fn *types.Func, depth int) bool {
				if fn == nil || seen[fn] || depth > 2 {
					return false
				}
				seen[fn] = true
				fd, _ := ctx.DeclOf(fn)
				if fd == nil || fd.Body == nil {
					return false
				}
				if test(fd) {
					return true
				}
				ok := false
				ast.Inspect(fd.Body, func(m ast.Node) bool {
					if c, isCall := m.(*ast.CallExpr); isCall {
						if f := callee(info, c); f != nil && f.Pkg() == cp.Types && rec(f, depth+1) {
							ok = true
						}
					}
					return true
				})
				return ok
			}
			return rec(start, 0)
		}
		storesMapping := func(fd *ast.FuncDecl) bool {
			ok := false
			ast.Inspect(fd.Body, func(m ast.Node) bool {
				if as, isAssign := m.(*ast.AssignStmt); isAssign {
					for _, l := range as.Lhs {
						if strings.Contains(exprString(l), "DiscriminatorMapping") {
							ok = true
						}
					}
				}
				return true
			})
			return ok
		}
		readsHint := func(fd *ast.FuncDecl) bool {
			ok := false
			ast.Inspect(fd.Body, func(m ast.Node) bool {
				if id, isID := m.(*ast.Ident); isID {
					if namesRefsHint(ctx, info.Uses[id]) {
						ok = true
					}
				}
				return true
			})
			return ok
		}
		redirectors := 0
		for _, fd := range methodsOf(ctx, named) {
			ast.Inspect(fd.Body, func(m ast.Node) bool {
				cl, ok := m.(*ast.CompositeLit)
				if !ok || namedName(info.TypeOf(cl)) != "Visitor" {
					return true
				}
				h := visitorHandlers(cl)
				if h["OnRef"] == nil {
					return true
				}
				redirectors++
				r.Check(h["OnDisjunction"] != nil && reaches(h["OnDisjunction"], storesMapping), "traverse/removed-object-mappings-rewritten", "RemoveIntersections redirects discriminator mappings", cl.Pos(), "the redirecting Visitor has an OnDisjunction handler that rewrites the mapping",
					"RemoveIntersections redirects the references to the objects it removes and leaves the discriminator mapping of the unions that hold them: `Shape: #Circle | #Alias` with `#Alias: #Square` ends with the branch Square and the mapping entry `alias → Alias`, an object that is gone")
				r.Check(h["OnStruct"] != nil && reaches(h["OnStruct"], readsHint), "traverse/removed-object-mappings-rewritten", "RemoveIntersections redirects the union kept in hints", cl.Pos(), "the redirecting Visitor has an OnStruct handler that reads the disjunction_of_refs hint",
					"RemoveIntersections redirects the references to the objects it removes and leaves the union kept in the hints of a struct generated from a disjunction: the Java unmarshaller of `CircleOrAlias` is generated from a branch and a mapping that name Alias, a class that does not exist")
				return true
			})
		}
		if redirectors == 0 {
			r.Undecided("anchor changed: RemoveIntersections has no Visitor with an OnRef handler")
		}
		n++
	}
	// (c)
	if gp := ctx.Pkg("internal/codegen"); gp == nil {
		r.Undecided("anchor lost: internal/codegen")
	} else if named := ctx.LookupType("internal/codegen", "KindRegistryInput"); named == nil {
		r.Undecided("anchor lost: codegen.KindRegistryInput")
	} else {
		ginfo := gp.TypesInfo
		var load *ast.FuncDecl
		for _, fd := range methodsOf(ctx, named) {
			if fd.Name.Name == "LoadSchemas" {
				load = fd
			}
		}
		if load == nil {
			r.Undecided("anchor lost: codegen.KindRegistryInput.LoadSchemas")
		} else {
			// local variables whose AllowedObjects is emptied
			emptied := map[types.Object]bool{}
			ast.Inspect(load.Body, func(m ast.Node) bool {
				as, ok := m.(*ast.AssignStmt)
				if !ok || len(as.Lhs) != 1 || len(as.Rhs) != 1 {
					return true
				}
				sel, ok := ast.Unparen(as.Lhs[0]).(*ast.SelectorExpr)
				if !ok || sel.Sel.Name != "AllowedObjects" {
					return true
				}
				id, ok := ast.Unparen(sel.X).(*ast.Ident)
				if !ok {
					return true
				}
				if isNilIdent(ginfo, as.Rhs[0]) {
					emptied[objOf(ginfo, id)] = true
				}
				return true
			})
			lits, bad := 0, 0
			ast.Inspect(load.Body, func(m ast.Node) bool {
				cl, ok := m.(*ast.CompositeLit)
				if !ok || namedName(ginfo.TypeOf(cl)) != "CueInput" {
					return true
				}
				for _, el := range cl.Elts {
					kv, ok := el.(*ast.KeyValueExpr)
					if !ok || exprString(kv.Key) != "InputBase" {
						continue
					}
					lits++
					id, isID := ast.Unparen(kv.Value).(*ast.Ident)
					if !isID || !emptied[objOf(ginfo, id)] {
						bad++
					}
				}
				return true
			})
			// what LoadSchemas returns on success goes through one FilterSchemas over everything that was loaded
			filtersAll := false
			ast.Inspect(load.Body, func(m ast.Node) bool {
				rs, ok := m.(*ast.ReturnStmt)
				if !ok || len(rs.Results) == 0 {
					return true
				}
				c, ok := ast.Unparen(rs.Results[0]).(*ast.CallExpr)
				if !ok {
					return true
				}
				f := callee(ginfo, c)
				fd, _ := ctx.DeclOf(f)
				if fd == nil || fd.Body == nil {
					return true
				}
				ast.Inspect(fd.Body, func(k ast.Node) bool {
					if pc, ok := k.(*ast.CallExpr); ok {
						if pf := callee(ginfo, pc); pf != nil && pf.Name() == "Process" && len(pc.Args) == 1 {
							if sig, ok := pf.Type().(*types.Signature); ok && sig.Recv() != nil && namedName(sig.Recv().Type()) == "FilterSchemas" {
								if id, ok := ast.Unparen(pc.Args[0]).(*ast.Ident); ok {
									if v, ok := objOf(ginfo, id).(*types.Var); ok && v.Pos() >= fd.Type.Pos() && v.Pos() <= fd.Type.End() {
										filtersAll = true
									}
								}
							}
						}
					}
					return true
				})
				return true
			})
			if lits == 0 {
				r.Undecided("anchor changed: KindRegistryInput.LoadSchemas builds no CueInput")
			} else {
				n++
				r.Check(bad == 0 && filtersAll, "siblings/registry-filter-spans-packages", "codegen.KindRegistryInput.LoadSchemas applies allowed_objects", load.Pos(), "the per-kind loaders get no allowed_objects and one FilterSchemas runs over everything the registry gave",
					"a kind registry hands its allowed_objects to every per-kind loader, each of which filters one package on its own: `allowed_objects: [spec]` keeps dashboard.spec and empties package common, which spec refers to — dangling references")
			}
		}
	}
	r.Count("hunted clauses of the reference rules (6th round)", n)
	r.Floor("hunted clauses of the reference rules (6th round)", 3)
}

// c05SeventhRound — fifth hunt:
//   - CUE: the name given to an import is scoped to its file (`import types "example.com/lib"` in a.cue, `import types
//     "example.com/other"` in b.cue): PackageForNode takes the package from the import spec CUE bound the identifier
//     to before it falls back on the package-wide table of names;
//   - OpenAPI: a nested schema inlined from another document brings that document's local references (`#/components/
//     schemas/Detail` written in common.yaml): walkRef records the document it inlines from, and getRefName gives a
//     reference without file part to that document;
//   - (finding) Java chain: RemoveIntersections redirects the references of the schema it is processing only — the
//     references other packages hold to the objects it removes are left dangling.
func c05SeventhRound(ctx *Ctx, r *Report) {
	n := 0
	// (a)
	if p := ctx.Pkg("internal/simplecue"); p == nil {
		r.Undecided("anchor lost: internal/simplecue")
	} else if fd := c12Method(p, "PackageForNode"); fd == nil {
		r.Undecided("anchor lost: simplecue.referenceResolver.PackageForNode")
	} else {
		info := p.TypesInfo
		perFile := false
		ast.Inspect(fd.Body, func(m ast.Node) bool {
			ta, ok := m.(*ast.TypeAssertExpr)
			if !ok || ta.Type == nil {
				return true
			}
			if t := info.TypeOf(ta.Type); t != nil && strings.HasSuffix(t.String(), "ast.ImportSpec") {
				perFile = true
			}
			return true
		})
		n++
		r.Check(perFile, "frontier/cue-import-names-per-file", "simplecue.PackageForNode resolves the name of an import", fd.Pos(), "from the import spec CUE bound the identifier to",
			"PackageForNode resolves `types.#Dog` with one table of import names per package, built from the merged syntax (where CUE renames the clash: types, types_1): a.cue `import types \"example.com/lib\"` and b.cue `import types \"example.com/other\"` give main.B.dog → lib.Dog, which does not exist (expected other.Dog)")
	}
	// (b)
	if p := ctx.Pkg("internal/openapi"); p == nil {
		r.Undecided("anchor lost: internal/openapi")
	} else {
		info := p.TypesInfo
		wfd, gfd := c12Method(p, "walkRef"), c12Method(p, "getRefName")
		if wfd == nil || gfd == nil {
			r.Undecided("anchor lost: openapi.generator.walkRef / getRefName")
		} else {
			stored := map[*types.Var]bool{}
			ast.Inspect(wfd.Body, func(m ast.Node) bool {
				if as, ok := m.(*ast.AssignStmt); ok {
					for _, l := range as.Lhs {
						if sel, ok := ast.Unparen(l).(*ast.SelectorExpr); ok {
							if f := fieldOf(info, sel); f != nil {
								if b, ok := f.Type().Underlying().(*types.Basic); ok && b.Info()&types.IsString != 0 {
									stored[f] = true
								}
							}
						}
					}
				}
				return true
			})
			consults := false
			ast.Inspect(gfd.Body, func(m ast.Node) bool {
				if sel, ok := m.(*ast.SelectorExpr); ok && stored[fieldOf(info, sel)] {
					consults = true
				}
				return true
			})
			n++
			r.Check(consults, "frontier/openapi-inlined-references-keep-their-document", "openapi.getRefName names a reference without file part", gfd.Pos(), "after the document walkRef recorded as the one a nested schema is inlined from",
				"getRefName gives the package of the schema being built to every reference without file part, also inside a nested schema that walkRef inlines from another document: `details: {$ref: 'common.yaml#/components/schemas/Error/properties/details'}` (an array of `#/components/schemas/Detail`, written in common.yaml) becomes []main.Detail — which main does not declare (expected common.Detail)")
		}
	}
	// (c)
	if fn := ctx.LookupMethod("internal/ast/compiler", "RemoveIntersections", "Process"); fn == nil {
		r.Undecided("anchor lost: compiler.RemoveIntersections.Process")
	} else if fd, p := ctx.DeclOf(fn); fd != nil {
		info := p.TypesInfo
		// the references held by other packages: the handlers leave when the reference designates another package
		// than the schema being processed; something else has to visit every schema once the replacements are known
		named := namedOf(fn.Type().(*types.Signature).Recv().Type())
		sameSchemaOnly := false
		for _, mfd := range methodsOf(ctx, named) {
			if !strings.HasPrefix(mfd.Name.Name, "redirect") {
				continue
			}
			ast.Inspect(mfd.Body, func(m ast.Node) bool {
				if is, ok := m.(*ast.IfStmt); ok && endsInExit(is.Body) {
					c := exprString(is.Cond)
					if strings.Contains(c, "ReferredPkg") && strings.Contains(c, "!= schema.Package") {
						sameSchemaOnly = true
					}
				}
				return true
			})
		}
		visits := 0
		ast.Inspect(fd.Body, func(m ast.Node) bool {
			if c, ok := m.(*ast.CallExpr); ok {
				if f := callee(info, c); f != nil && f.Name() == "VisitSchemas" {
					visits++
				}
			}
			return true
		})
		n++
		r.Check(!sameSchemaOnly || visits >= 2, "traverse/removed-object-references-rewritten-across-packages", "compiler.RemoveIntersections redirects the references other packages hold", fd.Pos(), "a second visit of every schema follows the removals",
			"RemoveIntersections works one schema at a time and its redirect handlers leave when a reference designates another package than the schema being processed: `lib {#Variable: {…}; #Alias: #Variable}` + `main {Root: {v: lib.#Variable}}` ends with lib holding Alias only and main.Root.v → lib.Variable, a class the Java jennies name and never generate")
	}
	r.Count("hunted clauses of the reference rules (7th round)", n)
	r.Floor("hunted clauses of the reference rules (7th round)", 3)
}

// c05RemovedNamesComparedWithPackage: RemoveIntersections records what it removes from the schema it is processing by
// bare name. A handler that looks the name of a *referred* object up in these tables (`…ReferredType` as key of
// objectsToRemove / arraysToFix, or as argument of replacementOf) has to compare the package of the reference with the
// package of the schema first: `x: lib.#Foo` is not concerned by main replacing its own Foo.
func c05RemovedNamesComparedWithPackage(ctx *Ctx, r *Report) {
	fn := ctx.LookupMethod("internal/ast/compiler", "RemoveIntersections", "Process")
	if fn == nil {
		r.Undecided("anchor lost: compiler.RemoveIntersections.Process")
		return
	}
	named := namedOf(fn.Type().(*types.Signature).Recv().Type())
	n := 0
	for _, fd := range methodsOf(ctx, named) {
		if fd.Body == nil {
			continue
		}
		var lookups []ast.Node
		ast.Inspect(fd.Body, func(m ast.Node) bool {
			var key ast.Expr
			switch x := m.(type) {
			case *ast.IndexExpr:
				if strings.HasSuffix(exprString(x.X), "objectsToRemove") || strings.HasSuffix(exprString(x.X), "arraysToFix") {
					key = x.Index
				}
			case *ast.CallExpr:
				if strings.HasSuffix(exprString(x.Fun), ".replacementOf") && len(x.Args) == 1 {
					key = x.Args[0]
				}
			}
			if key != nil && strings.HasSuffix(exprString(key), "ReferredType") {
				lookups = append(lookups, m)
			}
			return true
		})
		if len(lookups) == 0 {
			continue
		}
		compares := false
		ast.Inspect(fd.Body, func(m ast.Node) bool {
			if be, ok := m.(*ast.BinaryExpr); ok && (be.Op == token.EQL || be.Op == token.NEQ) {
				l, rr := exprString(be.X), exprString(be.Y)
				if (strings.HasSuffix(l, "ReferredPkg") && strings.HasSuffix(rr, ".Package")) || (strings.HasSuffix(rr, "ReferredPkg") && strings.HasSuffix(l, ".Package")) {
					compares = true
				}
			}
			return true
		})
		n++
		r.Check(compares, "traverse/removed-names-compared-with-package", "compiler.RemoveIntersections."+fd.Name.Name+" looks a referred object up among what the schema removes", lookups[0].Pos(), "the package of the reference is compared with the schema's first",
			"RemoveIntersections."+fd.Name.Name+" looks the bare name of a referred object up in the tables of what the schema being processed removes, whatever the package of the reference: with lib {#Foo: {a: string}} and main {Foo: {b: int64}; Bar: Foo; Root: {x: lib.#Foo}}, the Java chain retargets main.Root.x to main.Bar")
	}
	r.Count("handlers of RemoveIntersections looking referred names up", n)
	r.Floor("handlers of RemoveIntersections looking referred names up", 3)
}

// namesRefsHint: the object is the constant HintDiscriminatedDisjunctionOfRefs, or a package-level variable whose
// initialiser lists it (`var disjunctionHints = []string{ast.HintDiscriminatedDisjunctionOfRefs, …}`: a handler that
// ranges over that list reads the hint).
func namesRefsHint(ctx *Ctx, obj types.Object) bool {
	return namesHint(ctx, obj, "HintDiscriminatedDisjunctionOfRefs")
}

func namesHint(ctx *Ctx, obj types.Object, hint string) bool {
	switch o := obj.(type) {
	case *types.Const:
		return o.Name() == hint
	case *types.Var:
		if o.Pkg() == nil || o.Parent() != o.Pkg().Scope() {
			return false
		}
		for _, p := range ctx.Pkgs {
			if p.Types != o.Pkg() {
				continue
			}
			found := false
			for _, f := range p.Syntax {
				ast.Inspect(f, func(m ast.Node) bool {
					vs, ok := m.(*ast.ValueSpec)
					if !ok {
						return true
					}
					for i, name := range vs.Names {
						if p.TypesInfo.Defs[name] != obj || i >= len(vs.Values) {
							continue
						}
						ast.Inspect(vs.Values[i], func(q ast.Node) bool {
							if id, ok := q.(*ast.Ident); ok {
								if c, ok := p.TypesInfo.Uses[id].(*types.Const); ok && c.Name() == hint {
									found = true
								}
							}
							return true
						})
					}
					return true
				})
			}
			return found
		}
	}
	return false
}

// c05BothUnionHintsFollowed: DisjunctionToType keeps the union a struct was generated from under one of two hints
// (disjunction_of_refs, disjunction_of_scalars); the branches kept there are types like any other — `[]demo.Variable |
// string`. A handler of the compiler passes that reads one of the two hints to rewrite what it holds reads the other one
// too.
func c05BothUnionHintsFollowed(ctx *Ctx, r *Report) {
	n := 0
	ctx.AllFuncDecls(func(p *packages.Package, fd *ast.FuncDecl, obj *types.Func) {
		if fd.Body == nil || fd.Recv == nil || !strings.HasSuffix(p.PkgPath, "/internal/ast/compiler") {
			return
		}
		info := p.TypesInfo
		refs, scalars, produces := false, false, false
		ast.Inspect(fd.Body, func(m ast.Node) bool {
			switch x := m.(type) {
			case *ast.Ident:
				if namesHint(ctx, info.Uses[x], "HintDiscriminatedDisjunctionOfRefs") {
					refs = true
				}
				if namesHint(ctx, info.Uses[x], "HintDisjunctionOfScalars") {
					scalars = true
				}
			case *ast.CallExpr:
				// the pass that creates the struct sets one hint or the other
				if f := callee(info, x); f != nil && f.Name() == "NewObject" {
					produces = true
				}
			}
			return true
		})
		if !refs && !scalars || produces {
			return
		}
		n++
		r.Check(refs && scalars, "traverse/both-union-hints-followed", ctx.FuncName(obj)+" rewrites the union kept in the hints of a struct", fd.Pos(), "under both hints (disjunction_of_refs, disjunction_of_scalars)",
			ctx.FuncName(obj)+" looks at one of the two hints under which a struct generated from a union keeps that union: `Root: {v: [...#Variable] | string}` keeps `[]demo.Variable | string` under disjunction_of_scalars — after the Java chain removed (or a later pass renamed / prefixed) Variable, the hint still refers to demo.Variable, which no longer exists")
	})
	r.Count("handlers rewriting the union kept in hints", n)
	r.Floor("handlers rewriting the union kept in hints", 4)
}

// c05OpenAPIExternalPackagesNamed (finding): the package of a reference into another OpenAPI document is what a regular
// expression leaves of the document part — `./common.yaml#/…` gives the package "./common", `./refs/refs.json` gives
// "./refs/refs" — while the input of that document is loaded under the base name of its file. The name has to go through
// the function that names the package of an input (or path.Base).
func c05OpenAPIExternalPackagesNamed(ctx *Ctx, r *Report) {
	p := ctx.Pkg("internal/openapi")
	if p == nil {
		r.Undecided("anchor lost: internal/openapi")
		return
	}
	fd := c12Method(p, "getRefName")
	if fd == nil {
		r.Undecided("anchor lost: openapi.generator.getRefName")
		return
	}
	info := p.TypesInfo
	named := false
	ast.Inspect(fd.Body, func(m ast.Node) bool {
		if c, ok := m.(*ast.CallExpr); ok {
			if f := callee(info, c); f != nil && (f.Name() == "Base" || strings.Contains(strings.ToLower(f.Name()), "packagefrom")) {
				named = true
			}
		}
		return true
	})
	r.Count("OpenAPI external reference namers", 1)
	r.Check(named, "frontier/openapi-external-ref-packages-named", "openapi.getRefName names the package of a reference into another document", fd.Pos(), "after the base name of that document, as its own input is",
		"the package is what a regular expression leaves of the document part: `$ref: './common.yaml#/components/schemas/Error'` gives ref \"./common\".Error, which names nothing among the loaded packages (the input common.yaml is package common; `common.yaml#/…` resolves) — `./refs/common.yaml`, `my-refs/common.yaml`, `file://…` give path-like package names no language can emit")
}
