package main

// C14 — Go converters invert builders.

import (
	"fmt"
	"go/ast"
	"go/token"
	"go/types"
	"sort"
	"strings"
	"text/template/parse"

	"golang.org/x/tools/go/packages"
)

func init() { register("C14", checkC14) }

func checkC14(ctx *Ctx, r *Report) {
	r.Explanation = "Generator-side necessary conditions for 'every option and argument needed to reproduce v appears exactly once', decided on languages.ConverterGenerator and the converter templates: (1) every FromBuilder call runs on a generator built for that call (generatedPaths / listOfDisjunctionOptions carry nothing from one builder to the next); (2) FromBuilder maps every option of the builder and only discards empty mappings; (3) the key that decides 'this assignment already has a mapping' distinguishes assignments by path, constant and envelope fields; (4) options appending the branches of a union to one list are grouped by the list's path alone, so one loop renders them in item order; (5) the choice between several builders of one type is guarded by the constants of each candidate's constructor only; (6) each language's converter template consumes every member of languages.ArgumentMapping, except members that can only arise from a kind the language's chain removes; the sorted iteration over the grouped options is checked by C03."
	r.NotCovered = "that the printed expression compiles and rebuilds the object (two stages of execution away), guards on defaults, formatting of values (cog.Dump, %#v), map iteration order inside the generated converter."
	r.Exhaustive = true
	p := ctx.Pkg("internal/languages")
	if p == nil {
		r.Undecided("package internal/languages not found")
		return
	}
	c14FreshGenerator(ctx, r)
	c14Generator(ctx, r, p)
	c14Templates(ctx, r, p)
	c14ConverterNames(ctx, r)
	c14GuardsAndTypes(ctx, r)
	c14ThirdRound(ctx, r)
	c14ValueGuards(ctx, r)
	c14DateTimeFormatter(ctx, r)
	c14FourthRound(ctx, r)
	c14FifthRound(ctx, r)
	c14GoConverterBuffer(ctx, r)
	c14SixthRound(ctx, r)
	c14SeventhRound(ctx, r)
	c14PathKeysUnambiguous(ctx, r)
	c14EighthRound(ctx, r)
	c14NinthRound(ctx, r)
	c02GoRuntimeDefines(ctx, r)
}

func c14FreshGenerator(ctx *Ctx, r *Report) {
	n := 0
	ctx.AllFuncDecls(func(p *packages.Package, fd *ast.FuncDecl, obj *types.Func) {
		if fd.Body == nil {
			return
		}
		info := p.TypesInfo
		k := 0
		ast.Inspect(fd.Body, func(m ast.Node) bool {
			c, ok := m.(*ast.CallExpr)
			if !ok {
				return true
			}
			fn := callee(info, c)
			if fn == nil || fn.Name() != "FromBuilder" || fn.Pkg() == nil || fn.Pkg().Path() != modulePath+"/internal/languages" {
				return true
			}
			n++
			k++
			sel := c.Fun.(*ast.SelectorExpr)
			fresh := false
			if rc, ok := ast.Unparen(sel.X).(*ast.CallExpr); ok {
				if f2 := callee(info, rc); f2 != nil && f2.Name() == "NewConverterGenerator" {
					fresh = true
				}
			}
			r.Check(fresh, "effects/fresh-generator", fmt.Sprintf("%s FromBuilder call #%d", ctx.FuncName(obj), k), c.Pos(), "called on NewConverterGenerator(...) itself",
				"FromBuilder is called on a generator that outlives the call: generatedPaths remembers the paths already mapped, so the options of a later builder that assign the same paths get no mapping and silently disappear from its converter")
			return true
		})
	})
	r.Count("FromBuilder call sites", n)
	r.Floor("FromBuilder call sites", 3)
}

// isPermutedCopyOfOptions: e is a local slice that holds every option of a builder, in another order — it is defined
// as `append([]T(nil), X.Options...)` and the only other things done to it in the function are reads and calls of
// sort.Slice / sort.SliceStable / sort.Sort on it. No element is dropped or added.
func isPermutedCopyOfOptions(info *types.Info, fd *ast.FuncDecl, e ast.Expr) bool {
	id, ok := ast.Unparen(e).(*ast.Ident)
	if !ok {
		return false
	}
	obj := objOf(info, id)
	if obj == nil {
		return false
	}
	defined, okAll := false, true
	ast.Inspect(fd.Body, func(n ast.Node) bool {
		as, ok := n.(*ast.AssignStmt)
		if !ok {
			return true
		}
		for i, l := range as.Lhs {
			// a write through an index (`options[i] = …`) or a new value for the slice
			target := ast.Unparen(l)
			if ix, ok := target.(*ast.IndexExpr); ok {
				target = ast.Unparen(ix.X)
			}
			lid, ok := target.(*ast.Ident)
			if !ok || objOf(info, lid) != obj {
				continue
			}
			if as.Tok != token.DEFINE || defined || len(as.Rhs) != len(as.Lhs) {
				okAll = false
				continue
			}
			call, ok := ast.Unparen(as.Rhs[i]).(*ast.CallExpr)
			if !ok || len(call.Args) != 2 || !call.Ellipsis.IsValid() {
				okAll = false
				continue
			}
			if fid, ok := call.Fun.(*ast.Ident); !ok || fid.Name != "append" {
				okAll = false
				continue
			}
			// first operand: an empty slice (`[]T(nil)`, `[]T{}`)
			empty := false
			switch first := ast.Unparen(call.Args[0]).(type) {
			case *ast.CallExpr:
				if len(first.Args) == 1 {
					if nid, ok := first.Args[0].(*ast.Ident); ok && nid.Name == "nil" {
						empty = true
					}
				}
			case *ast.CompositeLit:
				empty = len(first.Elts) == 0
			}
			if !empty || !strings.HasSuffix(exprString(call.Args[1]), ".Options") {
				okAll = false
				continue
			}
			defined = true
		}
		return true
	})
	return defined && okAll
}

func c14Generator(ctx *Ctx, r *Report, p *packages.Package) {
	info := p.TypesInfo
	method := func(name string) *ast.FuncDecl {
		for _, f := range p.Syntax {
			for _, d := range f.Decls {
				if fd, ok := d.(*ast.FuncDecl); ok && fd.Name.Name == name && fd.Recv != nil && fd.Body != nil {
					return fd
				}
			}
		}
		return nil
	}
	// (2) FromBuilder maps every option
	if fd := method("FromBuilder"); fd == nil {
		r.Undecided("anchor lost: languages.ConverterGenerator.FromBuilder")
	} else {
		mapsAll := false
		var filters []string
		ast.Inspect(fd.Body, func(n ast.Node) bool {
			c, ok := n.(*ast.CallExpr)
			if !ok {
				return true
			}
			fn := callee(info, c)
			if fn == nil {
				return true
			}
			if fn.Name() == "Map" && len(c.Args) == 2 && (strings.HasSuffix(exprString(c.Args[0]), ".Options") || isPermutedCopyOfOptions(info, fd, c.Args[0])) {
				if lit, ok := c.Args[1].(*ast.FuncLit); ok {
					ast.Inspect(lit.Body, func(k ast.Node) bool {
						if c2, ok := k.(*ast.CallExpr); ok {
							if f2 := callee(info, c2); f2 != nil && f2.Name() == "convertOption" {
								mapsAll = true
							}
						}
						return true
					})
				}
			}
			if fn.Name() == "Filter" && len(c.Args) == 2 {
				if lit, ok := c.Args[1].(*ast.FuncLit); ok && len(lit.Body.List) == 1 {
					if rs, ok := lit.Body.List[0].(*ast.ReturnStmt); ok && len(rs.Results) == 1 {
						filters = append(filters, exprString(rs.Results[0]))
					}
				}
			}
			return true
		})
		okFilter := len(filters) == 1 && strings.HasPrefix(filters[0], "len(") && strings.HasSuffix(filters[0], ".Options) != 0")
		r.Check(mapsAll && okFilter, "skeleton/converter-all-options", "languages.ConverterGenerator.FromBuilder", fd.Pos(), "every option goes through convertOption; only empty mappings are discarded",
			fmt.Sprintf("FromBuilder no longer maps every option of the builder through convertOption, or discards mappings by another test than emptiness (%v): options are missing from the converted code", filters))
	}
	// (3) assignmentKey reads path, constant and envelope field paths
	if fd := method("assignmentKey"); fd == nil {
		r.Undecided("anchor lost: languages.ConverterGenerator.assignmentKey")
	} else {
		reads := map[string]bool{}
		ast.Inspect(fd.Body, func(n ast.Node) bool {
			if s, ok := n.(*ast.SelectorExpr); ok {
				if f := fieldOf(info, s); f != nil {
					reads[f.Name()] = true
				}
			}
			return true
		})
		// the envelope's values are iterated and their Path read
		envelopePaths := false
		ast.Inspect(fd.Body, func(n ast.Node) bool {
			if rs, ok := n.(*ast.RangeStmt); ok && strings.HasSuffix(exprString(rs.X), ".Envelope.Values") {
				ast.Inspect(rs.Body, func(k ast.Node) bool {
					if s, ok := k.(*ast.SelectorExpr); ok && s.Sel.Name == "Path" {
						envelopePaths = true
					}
					return true
				})
			}
			return true
		})
		var missing []string
		if !reads["Path"] {
			missing = append(missing, "the path")
		}
		if !reads["Constant"] {
			missing = append(missing, "the constant")
		}
		if !envelopePaths {
			missing = append(missing, "the envelope's field paths")
		}
		r.Check(len(missing) == 0, "skeleton/assignment-key", "languages.ConverterGenerator.assignmentKey", fd.Pos(), "distinguishes assignments by path, constant and envelope fields",
			fmt.Sprintf("assignmentKey no longer takes %s into account: two options writing the same path through different union branches (or with different constants) share a key, the second one is taken for already mapped and is dropped from the converter", strings.Join(missing, " and ")))
	}
	// (4) grouping key of listOfDisjunctionOptions
	if fd := method("convertOption"); fd == nil {
		r.Undecided("anchor lost: languages.ConverterGenerator.convertOption")
	} else {
		found := false
		defs := map[types.Object]ast.Expr{}
		ast.Inspect(fd.Body, func(n ast.Node) bool {
			if as, ok := n.(*ast.AssignStmt); ok && as.Tok == token.DEFINE && len(as.Lhs) == len(as.Rhs) {
				for i, l := range as.Lhs {
					if id, ok := l.(*ast.Ident); ok {
						defs[info.Defs[id]] = as.Rhs[i]
					}
				}
			}
			return true
		})
		ast.Inspect(fd.Body, func(n ast.Node) bool {
			ix, ok := n.(*ast.IndexExpr)
			if !ok || !strings.HasSuffix(exprString(ix.X), "listOfDisjunctionOptions") {
				return true
			}
			if found {
				return true // the same statement reads and writes the group
			}
			found = true
			key := ix.Index
			if id, ok := ast.Unparen(key).(*ast.Ident); ok {
				if d, ok := defs[objOf(info, id)]; ok {
					key = d
				}
			}
			ks := exprString(key)
			// the path of the list, as a string or through a helper that takes the path alone (`pathKey(x.Path)`)
			pathAlone := strings.HasSuffix(ks, ".Path.String()")
			if c, ok := ast.Unparen(key).(*ast.CallExpr); ok && len(c.Args) == 1 && strings.HasSuffix(exprString(c.Args[0]), ".Path") {
				pathAlone = true
			}
			okKey := pathAlone && !strings.Contains(ks, "Envelope") && !strings.Contains(ks, "assignmentKey")
			r.Check(okKey, "skeleton/list-grouping-key", "languages.ConverterGenerator.convertOption groups list options", ix.Pos(), "grouped by the list's path alone",
				"the options appending union branches to a list are grouped by `"+ks+"`, not by the list's path alone: each branch gets its own loop over the list and the converted calls come out grouped by branch — the rebuilt list is a permutation of the original")
			return true
		})
		if !found {
			r.Undecided("anchor changed: convertOption no longer indexes listOfDisjunctionOptions")
		}
	}
	// (5) builder choice guards
	if fd := method("argumentForType"); fd == nil {
		r.Undecided("anchor lost: languages.ConverterGenerator.argumentForType")
	} else {
		found := false
		defs := map[types.Object]ast.Expr{}
		ast.Inspect(fd.Body, func(n ast.Node) bool {
			if as, ok := n.(*ast.AssignStmt); ok && as.Tok == token.DEFINE && len(as.Lhs) == len(as.Rhs) {
				for i, l := range as.Lhs {
					if id, ok := l.(*ast.Ident); ok {
						defs[info.Defs[id]] = as.Rhs[i]
					}
				}
			}
			return true
		})
		ast.Inspect(fd.Body, func(n ast.Node) bool {
			cl, ok := n.(*ast.CompositeLit)
			if !ok || !strings.HasSuffix(exprString(cl.Type), "BuilderChoiceMapping") || len(cl.Elts) == 0 {
				return true
			}
			for _, el := range cl.Elts {
				kv, ok := el.(*ast.KeyValueExpr)
				if !ok || exprString(kv.Key) != "Guards" {
					continue
				}
				found = true
				okGuards := false
				if c, ok := kv.Value.(*ast.CallExpr); ok && len(c.Args) == 2 {
					arg := c.Args[1]
					if id, ok := ast.Unparen(arg).(*ast.Ident); ok {
						if d, ok := defs[objOf(info, id)]; ok {
							arg = d
						}
					}
					if fc, ok := ast.Unparen(arg).(*ast.CallExpr); ok {
						if f2 := callee(info, fc); f2 != nil && f2.Name() == "Filter" && len(fc.Args) == 2 {
							ast.Inspect(fc.Args[1], func(k ast.Node) bool {
								if c3, ok := k.(*ast.CallExpr); ok {
									if f3 := callee(info, c3); f3 != nil && f3.Name() == "HasConstantValue" {
										okGuards = true
									}
								}
								return true
							})
						}
					}
				}
				r.Check(okGuards, "skeleton/builder-choice-guards", "languages.ConverterGenerator.argumentForType builder choice", kv.Pos(), "guards come from the constant assignments of the candidate's constructor",
					"the guards that choose between several builders of one type are computed from assignments that are not constants of the candidate's constructor: emptiness / default guards then take part in the choice, no candidate matches for such values and the nested conversion is emitted as an empty string")
			}
			return true
		})
		if !found {
			r.Undecided("anchor changed: argumentForType no longer builds BuilderChoiceMapping{Guards: …}")
		}
	}
}

// (6) every member of ArgumentMapping is consumed by each converter template
func c14Templates(ctx *Ctx, r *Report, p *packages.Package) {
	am := ctx.LookupType("internal/languages", "ArgumentMapping")
	if am == nil {
		r.Undecided("anchor lost: languages.ArgumentMapping")
		return
	}
	st, ok := am.Underlying().(*types.Struct)
	if !ok {
		r.Undecided("languages.ArgumentMapping is no longer a struct")
		return
	}
	var members []string
	for i := 0; i < st.NumFields(); i++ {
		if st.Field(i).Name() != "Guards" {
			members = append(members, st.Field(i).Name())
		}
	}
	sort.Strings(members)
	n := 0
	for _, lang := range []string{"golang", "java", "php"} {
		ts, err := loadTemplates(ctx, lang)
		if err != nil {
			r.Undecided("cannot parse %s templates: %v", lang, err)
			continue
		}
		used := map[string]bool{}
		for _, name := range ts.names() {
			if !strings.Contains(ts.file[name], "converter") {
				continue
			}
			walkTmpl(ts.trees[name].Root, func(m parse.Node) bool {
				if f, ok := m.(*parse.FieldNode); ok {
					for i, id := range f.Ident {
						if id == "Arg" && i+1 < len(f.Ident) {
							used[f.Ident[i+1]] = true
						}
					}
					if len(f.Ident) == 1 {
						used[f.Ident[0]] = true
					}
				}
				return true
			})
		}
		for _, m := range members {
			n++
			okM := used[m]
			how := "consumed by the " + lang + " converter templates"
			if !okM && m == "Disjunction" && c02Eliminated[lang]["disjunction"] != "" {
				okM, how = true, "not consumed: "+c02Eliminated[lang]["disjunction"]
			}
			r.Check(okM, "kinds/argument-mapping-consumed", lang+" converter consumes ArgumentMapping."+m, token.NoPos, how,
				fmt.Sprintf("the %s converter templates never read ArgumentMapping.%s: an argument mapped that way is prepared by no branch and is missing from (or breaks) the converted code", lang, m))
		}
	}
	r.Count("ArgumentMapping members × converter languages", n)
	r.Floor("ArgumentMapping members × converter languages", 18)
}

// ---------------------------------------------------------------------------
// Rules added after the second generation of seeds.

// c14ConverterNames: a converter function is declared under (Builder.Package, Builder.Name) — Converter{Package, BuilderName}
// in FromBuilder — and referred to from the converters of other builders through BuilderArgMapping{BuilderPkg, BuilderName}.
// Both sides must read the same two fields of the same builder: the object's own package differs from the builder's for
// foreign and composed builders, and a reference built from it names a function that does not exist.
func c14ConverterNames(ctx *Ctx, r *Report) {
	p := ctx.Pkg("internal/languages")
	pkgF, nameF := astField(ctx, "Builder", "Package"), astField(ctx, "Builder", "Name")
	if p == nil || pkgF == nil || nameF == nil {
		r.Undecided("anchor lost: ast.Builder.Package / Name")
		return
	}
	info := p.TypesInfo
	n := 0
	for _, file := range p.Syntax {
		var fn string
		ast.Inspect(file, func(m ast.Node) bool {
			if fd, ok := m.(*ast.FuncDecl); ok {
				fn = fd.Name.Name
			}
			cl, ok := m.(*ast.CompositeLit)
			if !ok {
				return true
			}
			nt := namedOf(info.TypeOf(cl))
			if nt == nil {
				return true
			}
			var pkgKey, nameKey string
			switch nt.Obj().Name() {
			case "BuilderArgMapping":
				pkgKey, nameKey = "BuilderPkg", "BuilderName"
			case "Converter":
				pkgKey, nameKey = "Package", "BuilderName"
			default:
				return true
			}
			var pkgV, nameV ast.Expr
			for _, el := range cl.Elts {
				if kv, ok := el.(*ast.KeyValueExpr); ok {
					if id, ok := kv.Key.(*ast.Ident); ok {
						switch id.Name {
						case pkgKey:
							pkgV = kv.Value
						case nameKey:
							nameV = kv.Value
						}
					}
				}
			}
			if pkgV == nil && nameV == nil {
				return true
			}
			n++
			why := ""
			ps, ok1 := ast.Unparen(pkgV).(*ast.SelectorExpr)
			ns, ok2 := ast.Unparen(nameV).(*ast.SelectorExpr)
			switch {
			case pkgV == nil || nameV == nil:
				why = "only one of the two names is set"
			case !ok1 || fieldOf(info, ps) != pkgF:
				why = fmt.Sprintf("%s is %s, not the Package of a builder", pkgKey, exprString(pkgV))
			case !ok2 || fieldOf(info, ns) != nameF:
				why = fmt.Sprintf("%s is %s, not the Name of a builder", nameKey, exprString(nameV))
			case exprString(ps.X) != exprString(ns.X):
				why = fmt.Sprintf("package and name are read from two different builders (%s, %s)", exprString(ps.X), exprString(ns.X))
			}
			r.Check(why == "", "siblings/converter-name", fmt.Sprintf("languages.%s %s literal #%d", fn, nt.Obj().Name(), n), cl.Pos(), "declared and referred to as (Builder.Package, Builder.Name) of one builder",
				fmt.Sprintf("languages.%s: %s — converters are declared under the builder's own package and name (FromBuilder); a reference computed differently names a function that does not exist whenever the builder lives in another package than its object (foreign builders, compose_builders)", fn, why))
			return true
		})
	}
	r.Count("declarations of and references to converter functions", n)
	r.Floor("declarations of and references to converter functions", 3)
}

// c14GuardsCoverOption: the guards of an option mapping decide whether the option call is printed; they must be computed
// from *all* assignments of the option (option.Assignments), including those whose path another option already produced:
// an option that also sets an already-converted field to a constant must not be printed when the input has another value
// there. c14ValueTypeOfPath: a DirectArgMapping whose value path is an assignment's path describes a field of the input
// object: its type is the type at the end of that path, not the type of the builder's argument (veneers change the latter:
// promoted constructor arguments lose their nullability).
func c14GuardsAndTypes(ctx *Ctx, r *Report) {
	p := ctx.Pkg("internal/languages")
	fn := ctx.LookupMethod("internal/languages", "ConverterGenerator", "mappingForOption")
	fd, _ := ctx.DeclOf(fn)
	guardFn := ctx.LookupMethod("internal/languages", "ConverterGenerator", "guardForAssignments")
	if p == nil || fd == nil || guardFn == nil {
		r.Undecided("anchor lost: ConverterGenerator.mappingForOption / guardForAssignments")
		return
	}
	info := p.TypesInfo
	var optParam types.Object
	for _, f := range fd.Type.Params.List {
		for _, nm := range f.Names {
			if t := namedOf(info.TypeOf(nm)); t != nil && t.Obj().Name() == "Option" {
				optParam = info.Defs[nm]
			}
		}
	}
	n := 0
	ast.Inspect(fd.Body, func(m ast.Node) bool {
		c, ok := m.(*ast.CallExpr)
		if !ok || callee(info, c) != guardFn || len(c.Args) < 2 {
			return true
		}
		n++
		whole := false
		if sel, ok := ast.Unparen(c.Args[1]).(*ast.SelectorExpr); ok && sel.Sel.Name == "Assignments" {
			if id, ok := ast.Unparen(sel.X).(*ast.Ident); ok && objOf(info, id) == optParam {
				whole = true
			}
		}
		r.Check(whole, "flow/guards-cover-option", "ConverterGenerator.mappingForOption guards", c.Pos(), "computed from option.Assignments as a whole",
			fmt.Sprintf("the guards of an option are computed from %s, not from all of the option's assignments: an option that also assigns a constant to a path another option already produced is printed even when the input holds another value there — the rebuilt object differs from the input", exprString(c.Args[1])))
		return true
	})
	r.Count("guard computations in mappingForOption", n)
	r.Floor("guard computations in mappingForOption", 1)

	argT := ctx.LookupType("internal/ast", "Argument")
	asgT := ctx.LookupType("internal/ast", "Assignment")
	k := 0
	for _, file := range p.Syntax {
		var fname string
		ast.Inspect(file, func(m ast.Node) bool {
			if d, ok := m.(*ast.FuncDecl); ok {
				fname = d.Name.Name
			}
			cl, ok := m.(*ast.CompositeLit)
			if !ok {
				return true
			}
			if nt := namedOf(info.TypeOf(cl)); nt == nil || nt.Obj().Name() != "DirectArgMapping" {
				return true
			}
			var pathV, typeV ast.Expr
			for _, el := range cl.Elts {
				if kv, ok := el.(*ast.KeyValueExpr); ok {
					if id, ok := kv.Key.(*ast.Ident); ok {
						switch id.Name {
						case "ValuePath":
							pathV = kv.Value
						case "ValueType":
							typeV = kv.Value
						}
					}
				}
			}
			if pathV == nil || typeV == nil {
				return true
			}
			fromAssignment := false
			ast.Inspect(pathV, func(q ast.Node) bool {
				if s, ok := q.(*ast.SelectorExpr); ok && s.Sel.Name == "Path" && namedOf(info.TypeOf(s.X)) == asgT {
					fromAssignment = true
				}
				return true
			})
			if !fromAssignment {
				return true
			}
			k++
			throughArg := ""
			ast.Inspect(typeV, func(q ast.Node) bool {
				if s, ok := q.(*ast.SelectorExpr); ok && namedOf(info.TypeOf(s.X)) == argT && throughArg == "" {
					throughArg = exprString(s)
				}
				return true
			})
			r.Check(throughArg == "", "flow/value-type-of-path", fmt.Sprintf("languages.%s direct mapping on an assignment path #%d", fname, k), cl.Pos(), "the value's type is not taken from a builder argument",
				fmt.Sprintf("languages.%s maps the value found at an assignment's path with the type %s of a builder *argument*: veneers change argument types (promote_options_to_constructor drops nullability) while the object's field keeps its own — the converter formats a pointer as if it were a value", fname, throughArg))
			return true
		})
	}
	// the same for arguments mapped by kind: argumentForType(context, converter, name, <path>, <type>)
	argForType := ctx.LookupMethod("internal/languages", "ConverterGenerator", "argumentForType")
	for _, file := range p.Syntax {
		for _, d := range file.Decls {
			fdecl, ok := d.(*ast.FuncDecl)
			if !ok || fdecl.Body == nil {
				continue
			}
			// every expression a local variable receives
			assigned := map[types.Object][]ast.Expr{}
			ast.Inspect(fdecl.Body, func(q ast.Node) bool {
				if as, ok := q.(*ast.AssignStmt); ok && len(as.Lhs) == len(as.Rhs) {
					for i, l := range as.Lhs {
						if id, ok := l.(*ast.Ident); ok {
							if o := objOf(info, id); o != nil {
								assigned[o] = append(assigned[o], as.Rhs[i])
							}
						}
					}
				}
				return true
			})
			// a composite literal is a fresh path (a loop variable as root), not the continuation of an assignment's path
			var mentions func(e ast.Expr, pred func(*ast.SelectorExpr) bool, depth int) string
			mentions = func(e ast.Expr, pred func(*ast.SelectorExpr) bool, depth int) string {
				found := ""
				ast.Inspect(e, func(q ast.Node) bool {
					switch x := q.(type) {
					case *ast.CompositeLit:
						return false
					case *ast.SelectorExpr:
						if pred(x) && found == "" {
							found = exprString(x)
						}
					case *ast.Ident:
						if depth < 3 {
							for _, rhs := range assigned[objOf(info, x)] {
								if f := mentions(rhs, pred, depth+1); f != "" && found == "" {
									found = f
								}
							}
						}
					}
					return true
				})
				return found
			}
			ast.Inspect(fdecl.Body, func(m ast.Node) bool {
				c, ok := m.(*ast.CallExpr)
				if !ok || argForType == nil || callee(info, c) != argForType || len(c.Args) != 5 {
					return true
				}
				fromAssignment := mentions(c.Args[3], func(s *ast.SelectorExpr) bool {
					return s.Sel.Name == "Path" && namedOf(info.TypeOf(s.X)) == asgT
				}, 0)
				if fromAssignment == "" {
					return true
				}
				k++
				throughArg := mentions(c.Args[4], func(s *ast.SelectorExpr) bool { return namedOf(info.TypeOf(s.X)) == argT }, 0)
				r.Check(throughArg == "", "flow/value-type-of-path", fmt.Sprintf("languages.%s argument mapped on an assignment path #%d", fdecl.Name.Name, k), c.Pos(), "the value's type is not taken from a builder argument",
					fmt.Sprintf("languages.%s maps the value found at an assignment's path with the type %s of a builder *argument*: veneers change argument types (promote_options_to_constructor drops nullability) while the object's field keeps its own — the converter formats a pointer as if it were a value", fdecl.Name.Name, throughArg))
				return true
			})
		}
	}
	r.Count("direct mappings on assignment paths", k)
	r.Floor("direct mappings on assignment paths", 1)
}

// c14ThirdRound: (a) the nil guards of an assignment path: one `!= nil` guard per nullable element, outermost first —
// pathNotNullGuards must append inside a loop over every element of the path and not leave the loop early (a guard on the
// innermost element alone dereferences the outer ones); (b) convertOption and mappingForOption must agree on which
// assignments of an option are still to be converted: both filter option.Assignments by generatedPaths before deciding
// (the repeat / append form is chosen from the first assignment that is left).
func c14ThirdRound(ctx *Ctx, r *Report) {
	p := ctx.Pkg("internal/languages")
	if p == nil {
		return
	}
	info := p.TypesInfo
	// (a)
	if fn := ctx.LookupMethod("internal/languages", "ConverterGenerator", "pathNotNullGuards"); fn != nil {
		fd, _ := ctx.DeclOf(fn)
		var pathParam types.Object
		for _, f := range fd.Type.Params.List {
			for _, nm := range f.Names {
				if nm.Name == "path" {
					pathParam = info.Defs[nm]
				}
			}
		}
		why := "no loop over the elements of the path"
		ast.Inspect(fd.Body, func(m ast.Node) bool {
			rs, ok := m.(*ast.RangeStmt)
			if !ok {
				return true
			}
			if id, ok := ast.Unparen(rs.X).(*ast.Ident); !ok || objOf(info, id) != pathParam {
				return true
			}
			why = ""
			appends := false
			ast.Inspect(rs.Body, func(q ast.Node) bool {
				switch x := q.(type) {
				case *ast.ReturnStmt:
					why = "the loop returns as soon as it has found one nullable element"
				case *ast.BranchStmt:
					if x.Tok == token.BREAK {
						why = "the loop stops at the first nullable element"
					}
				case *ast.CallExpr:
					if isBuiltinCall(info, x, "append") {
						appends = true
					}
				}
				return true
			})
			if why == "" && !appends {
				why = "the loop does not accumulate guards"
			}
			return true
		})
		r.Count("guard builders of the converter", 1)
		r.Check(why == "", "traverse/guards-every-nullable-element", "ConverterGenerator.pathNotNullGuards", fd.Pos(), "one guard per nullable element of the path",
			"pathNotNullGuards: "+why+": for a path crossing two optional elements (`inner?.label?`) the generated converter tests `input.Inner.Label != nil` without having tested `input.Inner` — nil pointer dereference on a value whose outer element is unset")
	} else {
		r.Undecided("anchor lost: ConverterGenerator.pathNotNullGuards")
	}
	// (b)
	n := 0
	for _, name := range []string{"convertOption", "mappingForOption"} {
		fn := ctx.LookupMethod("internal/languages", "ConverterGenerator", name)
		fd, _ := ctx.DeclOf(fn)
		if fd == nil {
			r.Undecided("anchor lost: ConverterGenerator.%s", name)
			continue
		}
		filters := false
		ast.Inspect(fd.Body, func(m ast.Node) bool {
			c, ok := m.(*ast.CallExpr)
			if !ok || len(c.Args) != 2 {
				return true
			}
			if f := callee(info, c); f == nil || !funcIs(f, toolsPkgPath, "Filter") {
				return true
			}
			if s, ok := ast.Unparen(c.Args[0]).(*ast.SelectorExpr); !ok || s.Sel.Name != "Assignments" {
				return true
			}
			ast.Inspect(c.Args[1], func(q ast.Node) bool {
				if s, ok := q.(*ast.SelectorExpr); ok && s.Sel.Name == "generatedPaths" {
					filters = true
				}
				return true
			})
			return true
		})
		n++
		r.Check(filters, "siblings/converted-assignments-filtered", "ConverterGenerator."+name, fd.Pos(), "decides on the assignments not yet converted (option.Assignments filtered by generatedPaths)",
			"ConverterGenerator."+name+" no longer filters option.Assignments by generatedPaths while its sibling does: the form of the conversion (one call per list item or one call with the list) is chosen from an assignment that will not be converted — the emitted call does not match the option's signature")
	}
	r.Count("functions deciding on the assignments left to convert", n)
}

// c14ValueGuards: guardForAssignments adds, next to the nil guards, *value* guards: "not empty" for strings and lists, "not
// equal to the default" for scalars. (a) "not empty" means "what a fresh builder leaves" only when the field has no
// default: with a default ("hello", ["a","b"]) the empty value differs from what the builder constructs and must be
// reproduced — the emptiness guards must be conditioned on Default == nil. (b) the guards of all assignments of an option
// are conjoined around the single option call: for an option with several arguments one argument at its default (or
// empty) suppresses the whole call, the other arguments included — value guards must not be added for options that assign
// more than one argument. Both are violated by the pinned tree (recorded findings).
func c14ValueGuards(ctx *Ctx, r *Report) {
	fn := ctx.LookupMethod("internal/languages", "ConverterGenerator", "guardForAssignments")
	fd, p := ctx.DeclOf(fn)
	if fd == nil {
		r.Undecided("anchor lost: ConverterGenerator.guardForAssignments")
		return
	}
	info := p.TypesInfo
	parents := parentMap(fd)
	emptinessUnguarded, n := "", 0
	multiArgAware := false
	// local variables that hold the default of the assigned type (possibly replaced by what the constructor sets)
	initialValues := map[string]bool{}
	ast.Inspect(fd.Body, func(m ast.Node) bool {
		if as, ok := m.(*ast.AssignStmt); ok && len(as.Lhs) == 1 && len(as.Rhs) == 1 && strings.HasSuffix(exprString(as.Rhs[0]), ".Default") {
			if id, ok := as.Lhs[0].(*ast.Ident); ok {
				initialValues[id.Name] = true
			}
		}
		return true
	})
	ast.Inspect(fd.Body, func(m ast.Node) bool {
		cl, ok := m.(*ast.CompositeLit)
		if !ok {
			return true
		}
		if nt := namedOf(info.TypeOf(cl)); nt == nil || nt.Obj().Name() != "MappingGuard" {
			return true
		}
		op, val := "", ""
		for _, el := range cl.Elts {
			if kv, ok := el.(*ast.KeyValueExpr); ok {
				if id, ok := kv.Key.(*ast.Ident); ok {
					switch id.Name {
					case "Op":
						op = exprString(kv.Value)
					case "Value":
						val = exprString(kv.Value)
					}
				}
			}
		}
		isEmptiness := strings.HasSuffix(op, "MinLengthOp") || (strings.HasSuffix(op, "NotEqualOp") && val == `""`)
		isValueGuard := isEmptiness || (strings.HasSuffix(op, "NotEqualOp") && (strings.Contains(val, "Default") || initialValues[val]))
		if !isValueGuard {
			return true
		}
		n++
		conds := ""
		for _, ce := range enclosingConds(parents, cl) {
			if !ce.inElse {
				conds += exprString(ce.stmt.Cond) + " ; "
			}
		}
		if isEmptiness && !strings.Contains(conds, "Default == nil") && emptinessUnguarded == "" {
			emptinessUnguarded = op + " " + val
		}
		if strings.Contains(conds, "len(") && (strings.Contains(conds, "ssignments") || strings.Contains(conds, "Args")) {
			multiArgAware = true
		}
		return true
	})
	r.Count("value guards built by guardForAssignments", n)
	r.Floor("value guards built by guardForAssignments", 3)
	r.Check(emptinessUnguarded == "", "flow/emptiness-guard-only-without-default", "ConverterGenerator.guardForAssignments emptiness guards", fd.Pos(), "only for fields without a default",
		"guardForAssignments adds the guard `"+emptinessUnguarded+"` whatever the field's default: with `greeting: string | *\"hello\"` the value \"\" is not what a fresh builder holds, yet no Greeting(\"\") call is printed — the rebuilt object has \"hello\"")
	r.Check(multiArgAware, "flow/value-guards-per-argument", "ConverterGenerator.guardForAssignments options with several arguments", fd.Pos(), "value guards are not conjoined across the arguments of one option",
		"guardForAssignments adds value guards (not empty / not the default) for every assignment of the option and they are conjoined around the single call: `Point(x, y)` with y at its default prints no Point(...) call at all — x is lost")
}

// c14DateTimeFormatter: the Go converter prints scalars with fmt.Sprintf("%#v", v). For a date-time field v is a
// time.Time, whose GoString is only valid Go for UTC and Local ("time.Location(\"\")" otherwise): the scalar case of the
// value formatter needs a case for the date-time hint. Violated by the pinned tree (recorded finding).
func c14DateTimeFormatter(ctx *Ctx, r *Report) {
	ts, err := loadTemplates(ctx, "golang")
	if err != nil {
		r.Undecided("cannot parse golang templates: %v", err)
		return
	}
	tree := ts.trees["value_formatter"]
	if tree == nil {
		r.Undecided("anchor lost: template value_formatter")
		return
	}
	handles := false
	walkTmpl(tree.Root, func(m parse.Node) bool {
		if in, ok := m.(*parse.IfNode); ok {
			c := in.Pipe.String()
			if strings.Contains(c, "datetime") || strings.Contains(c, "DateTime") || strings.Contains(c, "time") {
				handles = true
			}
		}
		return true
	})
	r.Count("value formatters of the Go converter", 1)
	r.Check(handles, "skeleton/converter-datetime-formatter", "golang converter value_formatter date-time case", token.NoPos, "date-time values are not printed with %#v",
		ts.file["value_formatter"]+": every scalar is printed with fmt.Sprintf(\"%#v\", …), time.Time included: for a value with a zone offset the converter prints `time.Date(…, time.Location(\"\"))`, which does not compile")
}

// c14FourthRound — three defects of the third hunting pass.
// (a) constructor arguments are mapped by kind, like option arguments: Converter.ConstructorArgs holds
// ArgumentMapping values built by argumentForType, and every converter template prepares the ones that are not
// direct with prepare_arg (a builder-typed constructor argument printed as a struct literal does not compile).
// (b) in mappingForOption the branch that maps an element of the repeated list (`valueType.AsArray().ValueType`)
// depends on the assignment's method: an index assignment whose value is an array keeps its key; and
// pathNotNullGuards skips indexed chunks, whose index only exists inside the loop.
// (c) an argument that feeds several assignments of an option is mapped once: the loop over the assignments
// skips (`continue`) an assignment whose Value.Argument.Name was already mapped.
func c14FourthRound(ctx *Ctx, r *Report) {
	p := ctx.Pkg("internal/languages")
	if p == nil {
		return
	}
	info := p.TypesInfo
	// (a) the field's type and how it is filled
	conv := ctx.LookupType("internal/languages", "Converter")
	okType := false
	if conv != nil {
		if st, ok := conv.Underlying().(*types.Struct); ok {
			for i := 0; i < st.NumFields(); i++ {
				if f := st.Field(i); f.Name() == "ConstructorArgs" {
					if sl, ok := f.Type().(*types.Slice); ok {
						if nt := namedOf(sl.Elem()); nt != nil && nt.Obj().Name() == "ArgumentMapping" {
							okType = true
						}
					}
				}
			}
		}
	}
	argForType := ctx.LookupMethod("internal/languages", "ConverterGenerator", "argumentForType")
	ctorFn := ctx.LookupMethod("internal/languages", "ConverterGenerator", "constructorArgs")
	byKind := false
	var ctorPos token.Pos
	if ctorFn != nil {
		if fd, _ := ctx.DeclOf(ctorFn); fd != nil {
			ctorPos = fd.Pos()
			ast.Inspect(fd.Body, func(m ast.Node) bool {
				if c, ok := m.(*ast.CallExpr); ok && argForType != nil && callee(info, c) == argForType {
					byKind = true
				}
				return true
			})
		}
	}
	r.Count("hunted clauses of the converter generator (4th round)", 1)
	r.Check(okType && byKind, "skeleton/constructor-args-by-kind", "languages.ConverterGenerator.constructorArgs", ctorPos, "constructor arguments are ArgumentMappings built by argumentForType",
		"constructor arguments are mapped as direct values whatever their type: an argument whose type has a builder (promote_options_to_constructor on a struct field) is printed as a struct literal where the constructor takes a builder — the emitted expression does not compile")
	for _, lang := range []string{"golang", "java", "php"} {
		ts, err := loadTemplates(ctx, lang)
		if err != nil {
			r.Undecided("templates of %s: %v", lang, err)
			continue
		}
		tree := ts.trees["converter"]
		if tree == nil {
			r.Undecided("anchor lost: %s template \"converter\"", lang)
			continue
		}
		prepares, reads := false, false
		walkTmpl(tree.Root, func(n parse.Node) bool {
			rn, ok := n.(*parse.RangeNode)
			if !ok || !strings.Contains(rn.Pipe.String(), ".Converter.ConstructorArgs") {
				if wn, ok := n.(*parse.WithNode); ok && strings.Contains(wn.Pipe.String(), ".Converter.ConstructorArgs") {
					reads = true
				}
				return true
			}
			reads = true
			// every branch made for arguments that are not direct values prepares the argument (a branch that does not
			// leaves builders, lists, maps and unions unprinted); without such branches, any prepare_arg will do
			branches, prepared := 0, 0
			walkTmpl(rn.List, func(q parse.Node) bool {
				in, ok := q.(*parse.IfNode)
				if !ok {
					return true
				}
				for _, b := range ifChain(in) {
					if b.cond == nil || !strings.Contains(b.cond.String(), "not $arg.Direct") {
						continue
					}
					branches++
					found := false
					walkTmpl(b.body, func(k parse.Node) bool {
						if tn, ok := k.(*parse.TemplateNode); ok && tn.Name == "prepare_arg" {
							found = true
						}
						return true
					})
					if found {
						prepared++
					}
				}
				return false
			})
			if branches > 0 {
				prepares = prepared == branches
			} else {
				walkTmpl(rn.List, func(q parse.Node) bool {
					if tn, ok := q.(*parse.TemplateNode); ok && tn.Name == "prepare_arg" {
						prepares = true
					}
					return true
				})
			}
			return true
		})
		if !reads {
			r.Undecided("anchor changed: %s template \"converter\" no longer reads .Converter.ConstructorArgs", lang)
			continue
		}
		r.Count("hunted clauses of the converter generator (4th round)", 1)
		r.Check(prepares, "skeleton/constructor-args-by-kind", lang+" converter template prepares constructor arguments", token.NoPos, ts.file["converter"]+": constructor arguments go through prepare_arg",
			ts.file["converter"]+": the constructor arguments are printed without prepare_arg: builder, array, map and union arguments are rendered as plain values")
	}
	// (a') a constructor argument can be absent from the input (an optional field promoted to the constructor): its
	// not-nil guards are computed like those of options, and the Go template tests them before it dereferences
	if ctorFn != nil {
		if fd, _ := ctx.DeclOf(ctorFn); fd != nil {
			guardFn := ctx.LookupMethod("internal/languages", "ConverterGenerator", "pathNotNullGuards")
			guards := false
			ast.Inspect(fd.Body, func(m ast.Node) bool {
				as, ok := m.(*ast.AssignStmt)
				if !ok || len(as.Lhs) != 1 || len(as.Rhs) != 1 {
					return true
				}
				if sel, ok := ast.Unparen(as.Lhs[0]).(*ast.SelectorExpr); ok && sel.Sel.Name == "Guards" {
					if c, ok := ast.Unparen(as.Rhs[0]).(*ast.CallExpr); ok && guardFn != nil && callee(info, c) == guardFn {
						guards = true
					}
				}
				return true
			})
			r.Count("hunted clauses of the converter generator (4th round)", 1)
			r.Check(guards, "flow/constructor-args-guarded", "languages.ConverterGenerator.constructorArgs computes not-nil guards", fd.Pos(), "each constructor argument carries the not-nil guards of its path",
				"constructor arguments carry no guard: for an optional field promoted to the constructor (`b?: int64`) the Go converter evaluates *input.B and panics on every value in which b is absent")
		}
	}
	if ts, err := loadTemplates(ctx, "golang"); err == nil {
		if tree := ts.trees["converter"]; tree != nil {
			tests := false
			walkTmpl(tree.Root, func(n parse.Node) bool {
				rn, ok := n.(*parse.RangeNode)
				if !ok || !strings.Contains(rn.Pipe.String(), ".Converter.ConstructorArgs") {
					return true
				}
				walkTmpl(rn.List, func(q parse.Node) bool {
					if tn, ok := q.(*parse.TemplateNode); ok && tn.Name == "guards" {
						tests = true
					}
					return true
				})
				return true
			})
			r.Count("hunted clauses of the converter generator (4th round)", 1)
			r.Check(tests, "flow/constructor-args-guarded", "golang converter template tests the guards of constructor arguments", token.NoPos, ts.file["converter"]+": the guards of a constructor argument are tested before its value is read",
				ts.file["converter"]+": the constructor arguments are read (and dereferenced) without testing their guards: the converter panics when an optional field promoted to the constructor is absent")
		}
	}
	// (b)
	if fn := ctx.LookupMethod("internal/languages", "ConverterGenerator", "mappingForOption"); fn != nil {
		fd, _ := ctx.DeclOf(fn)
		n := 0
		ast.Inspect(fd.Body, func(m ast.Node) bool {
			is, ok := m.(*ast.IfStmt)
			if !ok {
				return true
			}
			element := false
			for _, st := range is.Body.List {
				if as, ok := st.(*ast.AssignStmt); ok && len(as.Rhs) == 1 {
					if strings.HasSuffix(exprString(as.Rhs[0]), ".AsArray().ValueType") {
						element = true
					}
				}
			}
			if !element {
				return true
			}
			n++
			method := false
			ast.Inspect(is.Cond, func(q ast.Node) bool {
				if s, ok := q.(*ast.SelectorExpr); ok && s.Sel.Name == "Method" {
					method = true
				}
				return true
			})
			r.Check(method, "flow/index-assignment-keeps-key", "languages.mappingForOption element-of-list branch", is.Pos(), "taken according to the assignment's method",
				"the branch that maps one element of the repeated list is taken for any array-typed value, index assignments included: `map_to_index` on a map of arrays is treated as an append, the key argument is dropped and the generated converter does not compile (undefined: key)")
			return true
		})
		r.Count("element-of-list branches in mappingForOption", n)
		r.Floor("element-of-list branches in mappingForOption", 1)
	}
	if fn := ctx.LookupMethod("internal/languages", "ConverterGenerator", "pathNotNullGuards"); fn != nil {
		fd, _ := ctx.DeclOf(fn)
		skips := false
		ast.Inspect(fd.Body, func(m ast.Node) bool {
			rs, ok := m.(*ast.RangeStmt)
			if !ok {
				return true
			}
			for _, st := range rs.Body.List {
				is, ok := st.(*ast.IfStmt)
				if !ok || len(is.Body.List) != 1 {
					continue
				}
				if br, ok := is.Body.List[0].(*ast.BranchStmt); !ok || br.Tok != token.CONTINUE {
					continue
				}
				if be, ok := ast.Unparen(is.Cond).(*ast.BinaryExpr); ok && be.Op == token.NEQ && strings.HasSuffix(exprString(be.X), ".Index") && exprString(be.Y) == "nil" {
					skips = true
				}
			}
			return true
		})
		r.Count("hunted clauses of the converter generator (4th round)", 1)
		r.Check(skips, "flow/index-assignment-keeps-key", "languages.pathNotNullGuards skips indexed chunks", fd.Pos(), "a chunk carrying an index gets no guard outside the loop",
			"pathNotNullGuards emits a not-nil guard for an indexed chunk (`input.Labels[key] != nil`), which is rendered outside the loop that declares the index: the generated converter does not compile (undefined: key)")
	}
	// (c)
	if fn := ctx.LookupMethod("internal/languages", "ConverterGenerator", "mappingForOption"); fn != nil {
		fd, _ := ctx.DeclOf(fn)
		once := false
		ast.Inspect(fd.Body, func(m ast.Node) bool {
			rs, ok := m.(*ast.RangeStmt)
			if !ok {
				return true
			}
			ast.Inspect(rs.Body, func(q ast.Node) bool {
				is, ok := q.(*ast.IfStmt)
				if !ok || is.Init == nil {
					return true
				}
				as, ok := is.Init.(*ast.AssignStmt)
				if !ok || len(as.Rhs) != 1 {
					return true
				}
				ix, ok := ast.Unparen(as.Rhs[0]).(*ast.IndexExpr)
				if !ok || !strings.HasSuffix(exprString(ix.Index), ".Value.Argument.Name") {
					return true
				}
				if _, isMap := info.TypeOf(ix.X).Underlying().(*types.Map); !isMap {
					return true
				}
				for _, st := range is.Body.List {
					if br, ok := st.(*ast.BranchStmt); ok && br.Tok == token.CONTINUE {
						once = true
					}
				}
				return true
			})
			return true
		})
		r.Count("hunted clauses of the converter generator (4th round)", 1)
		r.Check(once, "flow/argument-printed-once", "languages.mappingForOption maps each argument once", fd.Pos(), "an assignment whose argument was already mapped is skipped",
			"mappingForOption produces one printed argument per non-constant assignment: an option argument feeding two assignments (add_assignment) is printed twice — too many arguments in the emitted call")
	}
}

// c14FifthRound — third hunt:
//   - a choice between several builders (each guarded by the constants of its constructor) has an unguarded way out: a
//     value that matches none of the constants is still converted, by one of the builders, through its options;
//   - the fields of an envelope that the option sets from a constant are not arguments of the option;
//   - an option records as "generated" the path its printed argument is read from, not the other paths the same
//     argument is spread over (the options that write those are still needed), and options are converted in an order
//     that puts the spreading ones first.
func c14FifthRound(ctx *Ctx, r *Report) {
	p := ctx.Pkg("internal/languages")
	if p == nil {
		return
	}
	info := p.TypesInfo
	n := 0
	// (a) templates
	for _, lang := range []string{"golang", "php"} {
		ts, err := loadTemplates(ctx, lang)
		if err != nil {
			r.Undecided("templates of %s: %v", lang, err)
			continue
		}
		tree := ts.trees["prepare_arg"]
		if tree == nil {
			r.Undecided("anchor lost: %s template \"prepare_arg\"", lang)
			continue
		}
		found, fallback := false, false
		walkTmpl(tree.Root, func(q parse.Node) bool {
			wn, ok := q.(*parse.WithNode)
			if !ok || !strings.Contains(wn.Pipe.String(), ".BuilderDisjunction") {
				return true
			}
			found = true
			// a converter call printed outside the range over the guarded choices
			for _, c := range wn.List.Nodes {
				if _, isRange := c.(*parse.RangeNode); isRange {
					continue
				}
				walkTmpl(c, func(k parse.Node) bool {
					if an, ok := k.(*parse.ActionNode); ok && strings.Contains(an.String(), "Converter") {
						fallback = true
					}
					return true
				})
			}
			return false
		})
		if !found {
			r.Undecided("anchor changed: %s template \"prepare_arg\" no longer reads .Arg.BuilderDisjunction", lang)
			continue
		}
		n++
		r.Check(fallback, "skeleton/builder-choice-total", lang+" converter template: choice between builders", token.NoPos, ts.file["prepare_arg"]+": a converter is called when none of the guarded choices holds",
			ts.file["prepare_arg"]+": every choice between builders is guarded by the constants of its constructor and nothing is printed when none holds: a value with another constant ({\"kind\":\"hexagon\"} for builders initialised with \"square\" and \"circle\") is converted to an empty argument — Shape() does not compile, an element of a list disappears")
	}
	// (b) envelope constants
	if fn := ctx.LookupMethod("internal/languages", "ConverterGenerator", "argumentsForEnvelope"); fn == nil {
		r.Undecided("anchor lost: languages.ConverterGenerator.argumentsForEnvelope")
	} else if fd, _ := ctx.DeclOf(fn); fd != nil {
		skips := false
		ast.Inspect(fd.Body, func(m ast.Node) bool {
			rs, ok := m.(*ast.RangeStmt)
			if !ok || !strings.HasSuffix(exprString(rs.X), ".Envelope.Values") {
				return true
			}
			for _, st := range rs.Body.List {
				is, ok := st.(*ast.IfStmt)
				if !ok || !endsInExit(is.Body) {
					continue
				}
				c := exprString(is.Cond)
				if (strings.Contains(c, ".Value.Constant != nil") || strings.Contains(c, ".Value.Argument == nil")) && !strings.Contains(c, "&&") {
					skips = true
				}
			}
			return true
		})
		n++
		r.Check(skips, "flow/envelope-constants-not-arguments", "languages.ConverterGenerator.argumentsForEnvelope", fd.Pos(), "the fields of an envelope set from a constant are skipped",
			"argumentsForEnvelope prints one argument per field of the envelope, including the fields the option sets from a constant: with `Point: {kind: \"pt\", x: int64}` and struct_fields_as_arguments the converter prints Points(\"pt\", 1) for the option Points(x int64) — too many arguments")
	}
	// (c) generatedPaths
	if fn := ctx.LookupMethod("internal/languages", "ConverterGenerator", "mappingForOption"); fn == nil {
		r.Undecided("anchor lost: languages.ConverterGenerator.mappingForOption")
	} else if fd, _ := ctx.DeclOf(fn); fd != nil {
		var store, dedup token.Pos
		ast.Inspect(fd.Body, func(m ast.Node) bool {
			switch x := m.(type) {
			case *ast.AssignStmt:
				for _, l := range x.Lhs {
					if ix, ok := ast.Unparen(l).(*ast.IndexExpr); ok && strings.HasSuffix(exprString(ix.X), ".generatedPaths") && !store.IsValid() {
						store = x.Pos()
					}
				}
			case *ast.IfStmt:
				// `if _, mapped := mappedArguments[name]; mapped { continue }`
				endsInContinue := false
				if len(x.Body.List) > 0 {
					if bs, ok := x.Body.List[len(x.Body.List)-1].(*ast.BranchStmt); ok && bs.Tok == token.CONTINUE {
						endsInContinue = true
					}
				}
				// (a lookup that *returns* — the position of an argument — is not the test that skips an assignment)
				if as, ok := x.Init.(*ast.AssignStmt); ok && len(as.Rhs) == 1 && endsInContinue {
					if ix, ok := ast.Unparen(as.Rhs[0]).(*ast.IndexExpr); ok {
						if _, isMap := info.TypeOf(ix.X).Underlying().(*types.Map); isMap && strings.Contains(exprString(ix.Index), ".Argument.Name") && !dedup.IsValid() {
							dedup = x.Pos()
						}
					}
				}
			}
			return true
		})
		if !store.IsValid() || !dedup.IsValid() {
			r.Undecided("anchor changed: languages.ConverterGenerator.mappingForOption no longer stores into generatedPaths / no longer prints an argument once")
		} else {
			n++
			r.Check(dedup < store, "flow/generated-path-is-read-path", "languages.ConverterGenerator.mappingForOption records generated paths", store, "a path is recorded as generated after the test that skips the secondary paths of an argument",
				"mappingForOption records every path an option writes as generated, including the paths its argument is only spread over: with add_assignment(Outer.name: title = name) the option Title is taken for a duplicate of Name and never printed — {\"name\":\"a\",\"title\":\"b\"} is rebuilt with title \"a\"")
		}
	}
	// (d) order
	if fn := ctx.LookupMethod("internal/languages", "ConverterGenerator", "FromBuilder"); fn != nil {
		if fd, _ := ctx.DeclOf(fn); fd != nil {
			ordered := false
			ast.Inspect(fd.Body, func(m ast.Node) bool {
				c, ok := m.(*ast.CallExpr)
				if !ok || len(c.Args) != 2 {
					return true
				}
				f := callee(info, c)
				if f == nil || f.Pkg() == nil || f.Pkg().Path() != "sort" || !strings.HasPrefix(f.Name(), "Slice") {
					return true
				}
				if !isPermutedCopyOfOptions(info, fd, c.Args[0]) {
					return true
				}
				// the order looks at the assignments of the options
				if lit, ok := c.Args[1].(*ast.FuncLit); ok {
					ast.Inspect(lit.Body, func(k ast.Node) bool {
						if c2, ok := k.(*ast.CallExpr); ok {
							if f2 := callee(info, c2); f2 != nil {
								if fd2, _ := ctx.DeclOf(f2); fd2 != nil && fd2.Body != nil {
									readsAssignments, readsArgument := false, false
									ast.Inspect(fd2.Body, func(q ast.Node) bool {
										if sel, ok := q.(*ast.SelectorExpr); ok {
											readsAssignments = readsAssignments || sel.Sel.Name == "Assignments"
											readsArgument = readsArgument || sel.Sel.Name == "Argument"
										}
										return true
									})
									if readsAssignments && readsArgument {
										ordered = true
									}
								}
							}
						}
						return true
					})
				}
				return true
			})
			n++
			r.Check(ordered, "order/spreading-options-first", "languages.ConverterGenerator.FromBuilder orders the options", fd.Pos(), "the options are converted in an order computed from the arguments their assignments read",
				"FromBuilder converts the options in declaration order: an option that spreads its argument over two paths (Name writes name and title) declared after the option that writes one of them (Title) is called last and overwrites it — {\"title\":\"b\",\"name\":\"a\"} is rebuilt with title \"a\"")
		}
	}
	r.Count("hunted clauses of the converter generator (5th round)", n)
	r.Floor("hunted clauses of the converter generator (5th round)", 5)
}

// c14GoConverterBuffer: the Go converter writes each option call into a `buffer` variable. Go refuses an unused
// variable: the declaration must be subject to the same condition as its only uses — there being mappings to convert.
// (A builder can have no option at all: a struct whose fields are all fixed by the schema.)
func c14GoConverterBuffer(ctx *Ctx, r *Report) {
	ts, err := loadTemplates(ctx, "golang")
	if err != nil {
		r.Undecided("templates of golang: %v", err)
		return
	}
	tree := ts.trees["converter"]
	if tree == nil {
		r.Undecided("anchor lost: golang template \"converter\"")
		return
	}
	declared, conditional := false, false
	var visit func(l *parse.ListNode, underMappings bool)
	visit = func(l *parse.ListNode, underMappings bool) {
		if l == nil {
			return
		}
		for _, c := range l.Nodes {
			switch x := c.(type) {
			case *parse.TextNode:
				if strings.Contains(string(x.Text), "var buffer ") {
					declared = true
					if underMappings {
						conditional = true
					}
				}
			case *parse.IfNode:
				under := underMappings || strings.Contains(x.Pipe.String(), ".Converter.Mappings")
				visit(x.List, under)
				visit(x.ElseList, underMappings)
			case *parse.WithNode:
				under := underMappings || strings.Contains(x.Pipe.String(), ".Converter.Mappings")
				visit(x.List, under)
				visit(x.ElseList, underMappings)
			case *parse.RangeNode:
				under := underMappings || strings.Contains(x.Pipe.String(), ".Converter.Mappings")
				visit(x.List, under)
				visit(x.ElseList, underMappings)
			}
		}
	}
	visit(tree.Root, false)
	if !declared {
		// no buffer variable at all: nothing can be left unused
		r.OK("skeleton/go-converter-buffer-conditional", "golang converter template declares its buffer", token.NoPos, "no buffer variable is declared")
		return
	}
	r.Count("buffer declarations of the Go converter template", 1)
	r.Check(conditional, "skeleton/go-converter-buffer-conditional", "golang converter template declares its buffer", token.NoPos, ts.file["converter"]+": the buffer is declared under the test that there are mappings",
		ts.file["converter"]+": `var buffer strings.Builder` is declared whatever the builder: for a builder without options (`OnlyConst: {kind: \"x\"}`) nothing uses it — declared and not used: buffer, the package does not compile")
}

// c14SixthRound — fourth hunt:
//   - the arguments of an option are printed in the order the option *declares* them: mappingForOption orders the
//     assignments it walks after the positions of their arguments in option.Args;
//   - the elements of a list or of a map keep their declared type in the printed literal: a nullable scalar element is a
//     pointer or nil there (the Go template has an element-level preparation that knows about Nullable);
//   - the guards of a constructor argument are tested whatever the kind of the argument, not only for direct values.
func c14SixthRound(ctx *Ctx, r *Report) {
	n := 0
	if fn := ctx.LookupMethod("internal/languages", "ConverterGenerator", "mappingForOption"); fn == nil {
		r.Undecided("anchor lost: languages.ConverterGenerator.mappingForOption")
	} else if fd, p := ctx.DeclOf(fn); fd != nil {
		info := p.TypesInfo
		positions := map[types.Object]bool{} // maps filled from a range over option.Args
		ast.Inspect(fd.Body, func(m ast.Node) bool {
			rs, ok := m.(*ast.RangeStmt)
			if !ok {
				return true
			}
			if ff := fieldOf(info, rs.X); ff == nil || ff.Name() != "Args" {
				return true
			}
			ast.Inspect(rs.Body, func(k ast.Node) bool {
				if as, ok := k.(*ast.AssignStmt); ok && len(as.Lhs) == 1 {
					if ix, ok := ast.Unparen(as.Lhs[0]).(*ast.IndexExpr); ok {
						if id, ok := ast.Unparen(ix.X).(*ast.Ident); ok {
							positions[objOf(info, id)] = true
						}
					}
				}
				return true
			})
			return true
		})
		ordered := false
		ast.Inspect(fd.Body, func(m ast.Node) bool {
			c, ok := m.(*ast.CallExpr)
			if !ok || len(c.Args) != 2 {
				return true
			}
			f := callee(info, c)
			if f == nil || f.Pkg() == nil || f.Pkg().Path() != "sort" || !strings.HasPrefix(f.Name(), "Slice") {
				return true
			}
			// the order is computed from the positions (directly, or through a local function that reads them)
			uses := false
			var scan func(n ast.Node, depth int)
			scan = func(n ast.Node, depth int) {
				ast.Inspect(n, func(k ast.Node) bool {
					if id, ok := k.(*ast.Ident); ok {
						if positions[objOf(info, id)] {
							uses = true
						}
						if depth < 2 {
							// a local closure
							ast.Inspect(fd.Body, func(q ast.Node) bool {
								if as, ok := q.(*ast.AssignStmt); ok && as.Tok == token.DEFINE && len(as.Lhs) == 1 && len(as.Rhs) == 1 {
									if lid, ok := as.Lhs[0].(*ast.Ident); ok && info.Defs[lid] == objOf(info, id) {
										if fl, ok := as.Rhs[0].(*ast.FuncLit); ok {
											scan(fl.Body, depth+1)
										}
									}
								}
								return true
							})
						}
					}
					return true
				})
			}
			scan(c.Args[1], 0)
			if uses {
				ordered = true
			}
			return true
		})
		n++
		r.Check(ordered, "order/arguments-in-declaration-order", "languages.ConverterGenerator.mappingForOption orders the arguments it prints", fd.Pos(), "the assignments are sorted after the position of their argument in option.Args",
			"mappingForOption prints one argument per assignment, in the order of the assignments: an option range(min, max) whose assignments are listed max first is printed Range(200, 1) for {min: 1, max: 200} — the rebuilt object has min and max swapped")
	}
	ts, err := loadTemplates(ctx, "golang")
	if err != nil {
		r.Undecided("templates of golang: %v", err)
		return
	}
	// elements
	if tree := ts.trees["prepare_arg"]; tree == nil {
		r.Undecided("anchor lost: golang template \"prepare_arg\"")
	} else {
		direct := ""
		walkTmpl(tree.Root, func(q parse.Node) bool {
			wn, ok := q.(*parse.WithNode)
			if !ok || (!strings.Contains(wn.Pipe.String(), ".Arg.Array") && !strings.Contains(wn.Pipe.String(), ".Arg.Map")) {
				return true
			}
			walkTmpl(wn.List, func(k parse.Node) bool {
				if tn, ok := k.(*parse.TemplateNode); ok && tn.Name == "prepare_arg" && tn.Pipe != nil && strings.Contains(tn.Pipe.String(), ".ForArg") {
					direct = wn.Pipe.String()
				}
				return true
			})
			return false
		})
		aware := false
		if et := ts.trees["prepare_element"]; et != nil {
			text := tmplText(et.Root)
			walkTmpl(et.Root, func(k parse.Node) bool {
				if in, ok := k.(*parse.IfNode); ok && strings.Contains(in.Pipe.String(), "Nullable") {
					aware = true
				}
				return true
			})
			aware = aware && strings.Contains(text, "nil")
		}
		n++
		r.Check(direct == "" && aware, "skeleton/go-converter-nullable-elements", "golang converter template prepares the elements of lists and maps", token.NoPos, ts.file["prepare_arg"]+": elements go through a preparation that writes nullable scalars as pointers or nil",
			ts.file["prepare_arg"]+": the elements of a list / map ("+direct+") are prepared like plain arguments, i.e. dereferenced: `items: [...(string | null)]` is printed []*string{\"a\", \"b\"} — does not compile — and a null element makes the converter panic")
	}
	// constructor arguments of every kind
	if tree := ts.trees["converter"]; tree == nil {
		r.Undecided("anchor lost: golang template \"converter\"")
	} else {
		guarded := false
		walkTmpl(tree.Root, func(q parse.Node) bool {
			rn, ok := q.(*parse.RangeNode)
			if !ok || !strings.Contains(rn.Pipe.String(), ".Converter.ConstructorArgs") {
				return true
			}
			walkTmpl(rn.List, func(k parse.Node) bool {
				in, ok := k.(*parse.IfNode)
				if !ok {
					return true
				}
				cond := in.Pipe.String()
				if strings.Contains(cond, "not $arg.Direct") && strings.Contains(cond, "Guards") {
					walkTmpl(in.List, func(g parse.Node) bool {
						if tn, ok := g.(*parse.TemplateNode); ok && tn.Name == "guards" {
							guarded = true
						}
						return true
					})
				}
				return true
			})
			return true
		})
		n++
		r.Check(guarded, "flow/constructor-args-guarded", "golang converter template tests the guards of constructor arguments that are not direct values", token.NoPos, ts.file["converter"]+": a builder / list / map / union constructor argument is read under its guards",
			ts.file["converter"]+": only direct constructor arguments are read under their guards: `inner?: Inner` promoted to the constructor gives `constructorArg0 := InnerConverter(*input.Inner)` — a nil dereference for every value without inner")
	}
	r.Count("hunted clauses of the converter (6th round)", n)
	r.Floor("hunted clauses of the converter (6th round)", 3)
}

// c14SeventhRound — fifth hunt:
//   - the names of the temporaries of the Go converter are built from the name of a field, which is data: every
//     variable name the converter template builds with `print` from an `.Identifier` passes it through a function of
//     the jenny (`my-tags` gave `tmpmy - tagsarg1 := …`);
//   - constructorArgs sorts the assignments it reads by the position of their argument in Constructor.Args (as
//     mappingForOption does for options): a promoted `range(min, max)` that assigns max first was printed (200, 1);
//   - the "not what a new builder holds" guard of guardForAssignments consults what the constructor sets: FromBuilder
//     records the constant assignments of the constructor, and the guard's value is taken from that record when the
//     path is in it (the `initialize` veneer);
//   - the fields of an envelope are compared with nil only under a nullability test.
func c14SeventhRound(ctx *Ctx, r *Report) {
	n := 0
	// (a)
	ts, err := loadTemplates(ctx, "golang")
	if err != nil {
		r.Undecided("cannot parse golang templates: %v", err)
	} else {
		raw := 0
		built := 0
		for _, name := range ts.names() {
			if !strings.Contains(ts.file[name], "converters/") {
				continue
			}
			walkTmpl(ts.trees[name].Root, func(m parse.Node) bool {
				an, ok := m.(*parse.ActionNode)
				if !ok || len(an.Pipe.Decl) == 0 {
					return true
				}
				text := an.Pipe.String()
				// `$x := print "tmp" … .Identifier …`: a variable of the generated code named after a field
				if !strings.Contains(text, "print ") || !strings.Contains(text, ".Identifier") {
					return true
				}
				built++
				for _, cmd := range an.Pipe.Cmds {
					for _, arg := range cmd.Args {
						if fn, ok := arg.(*parse.FieldNode); ok && len(fn.Ident) > 0 && fn.Ident[len(fn.Ident)-1] == "Identifier" {
							raw++
						}
					}
				}
				return true
			})
		}
		if built == 0 {
			r.Undecided("anchor changed: the Go converter templates build no variable name from an identifier")
		} else {
			n++
			r.Check(raw == 0, "kinds/go-converter-temporaries-named", "golang converter templates name temporaries after fields", token.NoPos, fmt.Sprintf("the %d names built from an identifier pass it through a function", built),
				fmt.Sprintf("%d variable name(s) of the converter are built from the raw identifier of a field: `\"my-tags\": [...string]` gives `tmpmy - tagsarg1 := …` — the generated package does not compile and no value can be converted", raw))
		}
	}
	lp := ctx.Pkg("internal/languages")
	if lp == nil {
		r.Undecided("anchor lost: internal/languages")
		return
	}
	info := lp.TypesInfo
	// (b)
	if fd := c12Method(lp, "constructorArgs"); fd == nil {
		r.Undecided("anchor lost: languages.ConverterGenerator.constructorArgs")
	} else {
		sorts, byDeclaration := false, false
		ast.Inspect(fd.Body, func(m ast.Node) bool {
			switch x := m.(type) {
			case *ast.CallExpr:
				if f := callee(info, x); f != nil && f.Pkg() != nil && f.Pkg().Path() == "sort" && strings.HasPrefix(f.Name(), "Slice") {
					sorts = true
				}
			case *ast.RangeStmt:
				if strings.HasSuffix(exprString(x.X), ".Constructor.Args") {
					byDeclaration = true
				}
			}
			return true
		})
		n++
		r.Check(sorts && byDeclaration, "order/arguments-in-declaration-order", "languages.ConverterGenerator.constructorArgs orders the arguments of the constructor", fd.Pos(), "by their position in Constructor.Args",
			"constructorArgs prints the arguments in the order of the constructor's assignments: `add_option range(min, max)` assigning max first, promoted to the constructor, prints NewOuterBuilder(200, 1) for {\"min\":1,\"max\":200} — it compiles, the swap is silent")
	}
	// (c)
	gfd := c12Method(lp, "guardForAssignments")
	ffd := c12Method(lp, "FromBuilder")
	if gfd == nil || ffd == nil {
		r.Undecided("anchor lost: languages.ConverterGenerator.guardForAssignments / FromBuilder")
	} else {
		// receiver fields FromBuilder fills from the constant assignments of the constructor
		recorded := map[*types.Var]bool{}
		ast.Inspect(ffd.Body, func(m ast.Node) bool {
			rs, ok := m.(*ast.RangeStmt)
			if !ok || !strings.HasSuffix(exprString(rs.X), ".Constructor.Assignments") {
				return true
			}
			ast.Inspect(rs.Body, func(k ast.Node) bool {
				as, ok := k.(*ast.AssignStmt)
				if !ok || len(as.Lhs) != 1 || len(as.Rhs) != 1 || !strings.HasSuffix(exprString(as.Rhs[0]), ".Value.Constant") {
					return true
				}
				if ix, ok := ast.Unparen(as.Lhs[0]).(*ast.IndexExpr); ok {
					if sel, ok := ast.Unparen(ix.X).(*ast.SelectorExpr); ok {
						if f := fieldOf(info, sel); f != nil {
							recorded[f] = true
						}
					}
				}
				return true
			})
			return true
		})
		consults := false
		ast.Inspect(gfd.Body, func(m ast.Node) bool {
			if ix, ok := m.(*ast.IndexExpr); ok {
				if sel, ok := ast.Unparen(ix.X).(*ast.SelectorExpr); ok && recorded[fieldOf(info, sel)] {
					consults = true
				}
			}
			return true
		})
		n++
		r.Check(len(recorded) != 0 && consults, "flow/value-guard-against-what-the-constructor-sets", "languages.ConverterGenerator.guardForAssignments compares a value with what a new builder holds", gfd.Pos(), "FromBuilder records the constants the constructor assigns and the guard consults them",
			"guardForAssignments compares a value with the default of its type only: with `initialize name = \"foo\"` (NewOuterBuilder() holds foo) and the schema default \"bar\", the value {\"name\":\"bar\"} is taken for what a new builder holds — no Name(\"bar\") is printed and the rebuilt object has \"foo\"")
		// (d)
		guardedByNullability := false
		parents := parentMap(gfd)
		ast.Inspect(gfd.Body, func(m ast.Node) bool {
			rs, ok := m.(*ast.RangeStmt)
			if !ok || !strings.HasSuffix(exprString(rs.X), ".Envelope.Values") {
				return true
			}
			_ = parents
			ast.Inspect(rs.Body, func(k ast.Node) bool {
				if is, ok := k.(*ast.IfStmt); ok && strings.Contains(exprString(is.Cond), "TypeIsNullable") && endsInExit(is.Body) {
					guardedByNullability = true
				}
				return true
			})
			return true
		})
		n++
		r.Check(guardedByNullability, "flow/envelope-nil-guards-only-for-nullables", "languages.ConverterGenerator.guardForAssignments guards the fields of an envelope", gfd.Pos(), "a field is compared with nil only when its type can be nil",
			"guardForAssignments adds `!= nil` for every field of an envelope: `withMain(title, url) { main = Link{title, url} }` gives `if input.Main.Title != nil` on a string — mismatched types string and nil, the converter does not compile")
	}
	r.Count("hunted clauses of the converter (7th round)", n)
	r.Floor("hunted clauses of the converter (7th round)", 4)
}

// c14PathKeysUnambiguous: Path.String() joins the identifiers of a path with a dot, and a field can be called `a.b`: the
// sets the converter generator keeps per path (generated, initialised, grouped list options) are not keyed by that
// string — `Outer: {"a.b": string, a: {b: string}}` made one key of two paths and dropped an option.
func c14PathKeysUnambiguous(ctx *Ctx, r *Report) {
	p := ctx.Pkg("internal/languages")
	if p == nil {
		r.Undecided("anchor lost: internal/languages")
		return
	}
	info := p.TypesInfo
	sites, bad := 0, 0
	var first token.Pos
	for _, f := range p.Syntax {
		if !strings.HasSuffix(ctx.Fset.Position(f.Pos()).Filename, "languages/converter.go") {
			continue
		}
		for _, d := range f.Decls {
			fd, ok := d.(*ast.FuncDecl)
			if !ok || fd.Body == nil {
				continue
			}
			defs := map[types.Object]ast.Expr{}
			ast.Inspect(fd.Body, func(n ast.Node) bool {
				if as, ok := n.(*ast.AssignStmt); ok && len(as.Lhs) == len(as.Rhs) {
					for i, l := range as.Lhs {
						if id, ok := l.(*ast.Ident); ok {
							if o := objOf(info, id); o != nil {
								if _, seen := defs[o]; !seen {
									defs[o] = as.Rhs[i]
								}
							}
						}
					}
				}
				return true
			})
			joined := func(e ast.Expr) bool {
				found := false
				ast.Inspect(e, func(n ast.Node) bool {
					if c, ok := n.(*ast.CallExpr); ok {
						if fn := callee(info, c); fn != nil && fn.Name() == "String" {
							if sig := fn.Type().(*types.Signature); sig.Recv() != nil && namedName(sig.Recv().Type()) == "Path" {
								found = true
							}
						}
					}
					return true
				})
				return found
			}
			ast.Inspect(fd.Body, func(n ast.Node) bool {
				ix, ok := n.(*ast.IndexExpr)
				if !ok {
					return true
				}
				if _, isMap := info.TypeOf(ix.X).Underlying().(*types.Map); !isMap || !strings.HasPrefix(exprString(ix.X), "generator.") {
					return true
				}
				sites++
				key := ix.Index
				if id, ok := ast.Unparen(key).(*ast.Ident); ok {
					if d, ok := defs[objOf(info, id)]; ok {
						key = d
					}
				}
				bodyJoined := false
				if c, ok := ast.Unparen(key).(*ast.CallExpr); ok {
					if fn := callee(info, c); fn != nil && fn.Pkg() == p.Types {
						if gd, _ := ctx.DeclOf(fn); gd != nil && gd.Body != nil {
							ast.Inspect(gd.Body, func(q ast.Node) bool {
								if e, ok := q.(ast.Expr); ok && joined(e) {
									bodyJoined = true
								}
								return !bodyJoined
							})
						}
					}
				}
				if joined(key) || bodyJoined {
					bad++
					if !first.IsValid() {
						first = ix.Pos()
					}
				}
				return true
			})
		}
	}
	r.Count("per-path sets of the converter generator (index sites)", sites)
	r.Floor("per-path sets of the converter generator (index sites)", 5)
	r.Check(bad == 0, "skeleton/path-keys-unambiguous", "languages.ConverterGenerator keys its per-path sets", first, "by the elements of the path, not by Path.String()",
		fmt.Sprintf("%d index site(s) of the converter generator's per-path sets are keyed by Path.String(), which joins identifiers with a dot: with `Outer: {\"a.b\": string, a: A}` and struct_fields_as_options on Outer.a, the field `a.b` and the field b of a share a key — the second option is left out as already generated and {\"a.b\":\"flat\",\"a\":{\"b\":\"nested\"}} is rebuilt without a.b", bad))
}

// c14EighthRound — sixth hunt of C14 (two findings):
//   - guardForAssignments adds an `== constant` guard for every constant an option assigns, also when the option carries
//     an argument as well: the option is then suppressed whenever the value differs from the constant, and its argument
//     is lost (the path is marked as generated). Guards on constants are for options made of constants only;
//   - prepare_arg (Go converter template) dereferences a nullable value handed to a builder's converter
//     (`InnerConverter(*arg1)`) without a nil test: a null element of `[...(Inner | null)]` panics.
func c14EighthRound(ctx *Ctx, r *Report) {
	n := 0
	if fn := ctx.LookupMethod("internal/languages", "ConverterGenerator", "guardForAssignments"); fn == nil {
		r.Undecided("anchor lost: languages.ConverterGenerator.guardForAssignments")
	} else if fd, _ := ctx.DeclOf(fn); fd != nil {
		constantGuard, looksAtArguments := false, false
		ast.Inspect(fd.Body, func(m ast.Node) bool {
			switch x := m.(type) {
			case *ast.IfStmt:
				if strings.Contains(exprString(x.Cond), ".Value.Constant != nil") {
					constantGuard = true
				}
			case *ast.SelectorExpr:
				if x.Sel.Name == "Argument" {
					looksAtArguments = true
				}
			}
			return true
		})
		if !constantGuard {
			r.Undecided("anchor changed: guardForAssignments has no guard for constants")
		}
		n++
		r.Check(looksAtArguments, "flow/constant-guards-only-for-constant-options", "languages.guardForAssignments guards an option on the constants it assigns", fd.Pos(), "only when the option carries no argument",
			"an `== constant` guard is added for every constant assignment, also next to an argument: with add_assignment on Outer.name setting title = \"fixed\", the value {\"name\":\"a\",\"title\":\"b\"} is converted to NewOuterBuilder().Title(\"b\") — `if input.Name != \"\" && input.Title == \"fixed\"` suppresses Name(\"a\"), the path is marked as generated, and name is lost")
	}
	if ts, err := loadTemplates(ctx, "golang"); err != nil {
		r.Undecided("cannot parse golang templates: %v", err)
	} else if tree := ts.trees["prepare_arg"]; tree == nil {
		r.Undecided("anchor lost: template prepare_arg")
	} else {
		derefs, guarded := 0, 0
		walkTmpl(tree.Root, func(m parse.Node) bool {
			w, ok := m.(*parse.WithNode)
			if !ok || w.Pipe == nil || !strings.Contains(w.Pipe.String(), ".Arg.Builder") {
				return true
			}
			full := tmplTextFull(w.List)
			dereferences := false
			walkTmpl(w.List, func(q parse.Node) bool {
				if in, ok := q.(*parse.IfNode); ok && in.Pipe != nil && strings.Contains(in.Pipe.String(), "Nullable") && strings.Contains(tmplTextFull(in.List), "*") {
					dereferences = true
				}
				return true
			})
			if dereferences {
				derefs++
				if strings.Contains(full, "!= nil") {
					guarded++
				}
			}
			return true
		})
		if derefs == 0 {
			r.Undecided("anchor changed: prepare_arg no longer dereferences a nullable value for a builder")
		}
		n++
		r.Check(derefs > 0 && guarded == derefs, "skeleton/go-converter-nullable-builder-elements", "prepare_arg hands a nullable value to the converter of its builder", token.NoPos, "after a nil test",
			"the Builder and BuilderDisjunction branches of prepare_arg write `InnerConverter(*arg1)` for a nullable value without testing it: `Outer: {list: [...(Inner | null)]}` with {\"list\":[{\"a\":\"x\"},null]} makes OuterConverter panic with a nil pointer dereference")
	}
	r.Count("hunted clauses of the converter rules (8th round)", n)
	r.Floor("hunted clauses of the converter rules (8th round)", 2)
}

// c14NinthRound — seventh hunt of C14: the `!= ""` guard of a string assignment stands for "differs from what a new builder
// holds"; on a path that can hold null a new builder holds nil, and "" is a value to convert. guardForAssignments adds
// the guard for non-nullable strings only (its condition consults the nullability of the assigned type).
func c14NinthRound(ctx *Ctx, r *Report) {
	fn := ctx.LookupMethod("internal/languages", "ConverterGenerator", "guardForAssignments")
	fd, _ := ctx.DeclOf(fn)
	if fd == nil {
		r.Undecided("anchor lost: languages.ConverterGenerator.guardForAssignments")
		return
	}
	seen, consults := false, false
	ast.Inspect(fd.Body, func(m ast.Node) bool {
		is, ok := m.(*ast.IfStmt)
		if !ok || !strings.Contains(exprString(is.Cond), "KindString") {
			return true
		}
		emptyGuard := false
		ast.Inspect(is.Body, func(q ast.Node) bool {
			if kv, ok := q.(*ast.KeyValueExpr); ok && exprString(kv.Key) == "Value" && exprString(kv.Value) == `""` {
				emptyGuard = true
			}
			return true
		})
		if !emptyGuard {
			return true
		}
		seen = true
		if strings.Contains(exprString(is.Cond), "TypeIsNullable(") || strings.Contains(exprString(is.Cond), ".Nullable") {
			consults = true
		}
		return true
	})
	if !seen {
		r.Undecided("anchor changed: guardForAssignments no longer guards strings against \"\"")
	}
	r.Count("hunted clauses of the converter rules (9th round)", 1)
	r.Check(consults, "flow/empty-string-guard-only-for-non-nullables", "languages.guardForAssignments guards string assignments against the empty string", fd.Pos(), "only where the assigned type can not hold null",
		"the `!= \"\"` guard is added on every string path, also a nullable one that already carries a not-nil guard: `Outer: {title: string, note?: string, value: string | int64}` with {\"note\":\"\",\"value\":\"\"} is converted to NewOuterBuilder().Title(\"t\").Value(NewStringOrInt64Builder()) — note and the String branch are lost, although a new builder holds nil there")
}
