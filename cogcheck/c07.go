package main

// C07 — language/input independence; inputs never mutated.
// Engines E2 (ownership), E4 (effects), E6 (who-may-call).

import (
	"fmt"
	"go/ast"
	"go/token"
	"go/types"
	"sort"
	"strings"

	"golang.org/x/tools/go/packages"
)

func init() { register("C07", checkC07) }

func checkC07(ctx *Ctx, r *Report) {
	r.Explanation = "Structural necessary conditions decided from source: (1) compiler.Passes.Process deep-copies its input and runs every pass on the copy; by the interprocedural effects analysis, Pipeline.ContextForLanguage, Passes.Process and Input.LoadSchemas have no store reachable through the schemas they are handed; (2) who-may-call: a Pass's Process method is invoked directly only by Passes.Process and by two reviewed call sites working on fresh / per-language schemas; (3) no cross-run state: no package-level variable of the pipeline is written outside init; language pass chains are fresh literals; every receiver field a pass writes during Process is re-initialised by a plain assignment in Process (or the per-schema method it calls) — final passes are shared by all languages; (4) configuration ownership: a reference-bearing value taken from a pass's or veneer rule's own configuration is deep-copied before it is stored into schemas/builders; (5) Schema.Merge adds exactly under `!Has(name)`, compares under the complement and a detected conflict is never overwritten; errors captured by callbacks are sticky; (6) see C03 for the language loop itself."
	r.NotCovered = "equality of outputs under permutation / addition of inputs (needs evaluation); aliasing through `any` payloads beyond C18's payload rule; state hidden behind interfaces of third-party libraries."
	r.Exhaustive = true
	eng := newEffectsEngine(ctx)

	checkProcessCopiesFirst(ctx, r, "copycheck/use")
	c18IRCopies(ctx, r)
	c07PackageQualifiedLookups(ctx, r)
	c07NameKeyedState(ctx, r, eng)
	c07SortedValueUsed(ctx, r)
	c07NoInputMutation(ctx, r, eng)
	c07WhoMayCall(ctx, r)
	c07NoGlobalState(ctx, r)
	c07PassState(ctx, r, eng)
	c07ConfigOwnership(ctx, r)
	c07Merge(ctx, r)
	c07HuntedRules(ctx, r)
	c07ReferenceByBareName(ctx, r)
	c07SecondHunt(ctx, r)
	c07ThirdHunt(ctx, r)
	c07ObjectSetsKeyedByIdentity(ctx, r)
	c08UnionReuseComparesBranches(ctx, r)    // two inputs of one package: the union of one silently takes the place of the other's
	c09PythonMethodNamesSpareModules(ctx, r) // the names spared by the Python builders do not depend on unrelated inputs
	c05GeneratedNamesUnique(ctx, r)
	c07CallbackState(ctx, r)
	c18Payloads(ctx, r)
	c18NilnessOfCollections(ctx, r)
	stickyErrors(ctx, r, "errflow/sticky", func(p *packages.Package) bool {
		return p.PkgPath == astPkgPath || p.PkgPath == modulePath+"/internal/codegen" || p.PkgPath == compilerPkgPath
	})
}

// (1b) the entry points that receive shared schemas never write through them
func c07NoInputMutation(ctx *Ctx, r *Report, eng *effectsEngine) {
	targets := []struct {
		pkg, typ, method string
		param            string
	}{
		{"internal/ast/compiler", "Passes", "Process", "schemas"},
		{"internal/codegen", "Pipeline", "ContextForLanguage", "schemas"},
	}
	for _, t := range targets {
		fn := ctx.LookupMethod(t.pkg, t.typ, t.method)
		if fn == nil {
			r.Undecided("anchor lost: %s.%s.%s", t.pkg, t.typ, t.method)
			continue
		}
		sig := fn.Type().(*types.Signature)
		idx := -1
		for i := 0; i < sig.Params().Len(); i++ {
			if namedName(sig.Params().At(i).Type()) == "Schemas" || strings.Contains(sig.Params().At(i).Type().String(), "ast.Schema") {
				idx = i
			}
		}
		if idx < 0 {
			r.Undecided("anchor changed: %s has no schemas parameter", ctx.FuncName(fn))
			continue
		}
		var bad []string
		for _, f := range eng.EffectsOf(fn) {
			if f.Root == idx {
				bad = append(bad, f.String())
			}
		}
		sort.Strings(bad)
		if len(bad) > 3 {
			bad = append(bad[:3], fmt.Sprintf("… %d more", len(bad)-3))
		}
		r.Check(len(bad) == 0, "effects/input-untouched", ctx.FuncName(fn), fn.Pos(),
			"no store is reachable through the schemas parameter (the chain runs on a deep copy)",
			"stores reachable through the caller's schemas: "+strings.Join(bad, "; ")+" — a transformation chain modifies the schemas it was handed, so the next language sees transformed input")
	}
}

// (2) who may call Pass.Process directly
var c07ProcessCallers = map[string]string{
	"internal/ast/compiler.Passes.Process":             "the copying entry point: runs passes on the deep copy",
	"internal/codegen.InputBase.filterSchema":          "filters the schema just produced by this input's parser, before it is shared with anything",
	"internal/codegen.KindRegistryInput.filterSchemas": "filters the schemas just loaded for this registry (the local allSchemas of LoadSchemas), before they are shared with anything",
}

func c07WhoMayCall(ctx *Ctx, r *Report) {
	passI := ctx.LookupType("internal/ast/compiler", "Pass")
	if passI == nil {
		r.Undecided("anchor lost: compiler.Pass")
		return
	}
	iface := passI.Underlying().(*types.Interface)
	n := 0
	seen := map[string]bool{}
	ctx.AllFuncDecls(func(p *packages.Package, fd *ast.FuncDecl, obj *types.Func) {
		if fd.Body == nil {
			return
		}
		info := p.TypesInfo
		ast.Inspect(fd.Body, func(node ast.Node) bool {
			call, ok := node.(*ast.CallExpr)
			if !ok {
				return true
			}
			fn := callee(info, call)
			if fn == nil || fn.Name() != "Process" {
				return true
			}
			sig := fn.Type().(*types.Signature)
			if sig.Recv() == nil {
				return true
			}
			rt := sig.Recv().Type()
			isPass := false
			if _, isI := rt.Underlying().(*types.Interface); isI {
				isPass = types.Identical(rt.Underlying(), iface)
			} else if types.Implements(rt, iface) || types.Implements(types.NewPointer(rt), iface) {
				// Passes (the slice type) has the copying Process: not a Pass implementation by itself
				if namedName(rt) == "Passes" {
					return true
				}
				isPass = true
			}
			if !isPass {
				return true
			}
			n++
			name := ctx.FuncName(obj)
			seen[name] = true
			reason, ok := c07ProcessCallers[name]
			r.Check(ok, "cgraph/who-may-call", name+" calls Pass.Process", call.Pos(), "reviewed direct caller: "+reason,
				"a pass is run directly, bypassing Passes.Process (which deep-copies): unless the schemas are private to this caller, they are transformed in place for every later consumer")
			return true
		})
	})
	r.Count("direct Pass.Process call sites", n)
	r.Floor("direct Pass.Process call sites", 2)
	for k := range c07ProcessCallers {
		if !seen[k] {
			r.Note("stale who-may-call entry: %s", k)
		}
	}
}

// (3a) no package-level variable written outside init; pass chains are fresh literals
func c07NoGlobalState(ctx *Ctx, r *Report) {
	writes := 0
	vars := 0
	for _, p := range ctx.Pkgs {
		if strings.HasPrefix(p.PkgPath, modulePath+"/cmd/") {
			continue
		}
		sc := p.Types.Scope()
		for _, n := range sc.Names() {
			if _, ok := sc.Lookup(n).(*types.Var); ok {
				vars++
			}
		}
		info := p.TypesInfo
		for _, f := range p.Syntax {
			for _, d := range f.Decls {
				fd, ok := d.(*ast.FuncDecl)
				if !ok || fd.Body == nil || (fd.Recv == nil && fd.Name.Name == "init") {
					continue
				}
				fobj, _ := info.Defs[fd.Name].(*types.Func)
				ast.Inspect(fd.Body, func(n ast.Node) bool {
					var targets []ast.Expr
					switch x := n.(type) {
					case *ast.AssignStmt:
						if x.Tok != token.DEFINE {
							targets = x.Lhs
						}
					case *ast.IncDecStmt:
						targets = []ast.Expr{x.X}
					}
					for _, t := range targets {
						ap := accessPathOf(info, t)
						if ap.ok && isGlobalVar(ap.root) && ap.root.Pkg() != nil && strings.HasPrefix(ap.root.Pkg().Path(), modulePath) {
							writes++
							r.Bad("effects/no-global-state", ctx.FuncName(fobj)+" writes "+ap.root.Name(), t.Pos(), "package-level variable "+ap.root.Name()+" is written during a run: state survives from one language / run to the next")
						}
					}
					return true
				})
			}
		}
	}
	r.Count("package-level variables in pipeline packages", vars)
	r.OK("effects/no-global-state", "pipeline packages", token.NoPos, fmt.Sprintf("%d package-level variables, none written outside init", vars))

	// Language.CompilerPasses(): elements are fresh literals / constructor calls
	langI := ctx.LookupType("internal/languages", "Language")
	if langI == nil {
		r.Undecided("anchor lost: languages.Language")
		return
	}
	n := 0
	ctx.AllFuncDecls(func(p *packages.Package, fd *ast.FuncDecl, obj *types.Func) {
		if fd.Recv == nil || fd.Body == nil || obj.Name() != "CompilerPasses" {
			return
		}
		info := p.TypesInfo
		n++
		ok := true
		why := ""
		ast.Inspect(fd.Body, func(node ast.Node) bool {
			rs, isRet := node.(*ast.ReturnStmt)
			if !isRet || len(rs.Results) != 1 {
				return true
			}
			lit, isLit := ast.Unparen(rs.Results[0]).(*ast.CompositeLit)
			if !isLit {
				if !isNilIdent(info, rs.Results[0]) {
					ok, why = false, "chain is not returned as a literal: "+exprString(rs.Results[0])
				}
				return true
			}
			for _, el := range lit.Elts {
				e := ast.Unparen(el)
				if u, isU := e.(*ast.UnaryExpr); isU && u.Op == token.AND {
					e = ast.Unparen(u.X)
				}
				switch e.(type) {
				case *ast.CompositeLit, *ast.CallExpr:
				default:
					ok, why = false, "element "+exprString(el)+" is not a fresh literal"
				}
			}
			return true
		})
		r.Check(ok, "effects/fresh-pass-chain", ctx.FuncName(obj), fd.Pos(), "every pass of the chain is a fresh literal", why+": a shared pass instance carries state between languages")
	})
	r.Count("language pass chains", n)
	r.Floor("language pass chains", 5)
}

// (3b) pass receiver state is re-initialised in Process
func c07PassState(ctx *Ctx, r *Report, eng *effectsEngine) {
	pkg := ctx.Pkg("internal/ast/compiler")
	if pkg == nil {
		return
	}
	info := pkg.TypesInfo
	for _, p := range allPasses(ctx, eng) {
		// receiver fields written (append / element store / delete) during Process
		accum := map[*types.Var]WriteFact{}
		for _, f := range p.facts {
			if f.Root != rootRecv || len(f.Path) == 0 {
				continue
			}
			if f.Kind == "store" && !f.Elem && len(f.Path) == 1 {
				continue // plain re-assignment of the field itself
			}
			if _, seen := accum[f.Path[0]]; !seen {
				accum[f.Path[0]] = f
			}
		}
		for fld, fact := range accum {
			r.Count("pass state fields", 1)
			cons := p.named.Obj().Name() + "." + fld.Name()
			// a plain assignment recv.F = <expr not reading recv.F> at the top level of Process
			// or of a method Process calls directly
			reset := false
			for _, fd := range methodsOf(ctx, p.named) {
				var recv types.Object
				if fd.Recv != nil && len(fd.Recv.List) == 1 && len(fd.Recv.List[0].Names) == 1 {
					recv = info.Defs[fd.Recv.List[0].Names[0]]
				}
				for _, st := range fd.Body.List {
					as, ok := st.(*ast.AssignStmt)
					if !ok || as.Tok != token.ASSIGN || len(as.Lhs) != len(as.Rhs) {
						continue
					}
					for i, l := range as.Lhs {
						sel, ok := ast.Unparen(l).(*ast.SelectorExpr)
						if !ok || fieldOf(info, sel) != fld || !isIdentOf(info, sel.X, recv) {
							continue
						}
						self := false
						ast.Inspect(as.Rhs[i], func(n ast.Node) bool {
							if e, ok := n.(ast.Expr); ok && fieldOf(info, e) == fld {
								self = true
							}
							return !self
						})
						if !self {
							reset = true
						}
					}
				}
			}
			// configuration fields are exported; internal state is unexported. A write into
			// an exported (configuration) field is reported by the ownership rule instead.
			if fld.Exported() {
				continue
			}
			r.Check(reset, "effects/pass-state-reset", cons, fact.Pos, "re-initialised by a plain assignment at the start of Process / the per-schema method",
				"the pass accumulates into its own field "+fld.Name()+" ("+fact.String()+") without re-initialising it: final passes are shared by all languages, so state leaks from one language (or schema) to the next")
		}
	}
	r.Floor("pass state fields", 4)
}

// (4) configuration ownership
func c07ConfigOwnership(ctx *Ctx, r *Report) {
	passI := ctx.LookupType("internal/ast/compiler", "Pass")
	var iface *types.Interface
	if passI != nil {
		iface = passI.Underlying().(*types.Interface)
	}
	sites := 0
	check := func(p *packages.Package, fd *ast.FuncDecl, body ast.Node, owner string, noteOnly bool, isConfig func(types.Object, []pathStep) bool) {
		info := p.TypesInfo
		parents := parentMap(fd)
		// config-derived locals: range value vars / locals assigned from config paths
		derived := map[types.Object]bool{}
		isConfigExpr := func(e ast.Expr) bool {
			e = ast.Unparen(e)
			if id, ok := e.(*ast.Ident); ok && derived[objOf(info, id)] {
				return true
			}
			ap := accessPathOf(info, e)
			if !ap.ok {
				return false
			}
			if derived[ap.root] {
				return true
			}
			return isConfig(ap.root, ap.steps)
		}
		for changed := true; changed; {
			changed = false
			ast.Inspect(body, func(n ast.Node) bool {
				switch x := n.(type) {
				case *ast.RangeStmt:
					if id, ok := x.Value.(*ast.Ident); ok && isConfigExpr(x.X) {
						if o := objOf(info, id); o != nil && !derived[o] && typeContainsRef(o.Type()) {
							derived[o] = true
							changed = true
						}
					}
				case *ast.AssignStmt:
					if x.Tok == token.DEFINE && len(x.Lhs) == len(x.Rhs) {
						for i, l := range x.Lhs {
							if id, ok := l.(*ast.Ident); ok {
								if _, isCall := ast.Unparen(x.Rhs[i]).(*ast.CallExpr); isCall {
									continue
								}
								if o := objOf(info, id); o != nil && !derived[o] && typeContainsRef(o.Type()) && isConfigExpr(x.Rhs[i]) {
									derived[o] = true
									changed = true
								}
							}
						}
					}
				}
				return true
			})
		}
		ast.Inspect(body, func(n ast.Node) bool {
			e, ok := n.(ast.Expr)
			if !ok {
				return true
			}
			switch e.(type) {
			case *ast.Ident, *ast.SelectorExpr, *ast.IndexExpr:
			default:
				return true
			}
			// consider only maximal access paths
			if pe, ok := parents[e].(*ast.SelectorExpr); ok && pe.X == e {
				return true
			}
			if pe, ok := parents[e].(*ast.IndexExpr); ok && pe.X == e {
				return true
			}
			t := info.TypeOf(e)
			if t == nil || !typeContainsRef(t) || isEmptyInterface(t) {
				return true
			}
			if _, isFn := t.Underlying().(*types.Signature); isFn {
				return true
			}
			// a slice of reference-free elements ([]string comments) shares only its backing
			// array: no element reachable through the configuration can be rewritten in place
			// unless someone assigns elements by index, which nothing in cog does (see DESIGN §7)
			if sl, isSl := t.Underlying().(*types.Slice); isSl && !typeContainsRef(sl.Elem()) {
				return true
			}
			if !isConfigExpr(e) {
				return true
			}
			// escaping use?
			how := ""
			switch pp := parents[e].(type) {
			case *ast.AssignStmt:
				for i, rhs := range pp.Rhs {
					if rhs == e && pp.Tok != token.DEFINE && i < len(pp.Lhs) {
						// stored somewhere that is not the config itself and not a plain local
						if lid, isID := ast.Unparen(pp.Lhs[i]).(*ast.Ident); isID {
							if o := objOf(info, lid); o != nil && !isGlobalVar(o) {
								continue
							}
						}
						if !isConfigExpr(pp.Lhs[i]) {
							how = "assigned to " + exprString(pp.Lhs[i])
						}
					}
				}
			case *ast.CallExpr:
				isArg := false
				for _, a := range pp.Args {
					if a == e {
						isArg = true
					}
				}
				if !isArg {
					break
				}
				if isBuiltinCall(info, pp, "append") {
					if len(pp.Args) > 0 && pp.Args[0] != e {
						if sl, isSl := t.Underlying().(*types.Slice); isSl && pp.Ellipsis.IsValid() && !typeContainsRef(sl.Elem()) {
							break // elements are copied by value and hold no references
						}
						how = "appended to " + exprString(pp.Args[0])
					}
					break
				}
				if isBuiltinCall(info, pp, "len") || isBuiltinCall(info, pp, "cap") {
					break
				}
				fn := callee(info, pp)
				if fn != nil && fn.Pkg() != nil && fn.Pkg().Path() == astPkgPath {
					switch {
					case strings.HasPrefix(fn.Name(), "New"), fn.Name() == "Comments", fn.Name() == "Hints", fn.Name() == "ConstantAssignment", fn.Name() == "ArgumentAssignment":
						how = "wrapped by " + fn.Name() + " (stores its argument as is)"
					}
				}
			case *ast.KeyValueExpr:
				if pp.Value == e {
					if _, inLit := parents[pp].(*ast.CompositeLit); inLit {
						how = "stored in a literal field " + exprString(pp.Key)
					}
				}
			}
			if how == "" {
				return true
			}
			fobj, _ := info.Defs[fd.Name].(*types.Func)
			cons := owner + " " + exprString(e)
			if noteOnly {
				r.Note("not claimed (no in-place rewrite of builders' properties/factories is reachable today): %s %s at %s", cons, how, ctx.Pos(e.Pos()))
				return true
			}
			sites++
			r.Bad("copycheck/config-ownership", cons, e.Pos(), fmt.Sprintf("%s: configuration value %s (type %s, holds references) is %s without DeepCopy: the IR and the rule's own configuration now share storage, so a later in-place rewrite changes the configuration used for the next language / run", ctx.FuncName(fobj), exprString(e), types.TypeString(t, func(p *types.Package) string { return p.Name() }), how))
			return true
		})
	}

	// compiler passes: config = exported fields of the receiver
	if iface != nil {
		ctx.AllFuncDecls(func(p *packages.Package, fd *ast.FuncDecl, obj *types.Func) {
			if fd.Recv == nil || fd.Body == nil || p.PkgPath != compilerPkgPath {
				return
			}
			sig := obj.Type().(*types.Signature)
			nt := namedOf(sig.Recv().Type())
			if nt == nil || !(types.Implements(nt, iface) || types.Implements(types.NewPointer(nt), iface)) {
				return
			}
			if len(fd.Recv.List) != 1 || len(fd.Recv.List[0].Names) != 1 {
				return
			}
			recv := p.TypesInfo.Defs[fd.Recv.List[0].Names[0]]
			r.Count("pass methods scanned for configuration escapes", 1)
			check(p, fd, fd.Body, nt.Obj().Name(), false, func(root types.Object, steps []pathStep) bool {
				if root != recv {
					return false
				}
				for _, sp := range steps {
					if sp.field != nil {
						return sp.field.Exported()
					}
				}
				return false
			})
		})
	}
	// veneer rules: config = parameters of the rule constructor captured by the returned closure
	for _, rel := range []string{"internal/veneers/builder", "internal/veneers/option"} {
		p := ctx.Pkg(rel)
		if p == nil {
			r.Undecided("package %s not found", rel)
			continue
		}
		info := p.TypesInfo
		for _, file := range p.Syntax {
			for _, d := range file.Decls {
				fd, ok := d.(*ast.FuncDecl)
				if !ok || fd.Body == nil || fd.Recv != nil {
					continue
				}
				params := map[types.Object]bool{}
				for _, fl := range fd.Type.Params.List {
					for _, nm := range fl.Names {
						params[info.Defs[nm]] = true
					}
				}
				ast.Inspect(fd.Body, func(n ast.Node) bool {
					fl, ok := n.(*ast.FuncLit)
					if !ok {
						return true
					}
					r.Count("veneer rule closures scanned for configuration escapes", 1)
					check(p, fd, fl.Body, ctx.RelPkg(p.PkgPath)+"."+fd.Name.Name, true, func(root types.Object, steps []pathStep) bool {
						return params[root]
					})
					return false
				})
			}
		}
	}
	r.Floor("pass methods scanned for configuration escapes", 60)
	r.Floor("veneer rule closures scanned for configuration escapes", 15)
	if sites == 0 {
		r.OK("copycheck/config-ownership", "passes and veneer rules", token.NoPos, "no reference-bearing configuration value escapes into the IR uncopied")
	}
}

// (5) Schema.Merge
func c07Merge(ctx *Ctx, r *Report) {
	fn := ctx.LookupMethod("internal/ast", "Schema", "Merge")
	fd, p := ctx.DeclOf(fn)
	if fd == nil {
		r.Undecided("anchor lost: ast.Schema.Merge")
		return
	}
	info := p.TypesInfo
	parents := parentMap(fd)
	addObject := ctx.LookupMethod("internal/ast", "Schema", "AddObject")
	has := ctx.LookupMethod("internal/orderedmap", "Map", "Has")
	equal := ctx.LookupMethod("internal/ast", "Object", "Equal")
	var addCall, eqCall *ast.CallExpr
	eqParents, eqFd := parents, fd
	scan := func(body ast.Node) {
		ast.Inspect(body, func(n ast.Node) bool {
			if c, ok := n.(*ast.CallExpr); ok {
				switch callee(info, c) {
				case addObject:
					addCall = c
				case equal:
					eqCall = c
				}
			}
			return true
		})
	}
	scan(fd.Body)
	if eqCall == nil {
		// one level into package-local helpers called from Merge
		ast.Inspect(fd.Body, func(n ast.Node) bool {
			if c, ok := n.(*ast.CallExpr); ok {
				if hfd, hp := ctx.DeclOf(callee(info, c)); hfd != nil && hp == p && hfd != fd && eqCall == nil {
					scan(hfd.Body)
					if eqCall != nil {
						eqParents = parentMap(hfd)
						eqFd = hfd
					}
				}
			}
			return true
		})
	}
	// AddObject under !Has(name)
	okAdd := false
	if addCall != nil {
		for _, c := range enclosingConds(parents, addCall) {
			cond := ast.Unparen(c.stmt.Cond)
			neg := false
			if u, ok := cond.(*ast.UnaryExpr); ok && u.Op == token.NOT {
				neg = true
				cond = ast.Unparen(u.X)
			}
			if hc, ok := cond.(*ast.CallExpr); ok && callee(info, hc) == has {
				if neg != c.inElse {
					okAdd = true
				}
			}
		}
	}
	r.Check(okAdd, "merge/add-iff-absent", "ast.Schema.Merge AddObject", fd.Pos(), "an object is added exactly when the name is not yet defined", "Merge adds (overwrites) an object without testing that the name is absent: an earlier definition is silently replaced")
	// Equal is evaluated on the complementary path and its false outcome yields a non-nil error
	okEq := false
	why := "Object.Equal is not evaluated for names defined on both sides"
	if eqCall != nil {
		// either `if !a.Equal(b) { err = Errorf }` or `if a.Equal(b) { return nil }; return Errorf`
		for p2 := eqParents[ast.Node(eqCall)]; p2 != nil; p2 = eqParents[p2] {
			is, ok := p2.(*ast.IfStmt)
			if !ok || !containsNode(is.Cond, eqCall) {
				continue
			}
			neg := false
			if u, ok := ast.Unparen(is.Cond).(*ast.UnaryExpr); ok && u.Op == token.NOT {
				neg = true
			}
			if !neg && len(is.Body.List) == 1 {
				// `if a.Equal(b) { return nil }` followed by a final `return <non-nil error>`
				if rs, ok := is.Body.List[0].(*ast.ReturnStmt); ok && len(rs.Results) == 1 && isNilIdent(info, rs.Results[0]) {
					if last, ok := eqFd.Body.List[len(eqFd.Body.List)-1].(*ast.ReturnStmt); ok && len(last.Results) == 1 && nonNilErrorExpr(info, last.Results[0]) {
						okEq = true
					}
				}
			}
			if neg {
				ast.Inspect(is.Body, func(n ast.Node) bool {
					switch x := n.(type) {
					case *ast.AssignStmt:
						for _, rhs := range x.Rhs {
							if nonNilErrorExpr(info, rhs) {
								okEq = true
							}
						}
					case *ast.ReturnStmt:
						if len(x.Results) > 0 && nonNilErrorExpr(info, x.Results[len(x.Results)-1]) {
							okEq = true
						}
					}
					return true
				})
			}
			why = "the unequal outcome of Object.Equal does not produce an error"
		}
	}
	// the comparison must live in Merge itself or a callback inside it (so that the sticky rule sees the error variable)
	r.Check(okEq, "merge/conflict-is-error", "ast.Schema.Merge Equal", fd.Pos(), "a redefinition that differs produces a non-nil error", why+": conflicting definitions merge silently")
}

func nonNilErrorExpr(info *types.Info, e ast.Expr) bool {
	c, ok := ast.Unparen(e).(*ast.CallExpr)
	if !ok {
		return false
	}
	fn := callee(info, c)
	return fn != nil && fn.Pkg() != nil && (fn.Pkg().Path() == "fmt" && fn.Name() == "Errorf" || fn.Pkg().Path() == "errors" && (fn.Name() == "New" || fn.Name() == "Join"))
}

// stickyErrors: an error variable captured by a callback (func literal) must
// never be overwritten by a possibly-nil value once set. Accepted: assignment of
// a provably non-nil error; assignment of `x` inside `if x != nil`; a callback
// that starts by returning when the variable is already non-nil.
func stickyErrors(ctx *Ctx, r *Report, rule string, want func(*packages.Package) bool) {
	errT := types.Universe.Lookup("error").Type()
	n := 0
	for _, p := range ctx.Pkgs {
		if !want(p) {
			continue
		}
		info := p.TypesInfo
		for _, file := range p.Syntax {
			for _, d := range file.Decls {
				fd, ok := d.(*ast.FuncDecl)
				if !ok || fd.Body == nil {
					continue
				}
				fobj, _ := info.Defs[fd.Name].(*types.Func)
				parents := parentMap(fd)
				ast.Inspect(fd.Body, func(node ast.Node) bool {
					fl, ok := node.(*ast.FuncLit)
					if !ok {
						return true
					}
					// is this literal an argument of a call (iterator callback)?
					if _, isArg := parents[fl].(*ast.CallExpr); !isArg {
						return true
					}
					ast.Inspect(fl.Body, func(m ast.Node) bool {
						if inner, isLit := m.(*ast.FuncLit); isLit && inner != fl {
							return false
						}
						as, ok := m.(*ast.AssignStmt)
						if !ok || as.Tok == token.DEFINE {
							return true
						}
						for i, l := range as.Lhs {
							id, ok := ast.Unparen(l).(*ast.Ident)
							if !ok {
								continue
							}
							v, ok := objOf(info, id).(*types.Var)
							if !ok || !types.Identical(v.Type(), errT) {
								continue
							}
							if v.Pos() >= fl.Pos() && v.Pos() <= fl.End() {
								continue // local to the callback
							}
							n++
							okS := false
							var rhs ast.Expr
							if len(as.Rhs) == len(as.Lhs) {
								rhs = as.Rhs[i]
							}
							if rhs != nil && nonNilErrorExpr(info, rhs) {
								okS = true
							}
							// inside `if x != nil` where rhs is x
							if rhs != nil {
								for _, c := range enclosingConds(parents, as) {
									if be, ok := ast.Unparen(c.stmt.Cond).(*ast.BinaryExpr); ok && !c.inElse && be.Op == token.NEQ && isNilIdent(info, be.Y) && sameAccessPath(info, be.X, rhs) {
										okS = true
									}
								}
							}
							// callback (or an enclosing block) begins by leaving when the variable is set
							ast.Inspect(fl.Body, func(k ast.Node) bool {
								is, ok := k.(*ast.IfStmt)
								if !ok || is.Pos() > as.Pos() {
									return true
								}
								if be, ok := ast.Unparen(is.Cond).(*ast.BinaryExpr); ok && be.Op == token.NEQ && isIdentOf(info, be.X, v) && isNilIdent(info, be.Y) && len(is.Body.List) > 0 {
									if _, isRet := is.Body.List[len(is.Body.List)-1].(*ast.ReturnStmt); isRet {
										okS = true
									}
								}
								return true
							})
							cons := fmt.Sprintf("%s callback assigns %s", ctx.FuncName(fobj), v.Name())
							r.Check(okS, rule, cons, as.Pos(), "the captured error can only go from nil to non-nil",
								"the callback overwrites the captured error "+v.Name()+" with a value that may be nil: an error detected for one element is forgotten when a later element succeeds, and the operation reports success")
						}
						return true
					})
					return true
				})
			}
		}
	}
	r.Count("captured-error assignments in callbacks", n)
}

// callbackState: variables captured by the callbacks of a Visitor /
// BuilderVisitor literal that are both written and read by callbacks carry data
// from one visited item to the next.
type capturedState struct {
	fn      *types.Func
	v       *types.Var
	lit     *ast.CompositeLit
	written map[string]bool // callback keys that write it
	read    map[string]bool
	resetIn map[string]bool // callback keys that re-assign it at top level
	pos     token.Pos
}

func findCallbackState(ctx *Ctx) []capturedState {
	var out []capturedState
	visitorT := ctx.LookupType("internal/ast/compiler", "Visitor")
	bvisitorT := ctx.LookupType("internal/ast", "BuilderVisitor")
	ctx.AllFuncDecls(func(p *packages.Package, fd *ast.FuncDecl, obj *types.Func) {
		if fd.Body == nil {
			return
		}
		info := p.TypesInfo
		ast.Inspect(fd.Body, func(n ast.Node) bool {
			lit, ok := n.(*ast.CompositeLit)
			if !ok {
				return true
			}
			nt := namedOf(info.TypeOf(lit))
			if nt == nil || (nt != visitorT && nt != bvisitorT) {
				return true
			}
			states := map[*types.Var]*capturedState{}
			for _, el := range lit.Elts {
				kv, ok := el.(*ast.KeyValueExpr)
				if !ok {
					continue
				}
				key := exprString(kv.Key)
				fl, ok := ast.Unparen(kv.Value).(*ast.FuncLit)
				if !ok {
					continue
				}
				get := func(v *types.Var) *capturedState {
					s := states[v]
					if s == nil {
						s = &capturedState{fn: obj, v: v, lit: lit, written: map[string]bool{}, read: map[string]bool{}, resetIn: map[string]bool{}, pos: v.Pos()}
						states[v] = s
					}
					return s
				}
				captured := func(id *ast.Ident) *types.Var {
					v, ok := objOf(info, id).(*types.Var)
					if !ok || v.IsField() || isGlobalVar(v) {
						return nil
					}
					if v.Pos() >= lit.Pos() && v.Pos() <= lit.End() {
						return nil
					}
					if v.Pos() < fd.Pos() || v.Pos() > fd.End() {
						return nil
					}
					return v
				}
				lhsIdents := map[*ast.Ident]bool{}
				ast.Inspect(fl.Body, func(m ast.Node) bool {
					switch x := m.(type) {
					case *ast.AssignStmt:
						for _, l := range x.Lhs {
							root := rootIdent(l)
							if root == nil {
								continue
							}
							if v := captured(root); v != nil {
								get(v).written[key] = true
								if id, isID := ast.Unparen(l).(*ast.Ident); isID && id == root && x.Tok == token.ASSIGN {
									// top-level re-assignment?
									for _, st := range fl.Body.List {
										if st == ast.Stmt(x) {
											get(v).resetIn[key] = true
										}
									}
									lhsIdents[root] = true
								}
								// a plain store into a map or slice element (m[k] = v) writes the
								// variable and does not read it, like the Set-style methods below
								if ix, isIndex := ast.Unparen(l).(*ast.IndexExpr); isIndex && x.Tok == token.ASSIGN {
									if id, isID := ast.Unparen(ix.X).(*ast.Ident); isID && id == root {
										lhsIdents[root] = true
									}
								}
							}
						}
					case *ast.CallExpr:
						// method call on the captured variable that writes it (Set/append-like) is a write
						if sel, ok := x.Fun.(*ast.SelectorExpr); ok {
							if root := rootIdent(sel.X); root != nil {
								if v := captured(root); v != nil {
									if fn := callee(info, x); fn != nil {
										for _, pre := range externalWriterPrefixes {
											if strings.HasPrefix(fn.Name(), pre) {
												get(v).written[key] = true
												lhsIdents[root] = true
											}
										}
									}
								}
							}
						}
					}
					return true
				})
				ast.Inspect(fl.Body, func(m ast.Node) bool {
					id, ok := m.(*ast.Ident)
					if !ok || lhsIdents[id] {
						return true
					}
					if v := captured(id); v != nil {
						get(v).read[key] = true
					}
					return true
				})
			}
			for _, s := range states {
				out = append(out, *s)
			}
			return true
		})
	})
	sort.Slice(out, func(i, j int) bool { return out[i].pos < out[j].pos })
	return out
}

// callback nesting: the callbacks inside which the items of a callback occur
var callbackParents = map[string][]string{
	// ast.BuilderVisitor
	"OnAssignment":  {"OnConstructor", "OnOption"},
	"OnArgument":    {"OnConstructor", "OnOption"},
	"OnConstructor": {"OnBuilder"},
	"OnOption":      {"OnBuilder"},
	"OnProperty":    {"OnBuilder"},
	// compiler.Visitor
	"OnObject":       {"OnSchema"},
	"OnStructField":  {"OnObject"},
	"OnArray":        {"OnObject"},
	"OnMap":          {"OnObject"},
	"OnStruct":       {"OnObject"},
	"OnDisjunction":  {"OnObject"},
	"OnIntersection": {"OnObject"},
	"OnEnum":         {"OnObject"},
	"OnScalar":       {"OnObject"},
	"OnRef":          {"OnObject"},
	"OnConstantRef":  {"OnObject"},
}

// c07CallbackState: state captured by visitor callbacks that is both written
// and read by them must be re-initialised at every enclosing scope-entry
// callback; otherwise what is computed for one item depends on the items
// visited before it (and hence on their order and on unrelated inputs).
func c07CallbackState(ctx *Ctx, r *Report) {
	states := findCallbackState(ctx)
	n := 0
	for _, s := range states {
		if len(s.written) == 0 || len(s.read) == 0 {
			continue
		}
		n++
		cons := ctx.FuncName(s.fn) + " captured " + s.v.Name()
		var missing []string
		for k := range s.read {
			if !s.written[k] {
				continue
			}
			for _, parent := range callbackParents[k] {
				if !s.resetIn[parent] {
					missing = append(missing, parent)
				}
			}
		}
		sort.Strings(missing)
		r.Check(len(missing) == 0, "effects/callback-state", cons, s.v.Pos(), "re-initialised at every scope entry ("+strings.Join(keysOf(s.resetIn), ", ")+")",
			fmt.Sprintf("variable %s is read and updated while visiting items but is not re-initialised in %s: results for one builder/object depend on what was visited before it", s.v.Name(), strings.Join(missing, ", ")))
	}
	r.Count("visitor-callback state variables", n)
	r.Count("visitor literals with captured variables", len(states))
	r.Floor("visitor literals with captured variables", 3)
}

func keysOf(m map[string]bool) []string {
	var out []string
	for k := range m {
		out = append(out, k)
	}
	sort.Strings(out)
	return out
}

// c07PackageQualifiedLookups: objects are identified by (package, name). Every way a (pkg, name) lookup has of answering
// "found" must depend on the package it was asked for: a fallback that answers from the name alone makes the result
// depend on which other packages happen to be loaded (and on their order) — adding an unrelated input changes the files
// generated for the others.
func c07PackageQualifiedLookups(ctx *Ctx, r *Report) {
	n := 0
	ctx.AllFuncDecls(func(p *packages.Package, fd *ast.FuncDecl, obj *types.Func) {
		if fd.Body == nil {
			return
		}
		rel := ctx.RelPkg(p.PkgPath)
		if rel != "internal/ast" && rel != "internal/languages" {
			return
		}
		if !(strings.HasPrefix(fd.Name.Name, "Locate") || strings.HasPrefix(fd.Name.Name, "Resolve")) {
			return
		}
		info := p.TypesInfo
		var pkgParam types.Object
		for _, f := range fd.Type.Params.List {
			for _, nm := range f.Names {
				if nm.Name == "pkg" {
					pkgParam = info.Defs[nm]
				}
			}
		}
		if pkgParam == nil {
			return
		}
		n++
		parents := parentMap(fd)
		// variables obtained from a call that was given pkg, or from ranging with a test on pkg
		tainted := map[types.Object]bool{pkgParam: true}
		ast.Inspect(fd.Body, func(m ast.Node) bool {
			if as, ok := m.(*ast.AssignStmt); ok && len(as.Rhs) == 1 {
				uses := false
				ast.Inspect(as.Rhs[0], func(q ast.Node) bool {
					if id, ok := q.(*ast.Ident); ok && tainted[objOf(info, id)] {
						uses = true
					}
					return true
				})
				if uses {
					for _, l := range as.Lhs {
						if id, ok := l.(*ast.Ident); ok {
							tainted[objOf(info, id)] = true
						}
					}
				}
			}
			return true
		})
		mentions := func(e ast.Node) bool {
			found := false
			ast.Inspect(e, func(q ast.Node) bool {
				if id, ok := q.(*ast.Ident); ok && tainted[objOf(info, id)] {
					found = true
				}
				return true
			})
			return found
		}
		k := 0
		ast.Inspect(fd.Body, func(m ast.Node) bool {
			rs, ok := m.(*ast.ReturnStmt)
			if !ok || len(rs.Results) == 0 {
				return true
			}
			// "not found" answers: last result false, or a single zero-value / nil / empty result
			last := rs.Results[len(rs.Results)-1]
			if tv, ok := info.Types[last]; ok && tv.Value != nil && tv.Value.String() == "false" {
				return true
			}
			k++
			qualified := false
			for _, e := range rs.Results {
				if mentions(e) {
					qualified = true
				}
			}
			for _, ctl := range controllingIfs(parents, fd, rs) {
				if mentions(ctl.Cond) || (ctl.Init != nil && mentions(ctl.Init)) {
					qualified = true
				}
			}
			r.Check(qualified, "lookup/package-qualified", fmt.Sprintf("%s answer #%d", ctx.FuncName(obj), k), rs.Pos(), "the answer depends on the package asked for",
				fmt.Sprintf("%s can answer %s without having compared anything with the package it was asked for: an object of the same name in any other loaded package is returned — which one depends on the inputs present and on their order", ctx.FuncName(obj), exprString(rs.Results[0])))
			return true
		})
	})
	r.Count("(package, name) lookups", n)
	r.Floor("(package, name) lookups", 4)
}

// c07SortedValueUsed: a sort whose result is not read afterwards is dead code: the order it was meant to impose (on files,
// index entries, …) is not imposed, and what is emitted follows the order of the inputs instead.
func c07SortedValueUsed(ctx *Ctx, r *Report) {
	n := 0
	ctx.AllFuncDecls(func(p *packages.Package, fd *ast.FuncDecl, obj *types.Func) {
		if fd.Body == nil {
			return
		}
		info := p.TypesInfo
		k := 0
		ast.Inspect(fd.Body, func(m ast.Node) bool {
			c, ok := m.(*ast.CallExpr)
			if !ok || len(c.Args) == 0 {
				return true
			}
			fn := callee(info, c)
			if fn == nil || fn.Pkg() == nil {
				return true
			}
			switch fn.Pkg().Path() + "." + fn.Name() {
			case "sort.Strings", "sort.Ints", "sort.Slice", "sort.SliceStable", "sort.Sort", "sort.Stable", "slices.Sort", "slices.SortFunc", "slices.SortStableFunc":
			default:
				return true
			}
			id, ok := ast.Unparen(c.Args[0]).(*ast.Ident)
			if !ok {
				return true // a field or an element: owned elsewhere
			}
			v, ok := objOf(info, id).(*types.Var)
			if !ok || v.IsField() || v.Pos() < fd.Body.Pos() {
				return true // parameters are the caller's
			}
			n++
			k++
			used := false
			ast.Inspect(fd.Body, func(q ast.Node) bool {
				if u, ok := q.(*ast.Ident); ok && u.Pos() > c.End() && objOf(info, u) == v {
					used = true
				}
				return true
			})
			// sorting inside a loop body: a use earlier in the body on the next iteration does not count; closures returning later do
			r.Check(used, "maporder/sorted-value-used", fmt.Sprintf("%s sorts %s #%d", ctx.FuncName(obj), id.Name, k), c.Pos(), "the sorted value is read afterwards",
				fmt.Sprintf("%s sorts the local %s and never reads it again: the order is imposed on a value nobody uses, and what is emitted afterwards follows the order of the inputs", ctx.FuncName(obj), id.Name))
			return true
		})
	})
	r.Count("sorts of local values", n)
	r.Floor("sorts of local values", 10)
}

// c07NameKeyedState: a pass that remembers objects in a map of its own under their *name* only (no package) may only use
// that memory within one schema: the map has to be emptied (clear / re-made) in a method that runs once per schema, or be
// keyed by package and name. Otherwise what the pass learnt in one package is applied to the objects of the same name of
// every package visited after it — adding an unrelated input changes the output for the others.
func c07NameKeyedState(ctx *Ctx, r *Report, eng *effectsEngine) {
	pkg := ctx.Pkg("internal/ast/compiler")
	if pkg == nil {
		return
	}
	info := pkg.TypesInfo
	schemaT := ctx.LookupType("internal/ast", "Schema")
	n := 0
	for _, p := range allPasses(ctx, eng) {
		st, ok := p.named.Underlying().(*types.Struct)
		if !ok {
			continue
		}
		for i := 0; i < st.NumFields(); i++ {
			fld := st.Field(i)
			mt, ok := fld.Type().Underlying().(*types.Map)
			if !ok || fld.Exported() {
				continue
			}
			if b, ok := mt.Key().Underlying().(*types.Basic); !ok || b.Kind() != types.String {
				continue
			}
			// keys used to store into the map
			nameOnly := ""
			perSchemaReset := false
			for _, fd := range methodsOf(ctx, p.named) {
				takesSchema := false
				for _, prm := range fd.Type.Params.List {
					if pt, ok := info.TypeOf(prm.Type).(*types.Pointer); ok && namedOf(pt.Elem()) == schemaT {
						takesSchema = true
					}
				}
				ast.Inspect(fd.Body, func(m ast.Node) bool {
					switch x := m.(type) {
					case *ast.AssignStmt:
						for li, l := range x.Lhs {
							if ix, ok := ast.Unparen(l).(*ast.IndexExpr); ok && fieldOf(info, ix.X) == fld {
								usesPkg, usesName := false, false
								ast.Inspect(ix.Index, func(q ast.Node) bool {
									switch y := q.(type) {
									case *ast.SelectorExpr:
										switch y.Sel.Name {
										case "ReferredPkg", "Package":
											usesPkg = true
										case "Name", "ReferredType":
											usesName = true
										}
									case *ast.CallExpr:
										if fn := callee(info, y); fn != nil && fn.Name() == "String" {
											usesPkg = true // RefType.String() / ObjectReference.String(): "pkg.Name"
										}
									}
									return true
								})
								if usesName && !usesPkg && nameOnly == "" {
									nameOnly = exprString(ix.Index)
								}
							}
							// r.F = make(...) in a per-schema method
							if sel, ok := ast.Unparen(l).(*ast.SelectorExpr); ok && fieldOf(info, sel) == fld && takesSchema && li < len(x.Rhs) {
								perSchemaReset = true
							}
						}
					case *ast.CallExpr:
						if id, ok := x.Fun.(*ast.Ident); ok && id.Name == "clear" && len(x.Args) == 1 && fieldOf(info, x.Args[0]) == fld && takesSchema {
							perSchemaReset = true
						}
					}
					return true
				})
			}
			if nameOnly == "" {
				continue
			}
			n++
			r.Check(perSchemaReset, "effects/name-keyed-state-per-schema", p.named.Obj().Name()+"."+fld.Name(), fld.Pos(), "keyed by object name and emptied for every schema",
				fmt.Sprintf("%s.%s remembers objects under %s (a name without its package) for the whole Process call: what is recorded while visiting one package is applied to the objects of the same name in every package visited afterwards", p.named.Obj().Name(), fld.Name(), nameOnly))
		}
	}
	r.Count("name-keyed maps kept by passes", n)
	r.Floor("name-keyed maps kept by passes", 1)
}

// c07HuntedRules: three clauses found by a bug hunt on C07.
//
//	merge/entry-point-conflict    Schema.Merge: two non-empty entry points that differ are a conflict, like two different
//	                              definitions of an object: some path under the comparison of the entry points returns an
//	                              error.
//	siblings/package-key-exact    a jenny that groups what it generates by package keys the group by the package name
//	                              itself: a case-folded key (strings.ToLower(x.Package)) merges packages that the type
//	                              jenny of the same language keeps apart.
//	siblings/collector-key        the maps of the API-reference collector are not keyed by a string joined from two names
//	                              (fmt.Sprintf("%s_%s", pkg, name)): `a_b`+`c` and `a`+`b_c` collide.
func c07HuntedRules(ctx *Ctx, r *Report) {
	// --- Merge
	fn := ctx.LookupMethod("internal/ast", "Schema", "Merge")
	fd, p := ctx.DeclOf(fn)
	if fd == nil || fd.Body == nil {
		r.Undecided("anchor lost: ast.Schema.Merge")
	} else {
		info := p.TypesInfo
		errT := types.Universe.Lookup("error").Type()
		compared, conflict := 0, false
		ast.Inspect(fd.Body, func(n ast.Node) bool {
			is, ok := n.(*ast.IfStmt)
			if !ok {
				return true
			}
			be, ok := ast.Unparen(is.Cond).(*ast.BinaryExpr)
			if !ok || be.Op != token.NEQ {
				return true
			}
			fx, fy := fieldOf(info, be.X), fieldOf(info, be.Y)
			if fx == nil || fx != fy || fx.Name() != "EntryPoint" {
				return true
			}
			compared++
			ast.Inspect(is.Body, func(m ast.Node) bool {
				if inner, ok := m.(*ast.IfStmt); ok && blockReturnsError(info, inner.Body, errT) {
					conflict = true
				}
				return true
			})
			if blockReturnsError(info, is.Body, errT) {
				conflict = true
			}
			return true
		})
		r.Count("comparisons of entry points in Schema.Merge", compared)
		r.Floor("comparisons of entry points in Schema.Merge", 1)
		r.Check(conflict, "merge/entry-point-conflict", "ast.Schema.Merge entry points", fd.Pos(), "differing entry points can end in an error",
			"Merge compares the entry points of the two schemas but no path under that comparison returns an error: when both inputs of a package declare an entry point and they differ, the second one is silently dropped and the result depends on the order of the inputs")
	}
	// --- package keys
	keys := 0
	for _, pk := range ctx.Pkgs {
		if !strings.HasPrefix(ctx.RelPkg(pk.PkgPath), "internal/jennies/") {
			continue
		}
		info := pk.TypesInfo
		for _, f := range pk.Syntax {
			for _, d := range f.Decls {
				fdecl, ok := d.(*ast.FuncDecl)
				if !ok || fdecl.Body == nil {
					continue
				}
				fobj, _ := info.Defs[fdecl.Name].(*types.Func)
				seen := map[string]bool{}
				ast.Inspect(fdecl.Body, func(n ast.Node) bool {
					ix, ok := n.(*ast.IndexExpr)
					if !ok {
						return true
					}
					if _, isMap := info.TypeOf(ix.X).Underlying().(*types.Map); !isMap {
						return true
					}
					c, ok := ast.Unparen(ix.Index).(*ast.CallExpr)
					if !ok || len(c.Args) != 1 {
						// keys naming a package directly
						if f := fieldOf(info, ix.Index); f != nil && f.Name() == "Package" {
							keys++
						}
						return true
					}
					fn := callee(info, c)
					if fn == nil || fn.Pkg() == nil || fn.Pkg().Path() != "strings" || (fn.Name() != "ToLower" && fn.Name() != "ToUpper") {
						return true
					}
					if f := fieldOf(info, c.Args[0]); f == nil || f.Name() != "Package" {
						return true
					}
					keys++
					cons := ctx.FuncName(fobj) + " groups by " + exprString(ix.Index)
					if seen[cons] {
						return true
					}
					seen[cons] = true
					r.Bad("siblings/package-key-exact", cons, ix.Pos(), "the map is keyed by a case-folded package name: two packages whose names differ only by case fall into one group — one generated file holds the output of both (same-named classes shadow each other) while the type jenny of the language keeps the packages apart; adding the second package changes the file of the first")
					return true
				})
			}
		}
	}
	r.Count("maps keyed by a package name in the jennies", keys)
	r.Floor("maps keyed by a package name in the jennies", 3)
	if keys > 0 {
		r.OK("siblings/package-key-exact", "jennies group by exact package names", token.NoPos, fmt.Sprintf("%d map accesses keyed by a package name were scanned for case folding", keys))
	}
	// --- collector keys
	cp := ctx.Pkg("internal/jennies/common")
	if cp == nil {
		r.Undecided("anchor lost: internal/jennies/common")
		return
	}
	cinfo := cp.TypesInfo
	joined := 0
	for _, f := range cp.Syntax {
		for _, d := range f.Decls {
			fdecl, ok := d.(*ast.FuncDecl)
			if !ok || fdecl.Body == nil || fdecl.Recv == nil {
				continue
			}
			if n := namedOf(cinfo.TypeOf(fdecl.Recv.List[0].Type)); n == nil || n.Obj().Name() != "APIReferenceCollector" {
				continue
			}
			fobj, _ := cinfo.Defs[fdecl.Name].(*types.Func)
			// locals defined by Sprintf with two or more %s
			ambiguous := map[types.Object]string{}
			ast.Inspect(fdecl.Body, func(n ast.Node) bool {
				as, ok := n.(*ast.AssignStmt)
				if !ok || len(as.Lhs) != 1 || len(as.Rhs) != 1 {
					return true
				}
				c, ok := ast.Unparen(as.Rhs[0]).(*ast.CallExpr)
				if !ok || len(c.Args) < 3 {
					return true
				}
				if fn := callee(cinfo, c); fn == nil || fn.Name() != "Sprintf" {
					return true
				}
				if lit, ok := c.Args[0].(*ast.BasicLit); ok && strings.Count(lit.Value, "%s") >= 2 {
					if id, ok := as.Lhs[0].(*ast.Ident); ok {
						ambiguous[objOf(cinfo, id)] = lit.Value
					}
				}
				return true
			})
			ast.Inspect(fdecl.Body, func(n ast.Node) bool {
				ix, ok := n.(*ast.IndexExpr)
				if !ok {
					return true
				}
				if _, isMap := cinfo.TypeOf(ix.X).Underlying().(*types.Map); !isMap {
					return true
				}
				joined++
				if id, ok := ast.Unparen(ix.Index).(*ast.Ident); ok {
					if format, bad := ambiguous[objOf(cinfo, id)]; bad {
						r.Bad("siblings/collector-key", ctx.FuncName(fobj)+" keys "+exprString(ix.X)+" by a joined string", ix.Pos(), "the key is fmt.Sprintf("+format+", …) of two names: different pairs give the same string (`a_b`+`c`, `a`+`b_c`), so the methods of a builder of one package are listed on the page of a builder of another — adding an unrelated input changes the files of the first")
					}
				}
				return true
			})
		}
	}
	r.Count("map accesses in the API-reference collector", joined)
	r.Floor("map accesses in the API-reference collector", 6)
	r.OK("siblings/collector-key", "API-reference collector keys", token.NoPos, fmt.Sprintf("%d map accesses scanned for keys joined from two names", joined))
}

// c07ReferenceByBareName: a reference names an object of a package. The methods of a single *ast.Schema —
// Resolve(type) and LocateObject(name) — look a bare name up in that one schema: used on a reference without a test
// that the reference stays in the schema's package they miss the objects of other packages (a union of references
// to another package lost its discriminator and became `any`) and find the wrong object when a local one has the
// same name. Every such call outside internal/ast whose argument is (derived from) a reference is dominated by a
// comparison of the reference's package with the schema's, or the call goes through ast.Schemas.
func c07ReferenceByBareName(ctx *Ctx, r *Report) {
	resolve := ctx.LookupMethod("internal/ast", "Schema", "Resolve")
	locate := ctx.LookupMethod("internal/ast", "Schema", "LocateObject")
	if resolve == nil || locate == nil {
		r.Undecided("anchor lost: ast.Schema.Resolve / LocateObject")
		return
	}
	n := 0
	ctx.AllFuncDecls(func(p *packages.Package, fd *ast.FuncDecl, obj *types.Func) {
		if fd.Body == nil || ctx.RelPkg(p.PkgPath) == "internal/ast" {
			return
		}
		info := p.TypesInfo
		parents := parentMap(fd)
		seen := map[string]int{}
		ast.Inspect(fd.Body, func(m ast.Node) bool {
			c, ok := m.(*ast.CallExpr)
			if !ok || len(c.Args) != 1 {
				return true
			}
			fn := callee(info, c)
			if fn != resolve && fn != locate {
				return true
			}
			arg := ast.Unparen(c.Args[0])
			fromRef := fn == resolve
			if fn == locate {
				// the name comes out of a reference: x.ReferredType, or a local defined from one
				txt := exprString(arg)
				if strings.HasSuffix(txt, ".ReferredType") {
					fromRef = true
				}
				if id, ok := arg.(*ast.Ident); ok {
					ast.Inspect(fd.Body, func(k ast.Node) bool {
						if as, ok := k.(*ast.AssignStmt); ok && len(as.Lhs) == 1 && len(as.Rhs) == 1 {
							if l, ok := as.Lhs[0].(*ast.Ident); ok && objOf(info, l) == objOf(info, id) && strings.HasSuffix(exprString(as.Rhs[0]), ".ReferredType") {
								fromRef = true
							}
						}
						return true
					})
				}
			}
			if !fromRef {
				return true
			}
			// `_, taken := schema.LocateObject(name)`: the object is not used, the call only asks whether the name is taken
			if as, ok := parents[c].(*ast.AssignStmt); ok && len(as.Lhs) == 2 {
				if id, ok := as.Lhs[0].(*ast.Ident); ok && id.Name == "_" {
					return true
				}
			}
			n++
			key := ctx.FuncName(obj) + " looks " + exprString(arg) + " up in one schema"
			seen[key]++
			cons := key
			if seen[key] > 1 {
				cons = fmt.Sprintf("%s #%d", key, seen[key])
			}
			tested := false
			for _, ctl := range controllingIfs(parents, fd, c) {
				txt := exprString(ctl.Cond)
				if strings.Contains(txt, "ReferredPkg") && strings.Contains(txt, "Package") {
					tested = true
				}
			}
			r.Check(tested, "lookups/reference-by-bare-name", cons, c.Pos(), "under a comparison of the reference's package with the schema's",
				exprString(c)+" looks the name of a reference up in a single schema without testing that the reference designates that schema's package: an object of another package is not found (the union / alias is handled as if the reference dangled), and a same-named local object is taken for it")
			return true
		})
	})
	r.Count("single-schema lookups of references", n)
}

// c07SecondHunt — (a) FlattenDisjunctions resolves branches inside the very schemas the visitor is rewriting: what it
// finds there is flattened or not depending on the order of inputs and objects. The result is independent of that
// order only if the unfolding is transitive: the branches of a resolved disjunction go back through the function that
// unfolds (a recursive closure), never straight into the result. (b) compose builds one builder per composable
// *package*: the key of the groups derives from the builder's package, not from the schema identifier, which two
// packages can share. (c) a jenny receives languages.Context by value and shares the slices it holds with every other
// jenny: sorting one of them in place changes what the jennies that run later see.
func c07SecondHunt(ctx *Ctx, r *Report) {
	// (a)
	if fn := ctx.LookupMethod("internal/ast/compiler", "FlattenDisjunctions", "flattenDisjunction"); fn == nil {
		r.Undecided("anchor lost: FlattenDisjunctions.flattenDisjunction")
	} else {
		fd, p := ctx.DeclOf(fn)
		info := p.TypesInfo
		recursive := false
		ast.Inspect(fd.Body, func(m ast.Node) bool {
			as, ok := m.(*ast.AssignStmt)
			if !ok || len(as.Lhs) != 1 || len(as.Rhs) != 1 {
				return true
			}
			lit, ok := as.Rhs[0].(*ast.FuncLit)
			if !ok {
				return true
			}
			id, ok := as.Lhs[0].(*ast.Ident)
			if !ok {
				return true
			}
			self := objOf(info, id)
			// the call that hands the branches of the *resolved* disjunction back comes after the resolution (a union
			// written in place is unfolded by an earlier call, which says nothing of the referred ones)
			var resolvedAt token.Pos
			ast.Inspect(lit.Body, func(q ast.Node) bool {
				if c, ok := q.(*ast.CallExpr); ok {
					if f := callee(info, c); f != nil && strings.HasPrefix(f.Name(), "Resolve") && !resolvedAt.IsValid() {
						resolvedAt = c.Pos()
					}
				}
				return true
			})
			calls := false
			ast.Inspect(lit.Body, func(q ast.Node) bool {
				if c, ok := q.(*ast.CallExpr); ok {
					if cid, ok := c.Fun.(*ast.Ident); ok && objOf(info, cid) == self && resolvedAt.IsValid() && c.Pos() > resolvedAt {
						calls = true
					}
				}
				return true
			})
			if calls {
				recursive = true
			}
			return true
		})
		// or the method calls itself
		ast.Inspect(fd.Body, func(m ast.Node) bool {
			if c, ok := m.(*ast.CallExpr); ok && callee(info, c) == fn {
				recursive = true
			}
			return true
		})
		r.Count("hunted clauses of the order-independence rules (2nd hunt)", 1)
		r.Check(recursive, "order/flatten-transitive", "FlattenDisjunctions unfolds referred disjunctions transitively", fd.Pos(), "the branches of a resolved disjunction go back through the unfolding function",
			"flattenDisjunction inlines one level of a referred disjunction, resolved in the schemas the visitor is rewriting: an object visited before the disjunction it refers to sees it unflattened, one visited after sees it flattened — swapping two inputs of different packages changes the generated types (Union[str, int, bool, float] / Union[common.Leaf, bool, float])")
	}
	// (b)
	forEachVeneerClosure(ctx, func(p *packages.Package, fd *ast.FuncDecl, fobj *types.Func, lit *ast.FuncLit) {
		if fd.Name.Name != "ComposeBuilders" {
			return
		}
		info := p.TypesInfo
		defs := map[types.Object]ast.Expr{}
		ast.Inspect(lit.Body, func(q ast.Node) bool {
			if as, ok := q.(*ast.AssignStmt); ok && as.Tok == token.DEFINE && len(as.Lhs) == len(as.Rhs) {
				for i, l := range as.Lhs {
					if id, ok := l.(*ast.Ident); ok {
						defs[info.Defs[id]] = as.Rhs[i]
					}
				}
			}
			return true
		})
		n := 0
		ast.Inspect(lit.Body, func(m ast.Node) bool {
			as, ok := m.(*ast.AssignStmt)
			if !ok || len(as.Lhs) != 1 || len(as.Rhs) != 1 {
				return true
			}
			ix, ok := ast.Unparen(as.Lhs[0]).(*ast.IndexExpr)
			if !ok {
				return true
			}
			mt, isMap := info.TypeOf(ix.X).Underlying().(*types.Map)
			if !isMap {
				return true
			}
			if nt := namedOf(mt.Elem()); nt == nil || nt.Obj().Name() != "Builders" {
				return true
			}
			n++
			key := exprString(ix.Index)
			if id, ok := ast.Unparen(ix.Index).(*ast.Ident); ok {
				if d, ok := defs[objOf(info, id)]; ok {
					key = exprString(d)
				}
			}
			r.Check(strings.Contains(key, "ReferredPkg") || strings.HasSuffix(key, ".Package"), "siblings/compose-groups-by-package", "builder.ComposeBuilders groups the composable builders", as.Pos(), "one group per package ("+key+")",
				"the composable builders are grouped by `"+key+"`: two packages carrying the same identifier (two versions of a plugin) are merged into one builder, written in the package of whichever comes first — adding an unreferenced package changes the builder of another")
			return true
		})
		r.Count("groupings of composable builders", n)
	})
	r.Floor("groupings of composable builders", 1)
	c07ContextSortedInPlace(ctx, r)
	selfTest(ctx, r, "copycheck/jenny-context-not-sorted-in-place", "context_sorted_in_place", true, `package fx
import (
	"sort"
	"github.com/grafana/cog/internal/languages"
)
func index(context languages.Context) int {
	sort.Slice(context.Schemas, func(i, j int) bool { return context.Schemas[i].Package < context.Schemas[j].Package })
	return len(context.Schemas)
}`, c07ContextSortedInPlace)
	selfTest(ctx, r, "copycheck/jenny-context-not-sorted-in-place", "context_copy_sorted", false, `package fx
import (
	"sort"
	"github.com/grafana/cog/internal/ast"
	"github.com/grafana/cog/internal/languages"
)
func index(context languages.Context) int {
	schemas := append([]*ast.Schema(nil), context.Schemas...)
	sort.Slice(schemas, func(i, j int) bool { return schemas[i].Package < schemas[j].Package })
	return len(schemas)
}`, c07ContextSortedInPlace)
	selfTest(ctx, r, "copycheck/jenny-context-not-sorted-in-place", "builder_options_sorted_in_place", true, `package fx
import (
	"sort"
	"github.com/grafana/cog/internal/ast"
)
func reference(builder ast.Builder) int {
	sort.Slice(builder.Options, func(i, j int) bool { return builder.Options[i].Name < builder.Options[j].Name })
	return len(builder.Options)
}`, c07ContextSortedInPlace)
	selfTest(ctx, r, "copycheck/jenny-context-not-sorted-in-place", "context_builders_visited_in_place", true, `package fx
import (
	"github.com/grafana/cog/internal/ast"
	"github.com/grafana/cog/internal/languages"
)
func generate(context languages.Context) (int, error) {
	visitor := ast.BuilderVisitor{}
	builders, err := visitor.Visit(context.Schemas, context.Builders)
	return len(builders), err
}`, c07ContextSortedInPlace)
	selfTest(ctx, r, "copycheck/jenny-context-not-sorted-in-place", "context_builders_copy_visited", false, `package fx
import (
	"github.com/grafana/cog/internal/ast"
	"github.com/grafana/cog/internal/languages"
)
func generate(context languages.Context) (int, error) {
	visitor := ast.BuilderVisitor{}
	builders, err := visitor.Visit(context.Schemas, append(ast.Builders(nil), context.Builders...))
	return len(builders), err
}`, c07ContextSortedInPlace)
}

func c07ContextSortedInPlace(ctx *Ctx, r *Report) {
	n := 0
	ctx.AllFuncDecls(func(p *packages.Package, fd *ast.FuncDecl, obj *types.Func) {
		if fd.Body == nil {
			return
		}
		info := p.TypesInfo
		params := map[types.Object]bool{}
		if fd.Type.Params != nil {
			for _, f := range fd.Type.Params.List {
				for _, nm := range f.Names {
					if nt := namedOf(info.TypeOf(nm)); nt != nil && nt.Obj().Name() == "Context" && nt.Obj().Pkg() != nil && strings.HasSuffix(nt.Obj().Pkg().Path(), "internal/languages") {
						params[info.Defs[nm]] = true
					}
					// a builder, an option, a schema… handed over by value by a jenny that took it out of the context: the
					// struct is a copy, its slices are not
					if nt, ok := info.TypeOf(nm).(*types.Named); ok && nt.Obj().Pkg() != nil && strings.HasSuffix(nt.Obj().Pkg().Path(), "internal/ast") && (strings.Contains(p.PkgPath, "/internal/jennies") || strings.Contains(p.PkgPath, "/internal/veriffixture/")) {
						if _, isStruct := nt.Underlying().(*types.Struct); isStruct {
							params[info.Defs[nm]] = true
						}
					}
				}
			}
		}
		if len(params) == 0 {
			return
		}
		ast.Inspect(fd.Body, func(m ast.Node) bool {
			c, ok := m.(*ast.CallExpr)
			if !ok || len(c.Args) == 0 {
				return true
			}
			fn := callee(info, c)
			if fn == nil || fn.Pkg() == nil || (fn.Pkg().Path() != "sort" && fn.Pkg().Path() != "slices") {
				return true
			}
			if !strings.HasPrefix(fn.Name(), "Sort") && fn.Name() != "Slice" && fn.Name() != "SliceStable" && fn.Name() != "Strings" && fn.Name() != "Stable" && fn.Name() != "Reverse" {
				return true
			}
			sorted := ast.Unparen(c.Args[0])
			// a local that only names a slice of the parameter (`options := builder.Options`) is that slice
			if lid, ok := sorted.(*ast.Ident); ok {
				ast.Inspect(fd.Body, func(k ast.Node) bool {
					if as, ok := k.(*ast.AssignStmt); ok && as.Tok == token.DEFINE && len(as.Lhs) == len(as.Rhs) {
						for i, l := range as.Lhs {
							if d, ok := l.(*ast.Ident); ok && info.Defs[d] == objOf(info, lid) {
								if _, isSel := ast.Unparen(as.Rhs[i]).(*ast.SelectorExpr); isSel {
									sorted = ast.Unparen(as.Rhs[i])
								}
							}
						}
					}
					return true
				})
			}
			root := sorted
			for {
				if s, ok := root.(*ast.SelectorExpr); ok {
					root = ast.Unparen(s.X)
					continue
				}
				break
			}
			id, ok := root.(*ast.Ident)
			if !ok || !params[objOf(info, id)] || root == sorted {
				return true
			}
			n++
			r.Bad("copycheck/jenny-context-not-sorted-in-place", fmt.Sprintf("%s sorts %s", ctx.FuncName(obj), exprString(c.Args[0])), c.Pos(),
				fmt.Sprintf("%s sorts %s in place: languages.Context travels by value and shares that slice with every other jenny — the jennies that run afterwards see another order than without this one (a file rendered from extra_files_templates changes with api_reference: true)", ctx.FuncName(obj), exprString(c.Args[0])))
			return true
		})
	})
	// a jenny that transforms the schemas / builders of the context does so on a copy: a compiler pass goes through
	// compiler.Passes.Process (which duplicates first), the builder visitor is given its own list
	ctx.AllFuncDecls(func(p *packages.Package, fd *ast.FuncDecl, obj *types.Func) {
		if fd.Body == nil || !strings.Contains(p.PkgPath, "/internal/jennies") && !strings.Contains(p.PkgPath, "/internal/veriffixture/") {
			return
		}
		info := p.TypesInfo
		isContextField := func(e ast.Expr, field string) bool {
			sel, ok := ast.Unparen(e).(*ast.SelectorExpr)
			if !ok || sel.Sel.Name != field {
				return false
			}
			nt := namedOf(info.TypeOf(sel.X))
			return nt != nil && nt.Obj().Name() == "Context" && nt.Obj().Pkg() != nil && strings.HasSuffix(nt.Obj().Pkg().Path(), "internal/languages")
		}
		ast.Inspect(fd.Body, func(m ast.Node) bool {
			c, ok := m.(*ast.CallExpr)
			if !ok {
				return true
			}
			sel, ok := c.Fun.(*ast.SelectorExpr)
			if !ok {
				return true
			}
			switch {
			case sel.Sel.Name == "Process" && len(c.Args) == 1 && isContextField(c.Args[0], "Schemas"):
				if namedName(info.TypeOf(sel.X)) != "Passes" {
					n++
					r.Bad("copycheck/jenny-context-not-sorted-in-place", fmt.Sprintf("%s runs %s on the schemas of the context", ctx.FuncName(obj), exprString(sel.X)), c.Pos(),
						fmt.Sprintf("%s runs a compiler pass directly on context.Schemas: nothing duplicates them first (compiler.Passes.Process does), so the pass rewrites the schemas every other jenny — and the next generation from the same context — is given: the PHP type hints end up in the comments seen by extra_files_templates, and twice in a second generation", ctx.FuncName(obj)))
				}
			case sel.Sel.Name == "Visit" && len(c.Args) == 2 && isContextField(c.Args[1], "Builders") && namedName(info.TypeOf(sel.X)) == "BuilderVisitor":
				n++
				r.Bad("copycheck/jenny-context-not-sorted-in-place", fmt.Sprintf("%s visits the builders of the context in place", ctx.FuncName(obj)), c.Pos(),
					fmt.Sprintf("%s hands context.Builders itself to BuilderVisitor.Visit, which writes every visited builder back into the list it was given: the jennies that run afterwards see the builders as this jenny rewrote them", ctx.FuncName(obj)))
			}
			return true
		})
	})
	r.Count("in-place sorts of a slice held by a languages.Context parameter", n)
	if n == 0 {
		r.OK("copycheck/jenny-context-not-sorted-in-place", "functions receiving a languages.Context", token.NoPos, "none sorts a slice of the context in place")
	}
}

// c07ThirdHunt: DisjunctionToType and UndiscriminatedDisjunctionToAny decide what to do with a union from what its
// reference branches *resolve to*, and keep the list of schemas for that. The Visitor they run replaces the entries of
// the very list it is given, one schema after the other: resolving through that list gives the processed form of the
// packages that come first in the inputs and the original form of those that come later — the generated types depend on
// the order of the inputs. The list kept for resolution is a copy taken before the visit.
func c07ThirdHunt(ctx *Ctx, r *Report) {
	p := ctx.Pkg("internal/ast/compiler")
	if p == nil {
		r.Undecided("anchor lost: internal/ast/compiler")
		return
	}
	info := p.TypesInfo
	n := 0
	for _, name := range []string{"DisjunctionToType", "UndiscriminatedDisjunctionToAny"} {
		fn := ctx.LookupMethod("internal/ast/compiler", name, "Process")
		fd, _ := ctx.DeclOf(fn)
		if fd == nil || fd.Type.Params == nil || len(fd.Type.Params.List) == 0 || len(fd.Type.Params.List[0].Names) == 0 {
			r.Undecided("anchor lost: compiler.%s.Process", name)
			continue
		}
		param := info.Defs[fd.Type.Params.List[0].Names[0]]
		stored, copied := false, false
		ast.Inspect(fd.Body, func(m ast.Node) bool {
			as, ok := m.(*ast.AssignStmt)
			if !ok || len(as.Lhs) != 1 || len(as.Rhs) != 1 {
				return true
			}
			f := fieldOf(info, as.Lhs[0])
			if f == nil || namedName(f.Type()) != "Schemas" {
				return true
			}
			stored = true
			usesParam := false
			ast.Inspect(as.Rhs[0], func(k ast.Node) bool {
				if id, ok := k.(*ast.Ident); ok && objOf(info, id) == param {
					usesParam = true
				}
				return true
			})
			if c, ok := ast.Unparen(as.Rhs[0]).(*ast.CallExpr); ok && usesParam {
				if cf := callee(info, c); cf != nil && cf.Name() == "DeepCopy" {
					copied = true
				}
			}
			return true
		})
		if !stored {
			// the pass no longer keeps the schemas: nothing to resolve through a list being rewritten
			r.OK("effects/resolve-in-pre-visit-schemas", "compiler."+name+" keeps no list of schemas", fd.Pos(), "no field of type ast.Schemas is assigned in Process")
			continue
		}
		n++
		r.Check(copied, "effects/resolve-in-pre-visit-schemas", "compiler."+name+" resolves references in a copy of the schemas", fd.Pos(), "the list kept for resolution is a DeepCopy of the one handed to the visitor",
			"compiler."+name+" keeps the list of schemas it hands to the Visitor, which replaces its entries one schema after the other: a reference into a package that comes earlier in the inputs resolves to the processed type, into a later one to the original — `common.Size: \"auto\" | string`, `main.Box.width: bool | [...(common.Size | string)]` gives BoolOrArrayOfString for [common, main] and BoolOrArrayOfSizeOrString for [main, common]")
	}
	r.Count("passes resolving references while the visitor rewrites the schemas", n)
	r.Floor("passes resolving references while the visitor rewrites the schemas", 2)
}

// c07ObjectSetsKeyedByIdentity: `RefType.String()` is "<package>.<object>" — a display string: neither package names nor
// object names exclude dots (`k8s` + `io.Pod`, `k8s.io` + `Pod`). A set of objects that spans the schemas and decides
// what a pass removes, keeps or inlines — or under which object the API reference lists a method — keyed by that string
// lets an unrelated package change what is generated for another. Decided: in every type of internal/ast/compiler
// whose methods delete objects (Objects.Filter / Objects.Remove), and in the API-reference collector, no map or ordered
// map is read or written under a key computed by RefType.String() (directly, or through a local variable).
// The per-function `visited` / `expanding` sets of the jennies (cycle guards) are not claimed.
func c07ObjectSetsKeyedByIdentity(ctx *Ctx, r *Report) {
	refT := ctx.LookupType("internal/ast", "RefType")
	if refT == nil {
		r.Undecided("anchor lost: ast.RefType")
		return
	}
	isRefString := func(info *types.Info, e ast.Expr) bool {
		c, ok := ast.Unparen(e).(*ast.CallExpr)
		if !ok {
			return false
		}
		f := callee(info, c)
		if f == nil || f.Name() != "String" {
			return false
		}
		sig, _ := f.Type().(*types.Signature)
		return sig != nil && sig.Recv() != nil && namedOf(sig.Recv().Type()) == refT
	}
	scan := func(p *packages.Package, owner string, fds []*ast.FuncDecl) (sites int, bad []string) {
		info := p.TypesInfo
		for _, fd := range fds {
			joined := map[types.Object]bool{}
			ast.Inspect(fd.Body, func(m ast.Node) bool {
				if as, ok := m.(*ast.AssignStmt); ok && len(as.Lhs) == 1 && len(as.Rhs) == 1 && isRefString(info, as.Rhs[0]) {
					if id, ok := as.Lhs[0].(*ast.Ident); ok {
						joined[objOf(info, id)] = true
					}
				}
				return true
			})
			isJoined := func(e ast.Expr) bool {
				if isRefString(info, e) {
					return true
				}
				id, ok := ast.Unparen(e).(*ast.Ident)
				return ok && joined[objOf(info, id)]
			}
			ast.Inspect(fd.Body, func(m ast.Node) bool {
				switch x := m.(type) {
				case *ast.IndexExpr:
					if _, isMap := info.TypeOf(x.X).Underlying().(*types.Map); isMap {
						sites++
						if isJoined(x.Index) {
							bad = append(bad, fmt.Sprintf("%s[%s] at %s", exprString(x.X), exprString(x.Index), ctx.Pos(x.Pos())))
						}
					}
				case *ast.CallExpr:
					f := callee(info, x)
					if f == nil || f.Pkg() == nil || !strings.HasSuffix(f.Pkg().Path(), "/internal/orderedmap") || len(x.Args) == 0 {
						return true
					}
					switch f.Name() {
					case "Set", "Has", "Get", "Remove":
						sites++
						if isJoined(x.Args[0]) {
							bad = append(bad, fmt.Sprintf("%s at %s", exprString(x), ctx.Pos(x.Pos())))
						}
					}
				}
				return true
			})
		}
		return sites, bad
	}
	n := 0
	if cp := ctx.Pkg("internal/ast/compiler"); cp == nil {
		r.Undecided("anchor lost: internal/ast/compiler")
	} else {
		eng := newEffectsEngine(ctx)
		for _, pass := range allPasses(ctx, eng) {
			fds := methodsOf(ctx, pass.named)
			deletes := false
			for _, fd := range fds {
				ast.Inspect(fd.Body, func(m ast.Node) bool {
					if c, ok := m.(*ast.CallExpr); ok {
						if sel, ok := ast.Unparen(c.Fun).(*ast.SelectorExpr); ok && (sel.Sel.Name == "Filter" || sel.Sel.Name == "Remove") && strings.HasSuffix(exprString(sel.X), ".Objects") {
							deletes = true
						}
					}
					return true
				})
			}
			if !deletes {
				continue
			}
			n++
			sites, bad := scan(cp, pass.named.Obj().Name(), fds)
			r.Check(len(bad) == 0, "siblings/object-sets-keyed-by-identity", "compiler."+pass.named.Obj().Name()+" keys its sets of objects", pass.named.Obj().Pos(), fmt.Sprintf("%d map accesses, none under RefType.String()", sites),
				pass.named.Obj().Name()+" deletes objects and decides with a set keyed by RefType.String() ("+strings.Join(bad, "; ")+"): `k8s` + `io.Pod` and `k8s.io` + `Pod` are one entry — adding the unrelated package k8s.io removes, keeps or inlines an object of package k8s")
		}
	}
	if jp := ctx.Pkg("internal/jennies/common"); jp == nil {
		r.Undecided("anchor lost: internal/jennies/common")
	} else if ct := ctx.LookupType("internal/jennies/common", "APIReferenceCollector"); ct == nil {
		r.Undecided("anchor lost: common.APIReferenceCollector")
	} else {
		// the maps that span packages: those whose key is not already under a per-package map
		var fds []*ast.FuncDecl
		for _, fd := range methodsOf(ctx, ct) {
			fds = append(fds, fd)
		}
		info := jp.TypesInfo
		var bad []string
		sites := 0
		for _, fd := range fds {
			joined := map[types.Object]bool{}
			ast.Inspect(fd.Body, func(m ast.Node) bool {
				if as, ok := m.(*ast.AssignStmt); ok && len(as.Lhs) == 1 && len(as.Rhs) == 1 && isRefString(info, as.Rhs[0]) {
					if id, ok := as.Lhs[0].(*ast.Ident); ok {
						joined[objOf(info, id)] = true
					}
				}
				return true
			})
			ast.Inspect(fd.Body, func(m ast.Node) bool {
				ix, ok := m.(*ast.IndexExpr)
				if !ok {
					return true
				}
				if _, isMap := info.TypeOf(ix.X).Underlying().(*types.Map); !isMap {
					return true
				}
				// `m[pkg][key]`: the outer index already separates the packages
				if _, nested := ast.Unparen(ix.X).(*ast.IndexExpr); nested {
					return true
				}
				sites++
				key := ast.Unparen(ix.Index)
				id, isIdent := key.(*ast.Ident)
				if isRefString(info, key) || (isIdent && joined[objOf(info, id)]) {
					bad = append(bad, fmt.Sprintf("%s[%s] at %s", exprString(ix.X), exprString(ix.Index), ctx.Pos(ix.Pos())))
				}
				return true
			})
		}
		n++
		r.Check(len(bad) == 0, "siblings/object-sets-keyed-by-identity", "common.APIReferenceCollector keys what it collects for objects", ct.Obj().Pos(), fmt.Sprintf("%d accesses to maps spanning the packages, none under RefType.String()", sites),
			"the API-reference collector lists methods under RefType.String() ("+strings.Join(bad, "; ")+"): the Equals of `k8s.io` + `Pod` lands on docs/Reference/k8s/object-IoPod.md — adding an unrelated input changes a file of another package")
	}
	r.Count("object-deleting passes and collectors checked for joined keys", n)
	r.Floor("object-deleting passes and collectors checked for joined keys", 5)
}
