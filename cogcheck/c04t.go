package main

import (
	"fmt"
	"go/token"
	"regexp"
	"sort"
	"strings"
	"text/template/parse"
)

// C04 — recursion inside the templates.
//
// The call graph of the Go code does not see a template that invokes itself: `type_equality_check`
// calls itself on `(resolveRefs .Type).Map.ValueType`, which for `M: [string]: M` is the same
// reference again; the text grows at each level and the run never ends. Rule: every template
// invocation that closes a cycle of the inclusion graph ({{template}} and `include`) and whose argument
// is computed by following a reference (resolveRefs / resolveTo…, directly or through a variable)
// sits in the else-part of a test `isRecursiveCollection <the field that is resolved>`. Invocations
// that pass a member of the argument on (a field's type, the same type with another flag) are
// structural: every cycle of references passes through a resolving invocation.

var tmplResolveRe = regexp.MustCompile(`\bresolve[A-Za-z]*\s+(\.[A-Za-z.]*|\$[A-Za-z0-9_.]*)`)

type tmplEdge struct {
	from, to string
	arg      string            // source text of the argument pipeline
	guards   []string          // conditions whose else-part holds the invocation
	within   []string          // conditions whose then-part holds the invocation
	dict     map[string]string // the dict argument, key → source text
	decls    map[string]string // variable declarations of the enclosing template
	where    string
	off      int
}

func c04TemplateRecursion(ctx *Ctx, r *Report) {
	total, cyclic, resolving := 0, 0, 0
	for _, lang := range []string{"golang", "java", "php", "python", "typescript"} {
		ts, err := loadTemplates(ctx, lang)
		if err != nil {
			r.Undecided("templates of %s: %v", lang, err)
			continue
		}
		var edges []tmplEdge
		succ := map[string]map[string]bool{}
		for _, name := range ts.names() {
			tree := ts.trees[name]
			decls := varDecls(tree.Root)
			var visit func(n parse.Node, guards []string)
			var within []string
			addEdge := func(to string, arg string, node parse.Node, guards []string, dict map[string]string) {
				// expand variables of the argument
				expanded := arg
				for i := 0; i < 3; i++ {
					expanded = regexp.MustCompile(`\$[A-Za-z0-9_]+`).ReplaceAllStringFunc(expanded, func(v string) string {
						if d, ok := decls[v]; ok {
							return "(" + d + ")"
						}
						return v
					})
				}
				edges = append(edges, tmplEdge{from: name, to: to, arg: expanded, guards: append([]string{}, guards...), within: append([]string{}, within...), dict: dict, decls: decls, where: ts.posOf(ctx, name, node), off: int(node.Position())})
				if succ[name] == nil {
					succ[name] = map[string]bool{}
				}
				succ[name][to] = true
			}
			visit = func(n parse.Node, guards []string) {
				if n == nil || isNilNode(n) {
					return
				}
				switch x := n.(type) {
				case *parse.ListNode:
					for _, c := range x.Nodes {
						visit(c, guards)
					}
				case *parse.IfNode:
					visit(x.Pipe, guards)
					within = append(within, x.Pipe.String())
					visit(x.List, guards)
					within = within[:len(within)-1]
					visit(x.ElseList, append(append([]string{}, guards...), x.Pipe.String()))
				case *parse.RangeNode:
					visit(x.Pipe, guards)
					visit(x.List, guards)
					visit(x.ElseList, guards)
				case *parse.WithNode:
					visit(x.Pipe, guards)
					visit(x.List, guards)
					visit(x.ElseList, guards)
				case *parse.ActionNode:
					visit(x.Pipe, guards)
				case *parse.PipeNode:
					for _, c := range x.Cmds {
						visit(c, guards)
					}
				case *parse.CommandNode:
					if len(x.Args) >= 2 {
						if id, ok := x.Args[0].(*parse.IdentifierNode); ok && (id.Ident == "include" || id.Ident == "includeIfExists") {
							if s, ok := x.Args[1].(*parse.StringNode); ok {
								arg := ""
								var dict map[string]string
								if len(x.Args) > 2 {
									arg = x.Args[2].String()
									if pn, ok := x.Args[2].(*parse.PipeNode); ok {
										dict = dictArgs(pn)
									}
								}
								addEdge(s.Text, arg, x, guards, dict)
							}
						}
					}
					for _, a := range x.Args {
						visit(a, guards)
					}
				case *parse.TemplateNode:
					arg := ""
					if x.Pipe != nil {
						arg = x.Pipe.String()
					}
					addEdge(x.Name, arg, x, guards, dictArgs(x.Pipe))
					visit(x.Pipe, guards)
				}
			}
			visit(tree.Root, nil)
		}
		total += len(edges)
		// reachability
		reach := func(from, to string) bool {
			seen := map[string]bool{}
			stack := []string{from}
			for len(stack) > 0 {
				cur := stack[len(stack)-1]
				stack = stack[:len(stack)-1]
				if cur == to {
					return true
				}
				if seen[cur] {
					continue
				}
				seen[cur] = true
				for s := range succ[cur] {
					stack = append(stack, s)
				}
			}
			return false
		}
		sort.SliceStable(edges, func(i, j int) bool {
			if edges[i].from != edges[j].from {
				return edges[i].from < edges[j].from
			}
			return edges[i].off < edges[j].off
		})
		seen := map[string]int{}
		for _, e := range edges {
			if !reach(e.to, e.from) {
				continue
			}
			cyclic++
			m := tmplResolveRe.FindStringSubmatch(tmplTypeCarrying(e))
			if m == nil {
				continue
			}
			resolving++
			field := m[1]
			key := lang + " " + e.from + " → " + e.to + " on " + strings.TrimSpace(m[0])
			seen[key]++
			cons := key
			if seen[key] > 1 {
				cons = fmt.Sprintf("%s #%d", key, seen[key])
			}
			guarded := ""
			for _, g := range e.guards {
				// the else-part must imply that the test is false: the test alone, or an operand of a top-level `or`
				if tmplExcludesRecursive(strings.TrimSpace(g), field) {
					guarded = g
				}
			}
			if guarded == "" {
				// second form: whoever enters the template is under `resolvesToConstraints <the type it passes>`
				// (false for a pure cycle of collections: one successor per level and the Go predicate stops on
				// a reference it is already following), and the other invocations pass the same type on
				key := strings.TrimPrefix(field, ".")
				entries, ok := 0, true
				for _, o := range edges {
					if o.to != e.from || tmplResolveRe.MatchString(o.arg) {
						continue
					}
					entries++
					v := o.dict[key]
					under := false
					for _, w := range o.within {
						if strings.Contains(w, "resolvesToConstraints "+v) && v != "" {
							under = true
						}
					}
					if !(under || (o.from == e.from && v == field)) {
						ok = false
					}
				}
				if ok && entries > 0 {
					guarded = fmt.Sprintf("resolvesToConstraints on the type passed by each of the %d invocations that enter %s", entries, e.from)
				}
			}
			if guarded != "" {
				r.OK("tmpl/bounded-self-inclusion", cons, token.NoPos, e.where+": guarded by `"+guarded+"`: a collection defined in terms of itself is not unfolded")
				continue
			}
			r.Bad("tmpl/bounded-self-inclusion", cons, token.NoPos, e.where+": the template invokes "+e.to+" (which comes back to "+e.from+") on a type obtained by following a reference ("+strings.TrimSpace(m[0])+
				") and no enclosing test excludes collections defined in terms of themselves: for `M: [string]: M` the expansion never ends and the output grows until memory is exhausted")
		}
	}
	r.Count("template invocations", total)
	r.Count("template invocations closing a cycle", cyclic)
	r.Count("cyclic template invocations that follow a reference", resolving)
	r.Floor("template invocations", 100)
	r.Floor("template invocations closing a cycle", 6)
	r.Floor("cyclic template invocations that follow a reference", 4)
}

// tmplExcludesRecursive: the else-part of the test `guard` implies that `field` is not a collection defined in terms
// of itself reached through a reference: the test is `isRecursiveCollection F`, or `and F.IsRef (isRecursiveCollection F)`
// (resolving a type that is not a reference is the identity: the step is then structural), alone or as an operand of a
// top-level `or`. Any other context (an `and` with other operands, a `not`) does not give that implication.
func tmplExcludesRecursive(guard, field string) bool {
	bare := "isRecursiveCollection " + field
	conj := "and " + field + ".IsRef (" + bare + ")"
	if guard == bare || guard == conj {
		return true
	}
	if !strings.HasPrefix(guard, "or ") {
		return false
	}
	// the operands of the top-level `or`, split on spaces outside parentheses
	var operands []string
	depth, start := 0, 3
	for i := 3; i <= len(guard); i++ {
		if i == len(guard) || (guard[i] == ' ' && depth == 0) {
			if i > start {
				operands = append(operands, guard[start:i])
			}
			start = i + 1
			continue
		}
		switch guard[i] {
		case '(':
			depth++
		case ')':
			depth--
		}
	}
	found := false
	for _, op := range operands {
		switch {
		case op == "("+bare+")" || op == "("+conj+")":
			found = true
		case strings.Contains(op, "isRecursiveCollection"):
			// the test inside another conjunction / negation: its falsity is not implied
			return false
		}
	}
	return found
}

var tmplBooleanValue = regexp.MustCompile(`^\(*\s*(and|or|not|eq|ne|lt|gt|le|ge)\s|\.(Nullable|Required|Is[A-Z][A-Za-z]*|Has[A-Z][A-Za-z]*)\)*$|^(true|false)$`)

// tmplTypeCarrying: the part of an invocation's argument that can carry a type. With a dict argument, entries whose
// value is a truth value (a boolean operator, a flag or predicate of a type) carry none: `"Nullable" (and
// $field.Type.Nullable (not (resolveRefs $field.Type).IsConcreteScalar))` follows a reference only to compute a flag.
func tmplTypeCarrying(e tmplEdge) string {
	if len(e.dict) == 0 {
		return e.arg
	}
	// the dict entries, with the variables expanded the way e.arg was: recover them from e.arg is not possible, so
	// boolean entries are recognised on their source text and removed from the expanded argument by their key
	out := e.arg
	for k, v := range e.dict {
		val := strings.TrimSpace(v)
		boolean := tmplBooleanValue.MatchString(val)
		if !boolean && strings.HasPrefix(val, "$") && e.decls != nil {
			if d, ok := e.decls[val]; ok {
				boolean = tmplBooleanValue.MatchString(strings.TrimSpace(d))
			}
		}
		if !boolean {
			continue
		}
		// cut `"Key" <value>` up to the next `"Other"` key or the end
		idx := strings.Index(out, `"`+k+`"`)
		if idx < 0 {
			continue
		}
		restStart := idx + len(k) + 2
		next := regexp.MustCompile(`"[A-Za-z]+"\s`).FindStringIndex(out[restStart:])
		end := len(out)
		if next != nil {
			end = restStart + next[0]
		}
		out = out[:idx] + out[end:]
	}
	return out
}
