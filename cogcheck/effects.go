package main

// Engine E4 "effects": interprocedural write-set summaries.
//
// For every function of cog the engine computes the set of stores that are
// visible to the function's caller: stores whose access path starts at the
// receiver, a parameter, a package-level variable, or a captured variable and
// crosses shared storage (pointer dereference, map or slice element), plus
// calls whose effect is unknown (dynamic calls through func-typed fields).
// Calls to cog functions are resolved statically (interface calls by class
// hierarchy over cog's own types) and their summaries are translated to the
// caller's access paths; func literals are analysed inline in the function
// that creates them. The analysis is syntactic over access paths (no points-to
// analysis is available offline); one level of local aliasing is tracked.

import (
	"fmt"
	"go/ast"
	"go/token"
	"go/types"
	"sort"
	"strings"

	"golang.org/x/tools/go/packages"
)

const (
	rootRecv    = -1
	rootGlobal  = -2
	rootUnknown = -3
	rootLocal   = -4
)

type WriteFact struct {
	Root   int        // rootRecv, param index, rootGlobal, rootUnknown
	Global *types.Var // for rootGlobal
	Path   []*types.Var
	Elem   bool   // the store is to an element ([i]/[k]) or through a pointer below the last field
	Kind   string // store | append | delete | external:<fn> | dynamic:<what>
	Pos    token.Pos
	Via    string   // callee chain, innermost last
	Node   ast.Node // originating statement/call (region mode)
	Direct bool     // a store written in the analysed body itself (not via a callee)
	// ArgRooted: the store goes through an argument/captured variable of a
	// function value whose caller is unknown (root reported as unknown).
	ArgRooted bool
	// ConstRHS: an element store whose right-hand side is a constant / empty
	// literal (set insert, flag).
	ConstRHS bool
	// Origin: position of the store statement itself (Pos is rewritten to the
	// call site when a fact is translated into a caller).
	Origin token.Pos
	// Counter: the store is an increment / decrement statement (x++): a commutative update.
	Counter bool
}

func (w WriteFact) PathString() string {
	var parts []string
	for _, f := range w.Path {
		parts = append(parts, f.Name())
	}
	s := strings.Join(parts, ".")
	if w.Elem {
		s += "[]"
	}
	return s
}

func (w WriteFact) Final() *types.Var {
	if len(w.Path) == 0 {
		return nil
	}
	return w.Path[len(w.Path)-1]
}

func (w WriteFact) String() string {
	root := ""
	switch w.Root {
	case rootRecv:
		root = "recv"
	case rootGlobal:
		root = "global " + w.Global.Name()
	case rootUnknown:
		root = "?"
	default:
		root = fmt.Sprintf("param#%d", w.Root)
	}
	s := fmt.Sprintf("%s %s.%s", w.Kind, root, w.PathString())
	if w.Via != "" {
		s += " via " + w.Via
	}
	return s
}

type effectsEngine struct {
	ctx        *Ctx
	memo       map[*types.Func][]WriteFact
	inProgress map[*types.Func]bool
	impls      map[*types.Func][]*types.Func // interface method -> cog implementations
	allNamed   []*types.Named
	depth      int
	fieldVals  map[*types.Var][]funcValue
	fieldMemo  map[*types.Var][]WriteFact
}

func newEffectsEngine(ctx *Ctx) *effectsEngine {
	e := &effectsEngine{ctx: ctx, memo: map[*types.Func][]WriteFact{}, inProgress: map[*types.Func]bool{}, impls: map[*types.Func][]*types.Func{}}
	for _, p := range ctx.Pkgs {
		sc := p.Types.Scope()
		for _, n := range sc.Names() {
			if tn, ok := sc.Lookup(n).(*types.TypeName); ok {
				if nt, ok := tn.Type().(*types.Named); ok && nt.TypeParams().Len() == 0 {
					e.allNamed = append(e.allNamed, nt)
				}
			}
		}
	}
	return e
}

// step of an access path
type pathStep struct {
	field *types.Var // nil for index/deref
	index bool
	deref bool
}

type accessPath struct {
	root  types.Object
	steps []pathStep
	ok    bool
}

// accessPathOf decomposes e into root identifier + steps. Method-call hops
// such as x.AsStruct().Fields are treated as passing through the receiver
// (the accessor returns a copy of pointed-to data whose slices/maps are still
// shared), conservatively marked as a deref.
func accessPathOf(info *types.Info, e ast.Expr) accessPath {
	var steps []pathStep
	for {
		e = ast.Unparen(e)
		switch x := e.(type) {
		case *ast.Ident:
			obj := objOf(info, x)
			if obj == nil {
				return accessPath{}
			}
			// reverse steps
			for i, j := 0, len(steps)-1; i < j; i, j = i+1, j-1 {
				steps[i], steps[j] = steps[j], steps[i]
			}
			return accessPath{root: obj, steps: steps, ok: true}
		case *ast.SelectorExpr:
			if f := fieldOf(info, x); f != nil {
				// implicit deref when X is a pointer
				steps = append(steps, pathStep{field: f})
				if _, isPtr := info.TypeOf(x.X).Underlying().(*types.Pointer); isPtr {
					steps = append(steps, pathStep{deref: true})
				}
				e = x.X
				continue
			}
			// package-qualified identifier
			if id, ok := x.X.(*ast.Ident); ok {
				if _, isPkg := objOf(info, id).(*types.PkgName); isPkg {
					obj := objOf(info, x.Sel)
					if obj == nil {
						return accessPath{}
					}
					for i, j := 0, len(steps)-1; i < j; i, j = i+1, j-1 {
						steps[i], steps[j] = steps[j], steps[i]
					}
					return accessPath{root: obj, steps: steps, ok: true}
				}
			}
			return accessPath{}
		case *ast.IndexExpr:
			steps = append(steps, pathStep{index: true})
			e = x.X
		case *ast.SliceExpr:
			e = x.X
		case *ast.StarExpr:
			steps = append(steps, pathStep{deref: true})
			e = x.X
		case *ast.UnaryExpr:
			if x.Op == token.AND {
				e = x.X
				continue
			}
			return accessPath{}
		case *ast.TypeAssertExpr:
			steps = append(steps, pathStep{deref: true})
			e = x.X
		case *ast.CallExpr:
			// value accessor method on an access path: x.AsStruct() etc.
			// (As<Kind>() of ast.Type, Last() of ast.Path …). Copying methods
			// (DeepCopy) and everything else yield fresh values: no path.
			if sel, ok := x.Fun.(*ast.SelectorExpr); ok && len(x.Args) == 0 {
				if s := info.Selections[sel]; s != nil && s.Kind() == types.MethodVal {
					m := s.Obj()
					if m.Pkg() != nil && strings.HasPrefix(m.Pkg().Path(), modulePath) && (strings.HasPrefix(m.Name(), "As") || m.Name() == "Last" || m.Name() == "RemoveLast") && m.Name() != "AsRef" && m.Name() != "AsType" {
						steps = append(steps, pathStep{deref: true})
						e = sel.X
						continue
					}
				}
			}
			return accessPath{}
		default:
			return accessPath{}
		}
	}
}

// funcEnv is the per-function analysis environment.
type funcEnv struct {
	eng    *effectsEngine
	info   *types.Info
	pkg    *packages.Package
	recv   types.Object
	params map[types.Object]int
	// alias: local -> access path (rooted at recv/param/global/unknown) it aliases
	alias map[types.Object]accessPath
	// fresh: locals known to hold fresh storage
	facts []WriteFact
	outer types.Object // function object for naming

	// region mode: objects for which isOuter holds are registered lazily as
	// pseudo-parameters; stores to bare outer variables are kept.
	region  bool
	isOuter func(types.Object) bool
	objs    []types.Object
	curNode ast.Node
	body    ast.Node     // body of the function being analysed
	lit     *ast.FuncLit // set when analysing a func literal standalone
}

func (e *effectsEngine) EffectsOf(fn *types.Func) []WriteFact {
	fn = fn.Origin()
	if facts, ok := e.memo[fn]; ok {
		return facts
	}
	if e.inProgress[fn] {
		return nil
	}
	fd, pkg := e.ctx.DeclOf(fn)
	if fd == nil || fd.Body == nil {
		return nil
	}
	e.inProgress[fn] = true
	env := &funcEnv{eng: e, info: pkg.TypesInfo, pkg: pkg, params: map[types.Object]int{}, alias: map[types.Object]accessPath{}, outer: fn}
	if fd.Recv != nil && len(fd.Recv.List) == 1 && len(fd.Recv.List[0].Names) == 1 {
		env.recv = pkg.TypesInfo.Defs[fd.Recv.List[0].Names[0]]
	}
	i := 0
	for _, fl := range fd.Type.Params.List {
		if len(fl.Names) == 0 {
			i++
			continue
		}
		for _, nm := range fl.Names {
			env.params[pkg.TypesInfo.Defs[nm]] = i
			i++
		}
	}
	env.body = fd.Body
	env.walk(fd.Body)
	delete(e.inProgress, fn)
	facts := dedupFacts(env.facts)
	e.memo[fn] = facts
	return facts
}

func dedupFacts(in []WriteFact) []WriteFact {
	seen := map[string]bool{}
	var out []WriteFact
	for _, f := range in {
		k := f.String()
		if seen[k] {
			continue
		}
		seen[k] = true
		out = append(out, f)
	}
	return out
}

// classifyRoot maps an object to a fact root.
func (env *funcEnv) classifyRoot(obj types.Object) (int, *types.Var) {
	if obj == nil {
		return rootUnknown, nil
	}
	if obj == env.recv {
		return rootRecv, nil
	}
	if i, ok := env.params[obj]; ok {
		return i, nil
	}
	if v, ok := obj.(*types.Var); ok && v.Pkg() != nil && v.Parent() == v.Pkg().Scope() {
		return rootGlobal, v
	}
	if env.lit != nil {
		if v, ok := obj.(*types.Var); ok && !v.IsField() && (obj.Pos() < env.lit.Pos() || obj.Pos() > env.lit.End()) {
			return rootUnknown, nil
		}
	}
	if env.region {
		if v, ok := obj.(*types.Var); ok && !v.IsField() && env.isOuter(obj) {
			i := len(env.objs)
			env.objs = append(env.objs, obj)
			env.params[obj] = i
			return i, nil
		}
	}
	return rootLocal, nil
}

// resolve follows local aliases so that the path is rooted at recv / param /
// global / unknown, or reports a purely local target.
func (env *funcEnv) resolve(ap accessPath) (root int, global *types.Var, steps []pathStep, rootType types.Type) {
	seen := map[types.Object]bool{}
	for {
		r, g := env.classifyRoot(ap.root)
		if r != rootLocal {
			return r, g, ap.steps, ap.root.Type()
		}
		a, ok := env.alias[ap.root]
		if !ok || seen[ap.root] {
			return rootLocal, nil, ap.steps, ap.root.Type()
		}
		seen[ap.root] = true
		// splice: alias path + remaining steps. The local holds a *value* read
		// from a.steps; writing below it is shared only if the local's type is a
		// reference or later steps cross one — sharedFrom() decides with types.
		ns := append([]pathStep{}, a.steps...)
		ap = accessPath{root: a.root, steps: append(ns, ap.steps...), ok: true}
	}
}

// isShared decides whether a store at the end of steps, starting from a root
// of type rootT passed by value, is visible outside the function.
func isShared(rootT types.Type, steps []pathStep, rootIsGlobal bool) bool {
	if rootIsGlobal {
		return true
	}
	t := rootT
	for i, s := range steps {
		if t == nil {
			return true
		}
		switch {
		case s.deref:
			return true
		case s.index:
			switch u := t.Underlying().(type) {
			case *types.Slice, *types.Map, *types.Pointer:
				_ = u
				return true
			case *types.Array:
				t = u.Elem()
				continue
			default:
				return true
			}
		case s.field != nil:
			// selecting a field of a pointer-typed t is a deref
			if _, isPtr := t.Underlying().(*types.Pointer); isPtr {
				return true
			}
			t = s.field.Type()
			_ = i
		}
	}
	return false
}

func (env *funcEnv) addStore(target ast.Expr, kind string, pos token.Pos) {
	ap := accessPathOf(env.info, target)
	if !ap.ok {
		return
	}
	// plain re-assignment of a local/param identifier: not a store to shared state
	root, global, steps, rootT := env.resolve(ap)
	if root == rootLocal {
		return
	}
	if len(steps) == 0 && root != rootGlobal && !env.region {
		return
	}
	// for aliased locals the hop through the local is by value: shared only if
	// the remaining path crosses a reference — approximate by checking the
	// original (unspliced) path against the local's type as well.
	shared := isShared(rootT, steps, root == rootGlobal)
	if origRoot, _ := env.classifyRoot(ap.root); origRoot == rootLocal {
		shared = isShared(ap.root.Type(), ap.steps, false)
	}
	if !shared && !(env.region && root != rootLocal) {
		return
	}
	f := WriteFact{Root: root, Global: global, Kind: kind, Pos: pos, Direct: true, Node: env.curNode, Origin: pos}
	if _, isIncDec := env.curNode.(*ast.IncDecStmt); isIncDec && kind == "store" {
		f.Counter = true
	}
	for _, s := range steps {
		if s.field != nil {
			f.Path = append(f.Path, s.field)
		}
	}
	if n := len(steps); n > 0 && (steps[n-1].index || steps[n-1].deref) {
		f.Elem = true
	}
	if as, ok := env.curNode.(*ast.AssignStmt); ok && kind == "store" && len(as.Lhs) == len(as.Rhs) {
		for i, l := range as.Lhs {
			if l == target && isConstantish(env.info, as.Rhs[i]) {
				f.ConstRHS = true
			}
		}
	}
	env.facts = append(env.facts, f)
}

func (env *funcEnv) recordAlias(lhs ast.Expr, rhs ast.Expr) {
	id, ok := ast.Unparen(lhs).(*ast.Ident)
	if !ok {
		return
	}
	obj := objOf(env.info, id)
	if obj == nil {
		return
	}
	if r, _ := env.classifyRoot(obj); r != rootLocal {
		return
	}
	t := obj.Type()
	if !typeContainsRef(t) {
		return
	}
	ap := accessPathOf(env.info, rhs)
	if !ap.ok {
		return
	}
	r, _, _, _ := env.resolve(ap)
	if r == rootLocal {
		return
	}
	if _, exists := env.alias[obj]; !exists {
		env.alias[obj] = ap
	}
}

func (env *funcEnv) walk(n ast.Node) {
	ast.Inspect(n, func(n ast.Node) bool {
		switch x := n.(type) {
		case *ast.AssignStmt:
			env.curNode = x
			if len(x.Lhs) == len(x.Rhs) {
				for i := range x.Lhs {
					env.recordAlias(x.Lhs[i], x.Rhs[i])
				}
			}
			for i, l := range x.Lhs {
				kind := "store"
				if len(x.Lhs) == len(x.Rhs) {
					if c, ok := ast.Unparen(x.Rhs[i]).(*ast.CallExpr); ok && isBuiltinCall(env.info, c, "append") {
						kind = "append"
					}
				}
				if x.Tok != token.DEFINE {
					env.addStore(l, kind, x.Pos())
				}
			}
		case *ast.IncDecStmt:
			env.curNode = x
			env.addStore(x.X, "store", x.Pos())
		case *ast.RangeStmt:
			// value variable aliases the ranged container's elements
			if x.Value != nil {
				if id, ok := x.Value.(*ast.Ident); ok && x.Tok == token.DEFINE {
					obj := objOf(env.info, id)
					if obj != nil && typeContainsRef(obj.Type()) {
						ap := accessPathOf(env.info, x.X)
						if ap.ok {
							if r, _, _, _ := env.resolve(ap); r != rootLocal {
								ap.steps = append(append([]pathStep{}, ap.steps...), pathStep{index: true})
								env.alias[obj] = ap
							}
						}
					}
				}
			}
		case *ast.CallExpr:
			env.curNode = x
			env.call(x)
		}
		return true
	})
}

var externalWriterPrefixes = []string{"Write", "Set", "Add", "Append", "Push", "Insert", "Reset", "Grow", "Delete", "Remove", "Store", "Truncate", "Unmarshal", "Decode", "Scan", "Read", "Merge", "Put", "Swap", "Fill"}

func (env *funcEnv) call(call *ast.CallExpr) {
	info := env.info
	if isBuiltinCall(info, call, "delete") && len(call.Args) == 2 {
		// delete(m, k): element store on m
		env.addStore(&ast.IndexExpr{X: call.Args[0], Index: call.Args[1]}, "delete", call.Pos())
		return
	}
	if isBuiltinCall(info, call, "copy") && len(call.Args) == 2 {
		env.addStore(&ast.IndexExpr{X: call.Args[0], Index: call.Args[0]}, "store", call.Pos())
		return
	}
	if isBuiltinCall(info, call, "clear") && len(call.Args) == 1 {
		env.addStore(&ast.IndexExpr{X: call.Args[0], Index: call.Args[0]}, "delete", call.Pos())
		return
	}
	if tv, ok := info.Types[call.Fun]; ok && (tv.IsType() || tv.IsBuiltin()) {
		return
	}
	fn := callee(info, call)
	if fn == nil {
		// dynamic call through a func value
		fe := ast.Unparen(call.Fun)
		if _, isLit := fe.(*ast.FuncLit); isLit {
			return // analysed inline
		}
		ap := accessPathOf(info, fe)
		if ap.ok {
			root, _, steps, _ := env.resolve(ap)
			var fields []*types.Var
			for _, sp := range steps {
				if sp.field != nil {
					fields = append(fields, sp.field)
				}
			}
			switch {
			case (root >= 0 || root == rootRecv) && len(fields) == 0:
				return // calling a func-typed parameter (or an element of one): whoever built it accounts for it
			case root == rootLocal && len(fields) == 0:
				return // local closure variable, analysed inline where it is defined
			case len(fields) > 0:
				env.facts = append(env.facts, WriteFact{Root: root, Path: fields, Kind: "calls-field", Pos: call.Pos(), Node: call})
				return
			}
		}
		env.facts = append(env.facts, WriteFact{Root: rootUnknown, Kind: "dynamic:" + exprString(call.Fun), Pos: call.Pos(), Node: call})
		return
	}
	sig := fn.Type().(*types.Signature)
	// interface method: union over cog implementations
	if sig.Recv() != nil {
		if _, isIface := sig.Recv().Type().Underlying().(*types.Interface); isIface {
			impls := env.eng.implementations(fn)
			if len(impls) == 0 {
				env.externalCall(call, fn)
				return
			}
			for _, m := range impls {
				env.translate(call, m, env.eng.EffectsOf(m))
			}
			return
		}
	}
	if fd, _ := env.eng.ctx.DeclOf(fn); fd == nil {
		env.externalCall(call, fn)
		return
	}
	env.translate(call, fn, env.eng.EffectsOf(fn))
}

func (e *effectsEngine) implementations(m *types.Func) []*types.Func {
	if impls, ok := e.impls[m]; ok {
		return impls
	}
	var out []*types.Func
	sig := m.Type().(*types.Signature)
	iface, _ := sig.Recv().Type().Underlying().(*types.Interface)
	if iface != nil && m.Pkg() != nil && strings.HasPrefix(m.Pkg().Path(), modulePath) {
		for _, nt := range e.allNamed {
			if _, isI := nt.Underlying().(*types.Interface); isI {
				continue
			}
			for _, T := range []types.Type{nt, types.NewPointer(nt)} {
				if types.Implements(T, iface) {
					obj, _, _ := types.LookupFieldOrMethod(T, true, m.Pkg(), m.Name())
					if f, ok := obj.(*types.Func); ok {
						out = append(out, f.Origin())
					}
					break
				}
			}
		}
	}
	sort.Slice(out, func(i, j int) bool { return out[i].FullName() < out[j].FullName() })
	e.impls[m] = out
	return out
}

// externalCall: callee has no body in cog.
func (env *funcEnv) externalCall(call *ast.CallExpr, fn *types.Func) {
	sig := fn.Type().(*types.Signature)
	pkgPath := ""
	if fn.Pkg() != nil {
		pkgPath = fn.Pkg().Path()
	}
	name := fn.Name()
	writesArg := -1
	switch {
	case pkgPath == "sort" && sig.Recv() == nil, pkgPath == "slices" && (strings.HasPrefix(name, "Sort") || name == "Reverse"):
		writesArg = 0
	case pkgPath == "fmt" && strings.HasPrefix(name, "Fprint"), pkgPath == "io" && (name == "WriteString" || name == "Copy"):
		writesArg = 0
	case pkgPath == "fmt" && strings.HasPrefix(name, "Print"), pkgPath == "os" && sig.Recv() == nil && (strings.HasPrefix(name, "Write") || strings.HasPrefix(name, "Mkdir") || strings.HasPrefix(name, "Remove") || name == "Setenv" || name == "Chdir"):
		env.facts = append(env.facts, WriteFact{Root: rootUnknown, Kind: "external:" + fn.FullName(), Pos: call.Pos(), Node: call})
		return
	case pkgPath == "encoding/json" && name == "Unmarshal":
		writesArg = 1
	}
	if writesArg >= 0 && writesArg < len(call.Args) {
		env.addStore(&ast.IndexExpr{X: call.Args[writesArg], Index: call.Args[writesArg]}, "external:"+fn.FullName(), call.Pos())
		return
	}
	if sig.Recv() != nil {
		_, ptrRecv := sig.Recv().Type().(*types.Pointer)
		_, ifaceRecv := sig.Recv().Type().Underlying().(*types.Interface)
		if ptrRecv || ifaceRecv {
			for _, p := range externalWriterPrefixes {
				if strings.HasPrefix(name, p) {
					if sel, ok := call.Fun.(*ast.SelectorExpr); ok {
						env.addStore(&ast.StarExpr{X: sel.X}, "external:"+fn.FullName(), call.Pos())
					}
					return
				}
			}
		}
	}
}

// translate maps callee facts to the caller's access paths.
func (env *funcEnv) translate(call *ast.CallExpr, fn *types.Func, facts []WriteFact) {
	if len(facts) == 0 {
		return
	}
	name := env.eng.ctx.FuncName(fn)
	sig := fn.Type().(*types.Signature)
	for _, f := range facts {
		via := name
		if f.Via != "" {
			via = name + " → " + f.Via
		}
		if f.Kind == "calls-field" && f.Root != rootGlobal && f.Root != rootUnknown && f.Root != rootLocal {
			if env.resolveCallsField(call, fn, f, via) {
				continue
			}
		}
		switch f.Root {
		case rootGlobal, rootUnknown, rootLocal:
			nf := f
			nf.Via = via
			nf.Pos = call.Pos()
			nf.Node = call
			nf.Direct = false
			env.facts = append(env.facts, nf)
		default:
			var actual ast.Expr
			if f.Root == rootRecv {
				if sel, ok := call.Fun.(*ast.SelectorExpr); ok {
					actual = sel.X
				}
			} else if f.Root < len(call.Args) {
				actual = call.Args[f.Root]
			} else if sig.Variadic() && len(call.Args) > 0 {
				actual = call.Args[len(call.Args)-1]
			}
			if actual == nil {
				continue
			}
			ap := accessPathOf(env.info, actual)
			if !ap.ok {
				continue // temporary value: fresh
			}
			root, global, steps, _ := env.resolve(ap)
			if root == rootLocal {
				continue
			}
			nf := WriteFact{Root: root, Global: global, Kind: f.Kind, Pos: call.Pos(), Via: via, Elem: f.Elem, Node: call, ConstRHS: f.ConstRHS, ArgRooted: f.ArgRooted, Origin: f.Origin, Counter: f.Counter}
			for _, s := range steps {
				if s.field != nil {
					nf.Path = append(nf.Path, s.field)
				}
			}
			nf.Path = append(nf.Path, f.Path...)
			env.facts = append(env.facts, nf)
		}
	}
}

// ---------------------------------------------------------------------------
// Region effects: the same analysis applied to a statement region inside a
// function (a loop body), with everything declared outside the region treated
// as "outer". Used by the map-order classifier.

type regionFact struct {
	WriteFact
	RootObj types.Object // outer variable at the root (nil for unknown/global)
}

func (e *effectsEngine) RegionFacts(pkg *packages.Package, body ast.Node, isOuter func(types.Object) bool) []regionFact {
	env := &funcEnv{eng: e, info: pkg.TypesInfo, pkg: pkg, params: map[types.Object]int{}, alias: map[types.Object]accessPath{}, region: true, isOuter: isOuter, body: body}
	env.walk(body)
	env.expandCallsFields()
	var out []regionFact
	for _, f := range env.facts {
		rf := regionFact{WriteFact: f}
		if f.Root >= 0 && f.Root < len(env.objs) {
			rf.RootObj = env.objs[f.Root]
		}
		out = append(out, rf)
	}
	return out
}

// actualFor returns the caller expression bound to the callee root r.
func actualFor(call *ast.CallExpr, sig *types.Signature, r int) ast.Expr {
	if r == rootRecv {
		if sel, ok := call.Fun.(*ast.SelectorExpr); ok {
			return sel.X
		}
		return nil
	}
	if r >= 0 && r < len(call.Args) {
		return call.Args[r]
	}
	if r >= 0 && sig.Variadic() && len(call.Args) > 0 {
		return call.Args[len(call.Args)-1]
	}
	return nil
}

// resolveCallsField: the callee calls the func-typed field f.Path of its
// receiver/parameter. If, in the caller, the actual is a local built by a
// composite literal (the Visitor idiom), the field's value is known precisely.
func (env *funcEnv) resolveCallsField(call *ast.CallExpr, fn *types.Func, f WriteFact, via string) bool {
	if len(f.Path) != 1 {
		return false
	}
	actual := actualFor(call, fn.Type().(*types.Signature), f.Root)
	if actual == nil {
		return false
	}
	actual = ast.Unparen(actual)
	if u, ok := actual.(*ast.UnaryExpr); ok && u.Op == token.AND {
		actual = ast.Unparen(u.X)
	}
	var lit *ast.CompositeLit
	switch x := actual.(type) {
	case *ast.CompositeLit:
		lit = x
	case *ast.Ident:
		lit = env.literalOf(objOf(env.info, x))
	}
	if lit == nil {
		return false
	}
	for _, el := range lit.Elts {
		kv, ok := el.(*ast.KeyValueExpr)
		if !ok {
			return false
		}
		kid, _ := kv.Key.(*ast.Ident)
		if kid == nil {
			continue
		}
		if fv, ok := env.info.Uses[kid].(*types.Var); !ok || fv.Origin() != f.Path[0] {
			continue
		}
		env.applyFuncValue(kv.Value, call.Pos(), via+" → "+f.Path[0].Name())
		return true
	}
	return true // field not set in the literal: nil callback, never called
}

// literalOf finds `x := T{...}` / `x := &T{...}` for a local x in the function
// currently analysed.
func (env *funcEnv) literalOf(obj types.Object) *ast.CompositeLit {
	if obj == nil || env.body == nil {
		return nil
	}
	var lit *ast.CompositeLit
	n := 0
	ast.Inspect(env.body, func(node ast.Node) bool {
		as, ok := node.(*ast.AssignStmt)
		if !ok || len(as.Lhs) != len(as.Rhs) {
			return true
		}
		for i, l := range as.Lhs {
			if id, ok := l.(*ast.Ident); ok && objOf(env.info, id) == obj {
				n++
				r := ast.Unparen(as.Rhs[i])
				if u, ok := r.(*ast.UnaryExpr); ok && u.Op == token.AND {
					r = ast.Unparen(u.X)
				}
				if cl, ok := r.(*ast.CompositeLit); ok {
					lit = cl
				}
			}
		}
		return true
	})
	if n != 1 {
		return nil
	}
	return lit
}

// applyFuncValue adds the effects of calling the function value v (a method
// value, a function, or a func literal that is analysed inline anyway).
func (env *funcEnv) applyFuncValue(v ast.Expr, pos token.Pos, via string) {
	v = ast.Unparen(v)
	switch x := v.(type) {
	case *ast.FuncLit:
		return // inline
	case *ast.SelectorExpr:
		if sel := env.info.Selections[x]; sel != nil && sel.Kind() == types.MethodVal {
			m, _ := sel.Obj().(*types.Func)
			if m == nil {
				return
			}
			env.translateValue(m.Origin(), x.X, pos, via)
			return
		}
		if fnObj, ok := env.info.Uses[x.Sel].(*types.Func); ok {
			env.translateValue(fnObj.Origin(), nil, pos, via)
			return
		}
	case *ast.Ident:
		if fnObj, ok := env.info.Uses[x].(*types.Func); ok {
			env.translateValue(fnObj.Origin(), nil, pos, via)
			return
		}
		if isNilIdent(env.info, x) {
			return
		}
	}
	env.facts = append(env.facts, WriteFact{Root: rootUnknown, Kind: "dynamic:" + exprString(v), Pos: pos, Via: via})
}

// translateValue: effects of invoking fn with receiver expression recv (may be
// nil) and unknown arguments (supplied by the code that calls the value).
func (env *funcEnv) translateValue(fn *types.Func, recv ast.Expr, pos token.Pos, via string) {
	name := env.eng.ctx.FuncName(fn)
	for _, f := range env.eng.EffectsOf(fn) {
		nf := f
		nf.Pos = pos
		nf.Direct = false
		nf.Node = nil
		if f.Via != "" {
			nf.Via = via + " → " + name + " → " + f.Via
		} else {
			nf.Via = via + " → " + name
		}
		switch {
		case f.Root == rootRecv && recv != nil:
			ap := accessPathOf(env.info, recv)
			if !ap.ok {
				continue
			}
			root, global, steps, _ := env.resolve(ap)
			if root == rootLocal {
				continue
			}
			nf.Root, nf.Global = root, global
			var path []*types.Var
			for _, sp := range steps {
				if sp.field != nil {
					path = append(path, sp.field)
				}
			}
			nf.Path = append(path, f.Path...)
		case f.Root >= 0:
			// written through an argument supplied by whoever invokes the value
			nf.Root = rootUnknown
			nf.ArgRooted = true
		}
		env.facts = append(env.facts, nf)
	}
}

// FieldFuncValues: every function value assigned to the func-typed field f
// anywhere in cog (composite literals and assignments).
type funcValue struct {
	pkg  *packages.Package
	expr ast.Expr
}

func (e *effectsEngine) fieldFuncValues(f *types.Var) []funcValue {
	if e.fieldVals == nil {
		e.fieldVals = map[*types.Var][]funcValue{}
		for _, p := range e.ctx.Pkgs {
			info := p.TypesInfo
			for _, file := range p.Syntax {
				ast.Inspect(file, func(n ast.Node) bool {
					switch x := n.(type) {
					case *ast.KeyValueExpr:
						if id, ok := x.Key.(*ast.Ident); ok {
							if fv, ok := info.Uses[id].(*types.Var); ok && fv.IsField() {
								if _, isFn := fv.Type().Underlying().(*types.Signature); isFn {
									e.fieldVals[fv.Origin()] = append(e.fieldVals[fv.Origin()], funcValue{p, x.Value})
								}
							}
						}
					case *ast.AssignStmt:
						if len(x.Lhs) == len(x.Rhs) {
							for i, l := range x.Lhs {
								if fv := fieldOf(info, l); fv != nil {
									if _, isFn := fv.Type().Underlying().(*types.Signature); isFn {
										e.fieldVals[fv] = append(e.fieldVals[fv], funcValue{p, x.Rhs[i]})
									}
								}
							}
						}
					}
					return true
				})
			}
		}
	}
	return e.fieldVals[f]
}

// FieldCallEffects: union of the effects of every function value that can be
// stored in field f (a class-hierarchy style resolution for func-typed fields).
// Effects on captured variables and on arguments are reported with an unknown root.
func (e *effectsEngine) FieldCallEffects(f *types.Var) ([]WriteFact, bool) {
	return e.fieldCallEffects(f, nil)
}

// fieldCallEffects: skipWithin, when set, names a region already analysed inline;
// func literals located inside it are not analysed a second time.
func (e *effectsEngine) fieldCallEffects(f *types.Var, skipWithin ast.Node) ([]WriteFact, bool) {
	if facts, ok := e.fieldMemo[f]; ok && skipWithin == nil {
		return facts, true
	}
	if e.fieldMemo == nil {
		e.fieldMemo = map[*types.Var][]WriteFact{}
	}
	e.fieldMemo[f] = nil
	vals := e.fieldFuncValues(f)
	if len(vals) == 0 {
		return nil, false
	}
	var out []WriteFact
	for _, v := range vals {
		expr := ast.Unparen(v.expr)
		if isNilIdent(v.pkg.TypesInfo, expr) {
			continue
		}
		if skipWithin != nil && containsNode(skipWithin, expr) {
			if _, isLit := expr.(*ast.FuncLit); isLit {
				continue
			}
		}
		env := &funcEnv{eng: e, info: v.pkg.TypesInfo, pkg: v.pkg, params: map[types.Object]int{}, alias: map[types.Object]accessPath{}}
		if lit, ok := expr.(*ast.FuncLit); ok {
			env.lit = lit
			env.body = lit.Body
			i := 0
			for _, fl := range lit.Type.Params.List {
				for _, nm := range fl.Names {
					env.params[v.pkg.TypesInfo.Defs[nm]] = i
					i++
				}
				if len(fl.Names) == 0 {
					i++
				}
			}
			env.walk(lit.Body)
		} else {
			env.applyFuncValue(expr, expr.Pos(), "")
		}
		for _, wf := range env.facts {
			if wf.Root >= 0 || wf.Root == rootRecv {
				wf.Root = rootUnknown
				wf.ArgRooted = true
			}
			if wf.Kind == "calls-field" {
				if sub, ok := e.FieldCallEffects(wf.Final()); ok {
					out = append(out, sub...)
					continue
				}
				wf.Kind = "dynamic:field " + wf.Final().Name()
			}
			wf.Via = "value of field " + f.Name() + " → " + wf.Via
			out = append(out, wf)
		}
	}
	out = dedupFacts(out)
	if skipWithin == nil {
		e.fieldMemo[f] = out
	}
	return out, true
}

// expandCallsFields resolves remaining calls-field facts by the field's
// points-to set (all function values stored into that field in cog).
func (env *funcEnv) expandCallsFields() {
	var out []WriteFact
	for _, f := range env.facts {
		if f.Kind != "calls-field" {
			out = append(out, f)
			continue
		}
		sub, ok := env.eng.fieldCallEffects(f.Final(), env.body)
		if !ok {
			f.Kind = "dynamic:field " + f.Final().Name()
			f.Root = rootUnknown
			out = append(out, f)
			continue
		}
		for _, sf := range sub {
			sf.Pos = f.Pos
			sf.Node = f.Node
			sf.Direct = false
			out = append(out, sf)
		}
	}
	env.facts = out
}

// LitEffects analyses a func literal as a function of its own parameters:
// stores visible through a parameter keep that parameter as root; stores to
// captured variables are reported with an unknown root.
func (e *effectsEngine) LitEffects(pkg *packages.Package, lit *ast.FuncLit) ([]WriteFact, []types.Object) {
	env := &funcEnv{eng: e, info: pkg.TypesInfo, pkg: pkg, params: map[types.Object]int{}, alias: map[types.Object]accessPath{}, lit: lit, body: lit.Body}
	var params []types.Object
	i := 0
	for _, fl := range lit.Type.Params.List {
		if len(fl.Names) == 0 {
			i++
			params = append(params, nil)
			continue
		}
		for _, nm := range fl.Names {
			o := pkg.TypesInfo.Defs[nm]
			env.params[o] = i
			params = append(params, o)
			i++
		}
	}
	env.walk(lit.Body)
	return dedupFacts(env.facts), params
}
