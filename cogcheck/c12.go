package main

// C12 — emitted JSON Schema / OpenAPI describe the same documents as the generated types.

import (
	"fmt"
	"go/ast"
	"go/constant"
	"go/token"
	"go/types"
	"sort"
	"strings"

	"golang.org/x/tools/go/packages"
)

func init() { register("C12", checkC12) }

// Schema-object keywords of OpenAPI 3.0.x (the dialect the OpenAPI jenny declares: "openapi": "3.0.0").
var oas30Keywords = map[string]bool{"title": true, "multipleOf": true, "maximum": true, "exclusiveMaximum": true, "minimum": true, "exclusiveMinimum": true,
	"maxLength": true, "minLength": true, "pattern": true, "maxItems": true, "minItems": true, "uniqueItems": true, "maxProperties": true, "minProperties": true,
	"required": true, "enum": true, "type": true, "allOf": true, "oneOf": true, "anyOf": true, "not": true, "items": true, "properties": true,
	"additionalProperties": true, "description": true, "format": true, "default": true, "nullable": true, "discriminator": true, "readOnly": true,
	"writeOnly": true, "xml": true, "externalDocs": true, "example": true, "deprecated": true, "$ref": true}

// keywords whose value has another type in OpenAPI 3.0 than in JSON Schema draft-07
var oas30BooleanKeywords = map[string]bool{"exclusiveMaximum": true, "exclusiveMinimum": true}

// JSON Schema draft-07 vocabulary
var draft07Keywords = map[string]bool{"$schema": true, "$id": true, "$ref": true, "$comment": true, "title": true, "description": true, "default": true, "readOnly": true,
	"examples": true, "multipleOf": true, "maximum": true, "exclusiveMaximum": true, "minimum": true, "exclusiveMinimum": true, "maxLength": true, "minLength": true,
	"pattern": true, "additionalItems": true, "items": true, "maxItems": true, "minItems": true, "uniqueItems": true, "contains": true, "maxProperties": true,
	"minProperties": true, "required": true, "additionalProperties": true, "definitions": true, "properties": true, "patternProperties": true, "dependencies": true,
	"propertyNames": true, "const": true, "enum": true, "type": true, "format": true, "contentMediaType": true, "contentEncoding": true, "if": true, "then": true,
	"else": true, "allOf": true, "anyOf": true, "oneOf": true, "not": true}

func checkC12(ctx *Ctx, r *Report) {
	r.Explanation = "Generator-side necessary conditions decided on the JSON Schema jenny (the OpenAPI jenny wraps its `definitions`): (1) formatType/formatScalar handle every kind the jsonschema/openapi pass chains leave in place — a kind falling through yields the empty schema `{}` and loses names, constraints and constants; (2) dialect: every keyword the shared jenny writes belongs to JSON Schema draft-07 AND to OpenAPI 3.0, with the same value type (the OpenAPI jenny declares 3.0.0); (3) `$ref` closure: formatRef enqueues the referred foreign object whenever the reference is foreign and resolvable, the closure loop runs until the queue is empty and formats each queued object through formatType on every path (no memoised shortcut); (4) struct skeleton: the property key is field.Name itself, `required` is appended exactly under field.Required, `default` is set exactly under Default != nil with that very value; (5) the Nullable flag of a type is reflected in the emitted schema; an `any` scalar does not constrain `type`; a schema derived from a map's index type is only emitted under a positive string-kind test; (6) every constraint operator a parser can produce is translated; (7) union branches: all of them, each formatted afresh; (8) references go through the reference formatter; (9) cog's own OpenAPI front-end accepts an enum written the way formatEnum writes it; (10) the key of an inlined foreign definition and the text of the references to it come from one function of the whole reference, which can return a package-qualified name; (11) every wrapper struct DisjunctionToType creates for a union carries one of the two hints the Go marshaller is generated from; (12) value keywords are not written beside $ref."
	r.NotCovered = "validity of whole documents for independent loaders, that every encoded Go value validates (decided only for the nullable / any clauses above), comments, formats other than date-time."
	r.Assumptions = []string{"OpenAPI 3.0 schema-object vocabulary and JSON Schema draft-07 vocabulary as tabulated in c12.go"}
	r.Exhaustive = true

	p := ctx.Pkg("internal/jennies/jsonschema")
	if p == nil {
		r.Undecided("package internal/jennies/jsonschema not found")
		return
	}
	c12Dispatch(ctx, r, p)
	c12Keywords(ctx, r, p)
	c12Closure(ctx, r, p)
	c12StructSkeleton(ctx, r, p)
	c12NullableAnyIndex(ctx, r, p)
	c12Operators(ctx, r, p)
	c12UnionAndConst(ctx, r, p)
	c12RefsFreshBranches(ctx, r, p)
	c12EnumRoundTrip(ctx, r, p)
	c12DefinitionKeys(ctx, r, p)
	c12UnionWrapperClassified(ctx, r)
	c12NoSiblingsOfRef(ctx, r, p)
	c12FourthRound(ctx, r, p)
	c12FifthRound(ctx, r, p)
	c12SixthRound(ctx, r)
	c12SeventhRound(ctx, r)
	c08UnionReuseComparesBranches(ctx, r) // two unions that differ by the value type of a map branch share one Go wrapper
	c01GoNamedDateTimeIsAlias(ctx, r)     // a named date-time encodes as {}
	c12ConstructorCollections(ctx, r)
	c12NumericKeywordsRead(ctx, r)
	c12CollectionDefaultsRead(ctx, r)
	c12CueNestedEmptyCollections(ctx, r)
	c12GoRequiredUnionInitialised(ctx, r)
}

func c12Method(p *packages.Package, name string) *ast.FuncDecl {
	for _, f := range p.Syntax {
		for _, d := range f.Decls {
			if fd, ok := d.(*ast.FuncDecl); ok && fd.Name.Name == name && fd.Recv != nil && fd.Body != nil {
				return fd
			}
		}
	}
	return nil
}

// (1) kind dispatch
func c12Dispatch(ctx *Ctx, r *Report, p *packages.Package) {
	info := p.TypesInfo
	for _, spec := range []struct{ fn, domain string }{{"formatType", "Kind"}, {"formatScalar", "ScalarKind"}} {
		fd := c12Method(p, spec.fn)
		if fd == nil {
			r.Undecided("anchor lost: jsonschema.Schema.%s", spec.fn)
			continue
		}
		consts := kindConsts(ctx, spec.domain)
		var sw *ast.SwitchStmt
		ast.Inspect(fd.Body, func(n ast.Node) bool {
			if s, ok := n.(*ast.SwitchStmt); ok && s.Tag != nil && sw == nil {
				if t := info.TypeOf(s.Tag); t != nil && strings.HasSuffix(t.String(), "."+spec.domain) {
					sw = s
				}
			}
			return true
		})
		if sw == nil {
			r.Undecided("anchor changed: jsonschema.Schema.%s has no switch on %s", spec.fn, spec.domain)
			continue
		}
		handled := map[string]bool{}
		for _, cc := range sw.Body.List {
			for _, e := range cc.(*ast.CaseClause).List {
				ast.Inspect(e, func(k ast.Node) bool {
					if id, ok := k.(*ast.Ident); ok {
						if v, ok := consts[info.Uses[id]]; ok {
							handled[v] = true
						}
					}
					return true
				})
			}
		}
		var all []string
		for _, v := range consts {
			all = append(all, v)
		}
		sort.Strings(all)
		for _, k := range all {
			r.Check(handled[k], "kinds/dispatch-total", "jsonschema."+spec.fn+" kind="+k, sw.Pos(), "handled",
				fmt.Sprintf("jsonschema.Schema.%s has no case for %s %q: the emitted fragment is the empty schema {} — the JSON Schema and OpenAPI pass chains remove no kind, so names, constants and constraints below such a value are lost", spec.fn, spec.domain, k))
		}
	}
}

// (2) keyword dialects
func c12Keywords(ctx *Ctx, r *Report, p *packages.Package) {
	info := p.TypesInfo
	n := 0
	seen := map[string]bool{}
	for _, f := range p.Syntax {
		for _, d := range f.Decls {
			fd, ok := d.(*ast.FuncDecl)
			if !ok || fd.Body == nil {
				continue
			}
			ast.Inspect(fd.Body, func(m ast.Node) bool {
				c, ok := m.(*ast.CallExpr)
				if !ok || len(c.Args) != 2 {
					return true
				}
				fn := callee(info, c)
				if fn == nil || fn.Name() != "Set" || fn.Pkg() == nil || fn.Pkg().Path() != omapPkgPath {
					return true
				}
				lit, ok := c.Args[0].(*ast.BasicLit)
				if !ok || lit.Kind != token.STRING {
					return true
				}
				kw := strings.Trim(lit.Value, "\"")
				// top-level document keys of the JSON Schema file are not schema keywords of the shared definitions
				if fd.Name.Name == "GenerateSchema" {
					return true
				}
				n++
				cons := fmt.Sprintf("jsonschema.%s sets %q", fd.Name.Name, kw)
				if kw == "type" {
					if v, ok := c.Args[1].(*ast.BasicLit); ok {
						cons += " = " + strings.Trim(v.Value, "\"")
					}
				}
				if seen[cons] {
					return true
				}
				seen[cons] = true
				bad := ""
				switch {
				case !draft07Keywords[kw]:
					bad = "is not a JSON Schema draft-07 keyword"
				case !oas30Keywords[kw]:
					bad = "is not a schema keyword of OpenAPI 3.0 (the OpenAPI jenny emits the same definitions under \"openapi\": \"3.0.0\")"
				case oas30BooleanKeywords[kw]:
					if t := info.TypeOf(c.Args[1]); t == nil || t.String() != "bool" {
						bad = "takes a number here (draft-07) but is a boolean modifier of minimum/maximum in OpenAPI 3.0"
					}
				case kw == "type":
					if v, ok := c.Args[1].(*ast.BasicLit); ok && strings.Trim(v.Value, "\"") == "null" {
						bad = "\"null\" is not a type of OpenAPI 3.0 (it uses nullable: true)"
					}
				}
				r.Check(bad == "", "keywords/dialect", cons, c.Pos(), "valid in JSON Schema draft-07 and in OpenAPI 3.0",
					fmt.Sprintf("the keyword %q written by jsonschema.Schema.%s %s: the document of that kind is rejected by loaders of that kind (cog's own front-end included)", kw, fd.Name.Name, bad))
				return true
			})
		}
	}
	r.Count("keywords written by the JSON Schema jenny", n)
	r.Floor("keywords written by the JSON Schema jenny", 25)
}

// (3) $ref closure
func c12Closure(ctx *Ctx, r *Report, p *packages.Package) {
	info := p.TypesInfo
	// formatRef: `if isForeignReference(ref) { obj, found := referenceResolver(ref); if found { foreignObjects.Set(…) } }`
	fd := c12Method(p, "formatRef")
	if fd == nil {
		r.Undecided("anchor lost: jsonschema.Schema.formatRef")
		return
	}
	parents := parentMap(fd)
	var setCall *ast.CallExpr
	ast.Inspect(fd.Body, func(n ast.Node) bool {
		if c, ok := n.(*ast.CallExpr); ok {
			if sel, ok := c.Fun.(*ast.SelectorExpr); ok && sel.Sel.Name == "Set" && strings.Contains(exprString(sel.X), "foreignObjects") {
				setCall = c
			}
		}
		return true
	})
	okEnqueue := false
	why := "formatRef no longer enqueues the referred object"
	if setCall != nil {
		conds := enclosingConds(parents, setCall)
		okEnqueue = true
		for _, c := range conds {
			cs := exprString(c.stmt.Cond)
			if c.inElse || !(cs == "found" || strings.Contains(cs, "isForeignReference(")) {
				okEnqueue = false
				why = "the referred object is enqueued under the extra condition `" + cs + "`"
			}
		}
	}
	r.Check(okEnqueue, "closure/ref-enqueued", "jsonschema.formatRef enqueues foreign objects", fd.Pos(), "enqueued whenever the reference is foreign and resolves",
		why+": a `$ref` to an object of another package is emitted without its definition — the reference does not resolve")
	// closure loop in GenerateSchema
	gs := c12Method(p, "GenerateSchema")
	if gs == nil {
		r.Undecided("anchor lost: jsonschema.Schema.GenerateSchema")
		return
	}
	var loop *ast.ForStmt
	ast.Inspect(gs.Body, func(n ast.Node) bool {
		if f, ok := n.(*ast.ForStmt); ok && loop == nil {
			loop = f
		}
		return true
	})
	okLoop := false
	var formatter *types.Func
	if loop != nil {
		// leaves only when the queue is empty
		exits := 0
		emptyExit := false
		ast.Inspect(loop.Body, func(n ast.Node) bool {
			if _, ok := n.(*ast.FuncLit); ok {
				return false
			}
			if b, ok := n.(*ast.BranchStmt); ok && b.Tok == token.BREAK {
				exits++
				for _, c := range enclosingConds(parentMap(gs), b) {
					if strings.Contains(exprString(c.stmt.Cond), "foreignObjects.Len() == 0") {
						emptyExit = true
					}
				}
			}
			if _, ok := n.(*ast.ReturnStmt); ok {
				exits++
			}
			return true
		})
		condOK := loop.Cond == nil || strings.Contains(exprString(loop.Cond), "foreignObjects.Len()")
		okLoop = condOK && (loop.Cond != nil || (exits == 1 && emptyExit))
		// what formats a queued object
		ast.Inspect(loop.Body, func(n ast.Node) bool {
			c, ok := n.(*ast.CallExpr)
			if !ok || len(c.Args) != 2 {
				return true
			}
			if sel, ok := c.Fun.(*ast.SelectorExpr); ok && sel.Sel.Name == "Set" && strings.Contains(exprString(sel.X), "definitions") {
				if inner, ok := ast.Unparen(c.Args[1]).(*ast.CallExpr); ok {
					formatter = callee(info, inner)
				}
			}
			return true
		})
	}
	r.Check(okLoop, "closure/until-empty", "jsonschema.GenerateSchema closure loop", gs.Pos(), "the loop only ends when no foreign object is queued",
		"the loop that inlines foreign objects can end while objects are still queued: definitions referred to by inlined objects are missing")
	// the formatter reaches formatType on every path
	okFmt, whyFmt := false, "no call formats the queued object"
	if formatter != nil {
		okFmt, whyFmt = c12ReachesFormatType(ctx, p, formatter, 0)
	}
	r.Check(okFmt, "closure/formats-every-time", "jsonschema.GenerateSchema formats queued objects", gs.Pos(), "each queued object goes through formatType (which queues what it refers to)",
		"a queued foreign object can be turned into a definition without going through formatType ("+whyFmt+"): the references it holds are not queued and their definitions are missing from the document")
}

// c12ReachesFormatType: every path of fn calls formatType / objectToDefinition before returning.
func c12ReachesFormatType(ctx *Ctx, p *packages.Package, fn *types.Func, depth int) (bool, string) {
	if fn.Name() == "formatType" {
		return true, ""
	}
	if depth > 3 {
		return false, "call chain too deep"
	}
	var fd *ast.FuncDecl
	for _, f := range p.Syntax {
		for _, d := range f.Decls {
			if x, ok := d.(*ast.FuncDecl); ok && p.TypesInfo.Defs[x.Name] == fn {
				fd = x
			}
		}
	}
	if fd == nil || fd.Body == nil {
		return false, fn.Name() + " is not a function of the jenny"
	}
	// a top-level statement calls a function that reaches formatType, and no return precedes it
	for _, st := range fd.Body.List {
		reached := false
		ast.Inspect(st, func(n ast.Node) bool {
			if c, ok := n.(*ast.CallExpr); ok {
				if f2 := callee(p.TypesInfo, c); f2 != nil && f2 != fn && f2.Pkg() == fn.Pkg() {
					if ok, _ := c12ReachesFormatType(ctx, p, f2, depth+1); ok {
						reached = true
					}
				}
			}
			return true
		})
		if _, isIf := st.(*ast.IfStmt); isIf && !reached {
			// a conditional before the formatting call: it must not return
			returns := false
			ast.Inspect(st, func(n ast.Node) bool {
				if _, ok := n.(*ast.ReturnStmt); ok {
					returns = true
				}
				return true
			})
			if returns {
				return false, fn.Name() + " can return before formatting (" + ctx.Pos(st.Pos()) + ")"
			}
			continue
		}
		if _, isIf := st.(*ast.IfStmt); isIf && reached {
			continue // formatting under a condition only: keep looking for an unconditional one
		}
		if reached {
			return true, ""
		}
		if _, ok := st.(*ast.ReturnStmt); ok {
			return false, fn.Name() + " returns without formatting"
		}
	}
	return false, fn.Name() + " does not format on every path"
}

// (4) struct skeleton
func c12StructSkeleton(ctx *Ctx, r *Report, p *packages.Package) {
	info := p.TypesInfo
	fd := c12Method(p, "formatStruct")
	if fd == nil {
		r.Undecided("anchor lost: jsonschema.Schema.formatStruct")
		return
	}
	parents := parentMap(fd)
	nameF := astField(ctx, "StructField", "Name")
	requiredF := astField(ctx, "StructField", "Required")
	defaultF := astField(ctx, "Type", "Default")
	okName, okReq, okDef := false, false, false
	whyReq, whyDef := "`required` is no longer filled", "`default` is no longer emitted"
	ast.Inspect(fd.Body, func(n ast.Node) bool {
		switch x := n.(type) {
		case *ast.CallExpr:
			sel, ok := x.Fun.(*ast.SelectorExpr)
			if !ok || sel.Sel.Name != "Set" || len(x.Args) != 2 {
				return true
			}
			if strings.Contains(exprString(sel.X), "properties") {
				if s, ok := ast.Unparen(x.Args[0]).(*ast.SelectorExpr); ok && fieldOf(info, s) == nameF {
					okName = true
				}
			}
			if lit, ok := x.Args[0].(*ast.BasicLit); ok && lit.Value == `"default"` {
				conds := enclosingConds(parents, x)
				valOK := false
				if s, ok := ast.Unparen(x.Args[1]).(*ast.SelectorExpr); ok && fieldOf(info, s) == defaultF {
					valOK = true
				}
				condOK := len(conds) == 1 && !conds[0].inElse
				if condOK {
					be, ok := ast.Unparen(conds[0].stmt.Cond).(*ast.BinaryExpr)
					condOK = ok && be.Op == token.NEQ && isNilIdent(info, be.Y)
					if condOK {
						s, ok := ast.Unparen(be.X).(*ast.SelectorExpr)
						condOK = ok && fieldOf(info, s) == defaultF
					}
				}
				okDef = valOK && condOK
				if !condOK {
					whyDef = "`default` is emitted under another condition than `<field>.Type.Default != nil`: some declared defaults (false, 0, \"\") are dropped, or null defaults are emitted"
				} else if !valOK {
					whyDef = "the value emitted as `default` is not the field's Default itself"
				}
			}
		case *ast.AssignStmt:
			// required = append(required, field.Name)
			if len(x.Lhs) == 1 && len(x.Rhs) == 1 && strings.Contains(exprString(x.Lhs[0]), "required") {
				if c, ok := x.Rhs[0].(*ast.CallExpr); ok {
					if id, ok := c.Fun.(*ast.Ident); ok && id.Name == "append" && len(c.Args) == 2 {
						conds := enclosingConds(parents, x)
						condOK := len(conds) == 1 && !conds[0].inElse
						if condOK {
							s, ok := ast.Unparen(conds[0].stmt.Cond).(*ast.SelectorExpr)
							condOK = ok && fieldOf(info, s) == requiredF
						}
						valOK := false
						if s, ok := ast.Unparen(c.Args[1]).(*ast.SelectorExpr); ok && fieldOf(info, s) == nameF {
							valOK = true
						}
						okReq = condOK && valOK
						if !condOK {
							whyReq = "a field is listed in `required` under another condition than `field.Required`"
						}
					}
				}
			}
		}
		return true
	})
	r.Check(okName, "skeleton/schema-struct", "jsonschema.formatStruct property key", fd.Pos(), "the property key is field.Name itself", "the key under `properties` is no longer field.Name itself: fields do not appear under their own name")
	r.Check(okReq, "skeleton/schema-struct", "jsonschema.formatStruct required", fd.Pos(), "field.Name is appended to `required` exactly under field.Required", whyReq+": required-ness is not carried over unchanged")
	r.Check(okDef, "skeleton/schema-struct", "jsonschema.formatStruct default", fd.Pos(), "`default` is the field's Default, emitted exactly when it is not nil", whyDef)
}

// (5) nullable, any, index types
func c12NullableAnyIndex(ctx *Ctx, r *Report, p *packages.Package) {
	info := p.TypesInfo
	nullableF := astField(ctx, "Type", "Nullable")
	reads := token.NoPos
	for _, f := range p.Syntax {
		ast.Inspect(f, func(n ast.Node) bool {
			if s, ok := n.(*ast.SelectorExpr); ok && fieldOf(info, s) == nullableF {
				reads = s.Pos()
			}
			return true
		})
	}
	ft := c12Method(p, "formatType")
	pos := token.NoPos
	if ft != nil {
		pos = ft.Pos()
	}
	r.Check(reads != token.NoPos, "flow/nullable-emitted", "jsonschema jenny reads Type.Nullable", pos, "the Nullable flag takes part in the emitted schema",
		"no function of the JSON Schema jenny reads Type.Nullable: its own pass chain turns `T | null` into a nullable T (DisjunctionWithNullToOptional) and the null alternative then disappears from the emitted schema, although the generated Go type (*T, no omitempty when required) encodes null")
	// any: no "type" keyword
	fs := c12Method(p, "formatScalar")
	if fs == nil {
		return
	}
	var anyClause *ast.CaseClause
	ast.Inspect(fs.Body, func(n ast.Node) bool {
		if cc, ok := n.(*ast.CaseClause); ok {
			for _, e := range cc.List {
				if strings.HasSuffix(exprString(e), "KindAny") {
					anyClause = cc
				}
			}
		}
		return true
	})
	if anyClause == nil {
		r.Undecided("anchor changed: jsonschema.formatScalar has no case for KindAny")
	} else {
		setsType := false
		for _, st := range anyClause.Body {
			ast.Inspect(st, func(n ast.Node) bool {
				if c, ok := n.(*ast.CallExpr); ok && len(c.Args) == 2 {
					if lit, ok := c.Args[0].(*ast.BasicLit); ok && lit.Value == `"type"` {
						setsType = true
					}
				}
				return true
			})
		}
		r.Check(!setsType, "keywords/any-unconstrained", "jsonschema.formatScalar any", anyClause.Pos(), "`any` does not constrain the JSON type",
			"the `any` scalar is emitted with a \"type\" keyword: the generated Go field is declared `any` and encodes strings, numbers, booleans and arrays, which the emitted schema then rejects")
	}
	// index types
	n := 0
	for _, f := range p.Syntax {
		for _, d := range f.Decls {
			fd, ok := d.(*ast.FuncDecl)
			if !ok || fd.Body == nil {
				continue
			}
			parents := parentMap(fd)
			tainted := map[types.Object]bool{}
			ast.Inspect(fd.Body, func(m ast.Node) bool {
				if as, ok := m.(*ast.AssignStmt); ok && len(as.Lhs) == 1 && len(as.Rhs) == 1 && strings.HasSuffix(exprString(as.Rhs[0]), ".IndexType") {
					if id, ok := as.Lhs[0].(*ast.Ident); ok {
						tainted[objOf(info, id)] = true
					}
				}
				return true
			})
			ast.Inspect(fd.Body, func(m ast.Node) bool {
				c, ok := m.(*ast.CallExpr)
				if !ok {
					return true
				}
				fn := callee(info, c)
				if fn == nil || !strings.HasPrefix(fn.Name(), "format") || fn.Pkg() != p.Types {
					return true
				}
				for _, a := range c.Args {
					isIndex := strings.HasSuffix(exprString(a), ".IndexType")
					if id, ok := ast.Unparen(a).(*ast.Ident); ok && tainted[objOf(info, id)] {
						isIndex = true
					}
					if !isIndex {
						continue
					}
					n++
					positive := false
					for _, ce := range enclosingConds(parents, c) {
						cs := exprString(ce.stmt.Cond)
						if !ce.inElse && strings.Contains(cs, "== ast.KindString") && !strings.Contains(cs, "||") {
							positive = true
						}
					}
					r.Check(positive, "keywords/index-type-string-only", fmt.Sprintf("jsonschema.%s formats a map's index type", fd.Name.Name), c.Pos(), "only under a positive string-kind test",
						"a schema derived from Map.IndexType is emitted without establishing that the index is string-kinded: JSON object keys are strings (encoding/json writes integer keys as \"80\"), so every non-empty map value of the generated type fails validation")
				}
				return true
			})
		}
	}
	r.Count("schemas derived from a map's index type", n)
}

// (6) constraint operators
func c12Operators(ctx *Ctx, r *Report, p *packages.Package) {
	info := p.TypesInfo
	opT := ctx.LookupType("internal/ast", "Op")
	astPkg := ctx.Pkg("internal/ast")
	opValue := map[types.Object]string{}
	for _, n := range astPkg.Types.Scope().Names() {
		if c, ok := astPkg.Types.Scope().Lookup(n).(*types.Const); ok && types.Identical(c.Type(), opT) {
			opValue[c] = strings.Trim(c.Val().ExactString(), "\"")
		}
	}
	produced := map[string]bool{}
	for _, rel := range []string{"internal/jsonschema", "internal/openapi", "internal/simplecue"} {
		pp := ctx.Pkg(rel)
		if pp == nil {
			continue
		}
		for _, f := range pp.Syntax {
			ast.Inspect(f, func(n ast.Node) bool {
				if id, ok := n.(*ast.Ident); ok {
					if v, ok := opValue[pp.TypesInfo.Uses[id]]; ok {
						produced[v] = true
					}
				}
				return true
			})
		}
	}
	handled := map[string]bool{}
	for _, name := range []string{"addStringConstraints", "addNumberConstraints"} {
		fd := c12Method(p, name)
		if fd == nil {
			r.Undecided("anchor lost: jsonschema.Schema.%s", name)
			continue
		}
		ast.Inspect(fd.Body, func(n ast.Node) bool {
			if cc, ok := n.(*ast.CaseClause); ok {
				for _, e := range cc.List {
					ast.Inspect(e, func(k ast.Node) bool {
						if id, ok := k.(*ast.Ident); ok {
							if v, ok := opValue[info.Uses[id]]; ok {
								handled[v] = true
							}
						}
						return true
					})
				}
			}
			return true
		})
	}
	var ops []string
	for o := range produced {
		ops = append(ops, o)
	}
	sort.Strings(ops)
	if len(ops) < 6 {
		r.Undecided("anchor lost: fewer than 6 constraint operators found in the parsers (%v)", ops)
	}
	for _, o := range ops {
		if o == "==" && !handled[o] {
			r.OK("kinds/operator-table", "jsonschema jenny translates "+o, token.NoPos, "reviewed: EqualOp is only produced by the CUE front-end when unification already yields a concrete value (`#T & \"v\"`), which reaches the jennies as a constant or a constant reference, not as a constraint on an open scalar (no input found that makes == reach addStringConstraints)")
			continue
		}
		r.Check(handled[o], "kinds/operator-table", "jsonschema jenny translates "+o, token.NoPos, "translated into a keyword",
			fmt.Sprintf("the constraint operator %q (produced by a front-end) has no case in addStringConstraints/addNumberConstraints: the constraint is silently absent from the emitted JSON Schema and OpenAPI documents", o))
	}
}

// c12UnionAndConst (added after the second round of seeds): unions are emitted as `anyOf` — the generated types accept a
// value that matches several branches, `oneOf` would reject it; `const` is emitted exactly when the scalar is concrete.
func c12UnionAndConst(ctx *Ctx, r *Report, p *packages.Package) {
	info := p.TypesInfo
	if fd := c12Method(p, "formatDisjunction"); fd == nil {
		r.Undecided("anchor lost: jsonschema.Schema.formatDisjunction")
	} else {
		var kws []string
		nonLiteral := false
		ast.Inspect(fd.Body, func(m ast.Node) bool {
			c, ok := m.(*ast.CallExpr)
			if !ok || len(c.Args) != 2 {
				return true
			}
			if fn := callee(info, c); fn == nil || fn.Name() != "Set" {
				return true
			}
			if lit, ok := c.Args[0].(*ast.BasicLit); ok {
				kws = append(kws, strings.Trim(lit.Value, "\""))
			} else {
				nonLiteral = true
			}
			return true
		})
		okU := !nonLiteral && len(kws) == 1 && kws[0] == "anyOf"
		r.Check(okU, "keywords/union-anyof", "jsonschema.formatDisjunction keyword", fd.Pos(), "unions are emitted as anyOf",
			fmt.Sprintf("formatDisjunction emits %v (or a computed keyword): with oneOf a value matching two branches — the IR does not make branches exclusive, and the generated Go type decodes it — is rejected by the emitted schema", kws))
	}
	fd := c12Method(p, "formatScalar")
	if fd == nil {
		return
	}
	parents := parentMap(fd)
	found := false
	ast.Inspect(fd.Body, func(m ast.Node) bool {
		c, ok := m.(*ast.CallExpr)
		if !ok || len(c.Args) != 2 {
			return true
		}
		lit, ok := c.Args[0].(*ast.BasicLit)
		if !ok || lit.Value != `"const"` {
			return true
		}
		found = true
		conds := enclosingConds(parents, c)
		okC := len(conds) == 1 && !conds[0].inElse
		if okC {
			cc, isCall := ast.Unparen(conds[0].stmt.Cond).(*ast.CallExpr)
			okC = isCall && len(cc.Args) == 0
			if okC {
				fn := callee(info, cc)
				okC = fn != nil && (fn.Name() == "IsConcrete" || fn.Name() == "IsConcreteScalar")
			}
		}
		r.Check(okC, "skeleton/schema-struct", "jsonschema.formatScalar const", c.Pos(), "`const` is emitted exactly when the scalar is concrete",
			"`const` is emitted under another condition than `…IsConcrete()`: some constants of the IR silently disappear from the emitted JSON Schema / OpenAPI documents")
		return true
	})
	if !found {
		r.Bad("skeleton/schema-struct", "jsonschema.formatScalar const", fd.Pos(), "formatScalar no longer emits `const` for concrete scalars")
	}
}

// ---------------------------------------------------------------------------
// Rules added after the third generation of seeds.

// c12RefsFreshBranches: (a) every `$ref` written by the jenny goes through the configurable ReferenceFormatter — the
// OpenAPI jenny reuses this code with `#/components/schemas/…`, a `$ref` formatted otherwise dangles there; (b) every
// function returning a Definition returns storage of its own (a map created in the function, or another function's
// result): callers Set("default" / "description") on what they get, a definition shared through a package-level
// variable leaks one field's default into every other; (c) the anyOf of a union lists *all* its branches — `null`
// included: only two-branch `T | null` unions are rewritten by the pass chain, larger ones reach the jenny.
func c12RefsFreshBranches(ctx *Ctx, r *Report, p *packages.Package) {
	info := p.TypesInfo
	nRef, nRet, nBr := 0, 0, 0
	for _, file := range p.Syntax {
		// (b) package-level variables holding a definition
		for _, d := range file.Decls {
			gd, ok := d.(*ast.GenDecl)
			if !ok || gd.Tok != token.VAR {
				continue
			}
			for _, sp := range gd.Specs {
				vs := sp.(*ast.ValueSpec)
				for _, nm := range vs.Names {
					t := info.TypeOf(nm)
					if t != nil && strings.Contains(types.Unalias(t).String(), "orderedmap.Map") {
						r.Bad("keywords/fresh-definitions", "jsonschema package variable "+nm.Name, nm.Pos(),
							"the package-level variable "+nm.Name+" holds a definition: definitions are handed to callers that Set(\"default\") / Set(\"description\") on them — a shared one carries the default of one field into every other place that uses it")
					}
				}
			}
		}
		for _, d := range file.Decls {
			fd, ok := d.(*ast.FuncDecl)
			if !ok || fd.Body == nil {
				continue
			}
			returnsDef := false
			if fd.Type.Results != nil {
				for _, res := range fd.Type.Results.List {
					if t := info.TypeOf(res.Type); t != nil && strings.Contains(types.Unalias(t).String(), "orderedmap.Map") {
						returnsDef = true
					}
				}
			}
			ast.Inspect(fd.Body, func(m ast.Node) bool {
				switch x := m.(type) {
				case *ast.ReturnStmt:
					if !returnsDef || len(x.Results) != 1 {
						return true
					}
					nRet++
					ok := true
					if id, isID := ast.Unparen(x.Results[0]).(*ast.Ident); isID {
						if v, isVar := objOf(info, id).(*types.Var); isVar && v.Parent() == p.Types.Scope() {
							ok = false
						}
					}
					r.Check(ok, "keywords/fresh-definitions", fmt.Sprintf("jsonschema.%s returns %s", fd.Name.Name, exprString(x.Results[0])), x.Pos(), "a local or freshly computed definition",
						fmt.Sprintf("jsonschema.%s returns the package-level %s: its callers write `default` / `description` into what they receive", fd.Name.Name, exprString(x.Results[0])))
				case *ast.CallExpr:
					sel, ok := x.Fun.(*ast.SelectorExpr)
					if ok && sel.Sel.Name == "Set" && len(x.Args) == 2 {
						if tv, ok := info.Types[x.Args[0]]; ok && tv.Value != nil && tv.Value.ExactString() == `"$ref"` {
							nRef++
							through := false
							if c, ok := ast.Unparen(x.Args[1]).(*ast.CallExpr); ok {
								if cs, ok := c.Fun.(*ast.SelectorExpr); ok && cs.Sel.Name == "ReferenceFormatter" {
									through = true
								}
							}
							r.Check(through, "keywords/ref-through-formatter", fmt.Sprintf("jsonschema.%s writes $ref #%d", fd.Name.Name, nRef), x.Pos(), "formatted by the configurable ReferenceFormatter",
								fmt.Sprintf("jsonschema.%s writes a `$ref` computed by %s: the OpenAPI jenny configures `#/components/schemas/…` through ReferenceFormatter — a reference formatted otherwise points to `#/definitions/…`, which does not exist in the OpenAPI document", fd.Name.Name, exprString(x.Args[1])))
						}
					}
					// (c) tools.Map(<branches>, jenny.formatType)
					if fn := callee(info, x); fn != nil && funcIs(fn, toolsPkgPath, "Map") && len(x.Args) == 2 && fd.Name.Name == "formatDisjunction" {
						nBr++
						s, isSel := ast.Unparen(x.Args[0]).(*ast.SelectorExpr)
						r.Check(isSel && s.Sel.Name == "Branches", "traverse/union-branches-all", "jsonschema.formatDisjunction branches", x.Pos(), "every branch of the union is formatted",
							fmt.Sprintf("formatDisjunction formats %s, not all the branches of the union: a dropped branch (`null` in `string | int64 | null`) is a value of the generated type that the emitted schema rejects", exprString(x.Args[0])))
					}
				}
				return true
			})
		}
	}
	r.Count("$ref keywords written", nRef)
	r.Floor("$ref keywords written", 1)
	r.Count("definitions returned", nRet)
	r.Floor("definitions returned", 10)
	r.Count("branch lists formatted by formatDisjunction", nBr)
	r.Floor("branch lists formatted by formatDisjunction", 1)
}

// (9) what the emitter writes for an enum is what cog's own OpenAPI front-end reads: formatEnum writes
// `{"enum": [...]}`; unless it also writes "type", walkEnum of internal/openapi must not reject an enum whose
// type is absent (an `if` on the emptiness of schema.Type whose body is nothing but an error exit).
func c12EnumRoundTrip(ctx *Ctx, r *Report, p *packages.Package) {
	fe := c12Method(p, "formatEnum")
	op := ctx.Pkg("internal/openapi")
	if fe == nil || op == nil {
		r.Undecided("anchor lost: jsonschema.formatEnum / internal/openapi")
		return
	}
	writesType := false
	ast.Inspect(fe.Body, func(m ast.Node) bool {
		if c, ok := m.(*ast.CallExpr); ok && len(c.Args) == 2 {
			if fn := callee(p.TypesInfo, c); fn != nil && fn.Name() == "Set" {
				if lit, ok := c.Args[0].(*ast.BasicLit); ok && lit.Value == `"type"` {
					writesType = true
				}
			}
		}
		return true
	})
	var we *ast.FuncDecl
	for _, f := range op.Syntax {
		for _, d := range f.Decls {
			if fd, ok := d.(*ast.FuncDecl); ok && fd.Name.Name == "walkEnum" && fd.Body != nil {
				we = fd
			}
		}
	}
	if we == nil {
		r.Undecided("anchor lost: openapi.walkEnum")
		return
	}
	errT := types.Universe.Lookup("error").Type()
	var rejects ast.Node
	tests := 0
	ast.Inspect(we.Body, func(m ast.Node) bool {
		is, ok := m.(*ast.IfStmt)
		if !ok {
			return true
		}
		cond := exprString(is.Cond)
		if !strings.Contains(cond, ".Type") || !(strings.Contains(cond, "== 0") || strings.Contains(cond, "== nil")) {
			return true
		}
		tests++
		if len(is.Body.List) == 1 && blockReturnsError(op.TypesInfo, is.Body, errT) {
			rejects = is
		}
		return true
	})
	r.Count("tests of an absent enum type in openapi.walkEnum", tests)
	cons := "openapi.walkEnum reads what jsonschema.formatEnum writes"
	switch {
	case writesType:
		r.OK("roundtrip/enum-type", cons, fe.Pos(), "formatEnum writes \"type\" next to \"enum\"")
	case rejects == nil:
		r.OK("roundtrip/enum-type", cons, we.Pos(), "formatEnum writes no \"type\" and walkEnum does not reject an enum without one outright")
	default:
		r.Bad("roundtrip/enum-type", cons, rejects.Pos(), "jsonschema.formatEnum (shared by the OpenAPI jenny) writes {\"enum\": [...]} without \"type\", and openapi.walkEnum rejects an enum whose type is absent: no OpenAPI document cog emits for a schema with an enum can be read back by cog")
	}
}

// (10) definitions are keyed by name, and foreign objects are inlined into the same table: the key of an inlined
// foreign object and the text of the references to it must both come from one function of the whole reference
// (package included) — keyed by the bare name, a foreign `b.Foo` silently replaces the local `Foo` and both
// references point at the survivor.
func c12DefinitionKeys(ctx *Ctx, r *Report, p *packages.Package) {
	info := p.TypesInfo
	gs := c12Method(p, "GenerateSchema")
	fr := c12Method(p, "formatRef")
	if gs == nil || fr == nil {
		r.Undecided("anchor lost: jsonschema.GenerateSchema / formatRef")
		return
	}
	refT := ctx.LookupType("internal/ast", "RefType")
	takesRef := func(e ast.Expr) (types.Object, bool) {
		c, ok := ast.Unparen(e).(*ast.CallExpr)
		if !ok || len(c.Args) != 1 {
			return nil, false
		}
		if n := namedOf(info.TypeOf(c.Args[0])); n == nil || n != refT {
			return nil, false
		}
		switch f := ast.Unparen(c.Fun).(type) {
		case *ast.SelectorExpr:
			return info.Uses[f.Sel], true
		case *ast.Ident:
			return info.Uses[f], true
		}
		return nil, false
	}
	// (i) the key under which foreign objects are inlined
	parents := parentMap(gs)
	var keyFn types.Object
	foreignSets := 0
	ast.Inspect(gs.Body, func(m ast.Node) bool {
		c, ok := m.(*ast.CallExpr)
		if !ok || len(c.Args) != 2 {
			return true
		}
		fn := callee(info, c)
		sel, _ := ast.Unparen(c.Fun).(*ast.SelectorExpr)
		if fn == nil || fn.Name() != "Set" || sel == nil || exprString(sel.X) != "definitions" {
			return true
		}
		// which collection is being iterated?
		local := false
		for q := parents[ast.Node(c)]; q != nil; q = parents[q] {
			if it, ok := q.(*ast.CallExpr); ok {
				if s, ok := ast.Unparen(it.Fun).(*ast.SelectorExpr); ok && s.Sel.Name == "Iterate" && strings.HasSuffix(exprString(s.X), "schema.Objects") {
					local = true
				}
			}
		}
		if local {
			return true
		}
		foreignSets++
		cons := "jsonschema.GenerateSchema keys an inlined foreign object by " + exprString(c.Args[0])
		if o, ok := takesRef(c.Args[0]); ok && o != nil {
			keyFn = o
			r.OK("keywords/definition-key-qualified", cons, c.Pos(), "the key is computed from the whole reference of the object")
		} else {
			r.Bad("keywords/definition-key-qualified", cons, c.Pos(), "the definition of an inlined foreign object is stored under "+exprString(c.Args[0])+", which does not depend on its package: a foreign object named like a local one replaces it, and the references to both resolve to the survivor")
		}
		return true
	})
	r.Count("definitions stored for inlined foreign objects", foreignSets)
	r.Floor("definitions stored for inlined foreign objects", 1)
	if keyFn == nil {
		return
	}
	// (ii) references are formatted from the same name
	ast.Inspect(fr.Body, func(m ast.Node) bool {
		c, ok := m.(*ast.CallExpr)
		if !ok || len(c.Args) != 1 {
			return true
		}
		sel, _ := ast.Unparen(c.Fun).(*ast.SelectorExpr)
		if sel == nil || sel.Sel.Name != "ReferenceFormatter" {
			return true
		}
		same := false
		ast.Inspect(c.Args[0], func(k ast.Node) bool {
			if e, ok := k.(ast.Expr); ok {
				if o, ok := takesRef(e); ok && o == keyFn {
					same = true
				}
			}
			return true
		})
		r.Check(same, "keywords/definition-key-qualified", "jsonschema.formatRef formats "+exprString(c.Args[0]), c.Pos(),
			"the reference is formatted from the name the definition is stored under",
			"the definition is stored under "+keyFn.Name()+"(ref) but the reference is formatted from "+exprString(c.Args[0])+": the two disagree as soon as the key is package-qualified (dangling $ref) or both collapse to the bare name")
		return true
	})
	// (iii) the naming function distinguishes packages
	var lit *ast.FuncLit
	ast.Inspect(gs.Body, func(m ast.Node) bool {
		if as, ok := m.(*ast.AssignStmt); ok && len(as.Lhs) == 1 && len(as.Rhs) == 1 {
			if s, ok := ast.Unparen(as.Lhs[0]).(*ast.SelectorExpr); ok && info.Uses[s.Sel] == keyFn {
				lit, _ = as.Rhs[0].(*ast.FuncLit)
			}
		}
		return true
	})
	if lit == nil {
		r.Undecided("the function %s is not bound to a literal in GenerateSchema", keyFn.Name())
		return
	}
	qualifies := false
	ast.Inspect(lit.Body, func(m ast.Node) bool {
		if rs, ok := m.(*ast.ReturnStmt); ok && len(rs.Results) == 1 && strings.Contains(exprString(rs.Results[0]), ".ReferredPkg") {
			qualifies = true
		}
		return true
	})
	r.Check(qualifies, "keywords/definition-key-qualified", "jsonschema."+keyFn.Name()+" can return a package-qualified name", lit.Pos(),
		"one of its results includes the package of the reference", "none of its results depends on the package of the reference: same-named objects of different packages share one key")
}

// (11) the struct DisjunctionToType creates for a union is encoded by a generated marshaller only when it carries
// one of the two union hints (jsonmarshalling.go: IsStructGeneratedFromDisjunction); the schema jennies describe
// the union itself (anyOf). A wrapper that leaves the pass without either hint is encoded by encoding/json as a
// plain struct {"String": …, "A": …}, which no branch of the anyOf accepts.
func c12UnionWrapperClassified(ctx *Ctx, r *Report) {
	m := ctx.LookupMethod("internal/ast/compiler", "DisjunctionToType", "processDisjunction")
	if m == nil {
		r.Undecided("anchor lost: DisjunctionToType.processDisjunction")
		return
	}
	fd, p := ctx.DeclOf(m)
	if fd == nil || fd.Body == nil {
		r.Undecided("anchor lost: body of DisjunctionToType.processDisjunction")
		return
	}
	info := p.TypesInfo
	errT := types.Universe.Lookup("error").Type()
	isHintStore := func(s ast.Stmt) bool {
		as, ok := s.(*ast.AssignStmt)
		if !ok || len(as.Lhs) != 1 {
			return false
		}
		ix, ok := ast.Unparen(as.Lhs[0]).(*ast.IndexExpr)
		if !ok {
			return false
		}
		k := exprString(ix.Index)
		return strings.HasSuffix(k, "HintDisjunctionOfScalars") || strings.HasSuffix(k, "HintDiscriminatedDisjunctionOfRefs")
	}
	setsHint := func(b *ast.BlockStmt) bool {
		found := false
		ast.Inspect(b, func(n ast.Node) bool {
			if s, ok := n.(ast.Stmt); ok && isHintStore(s) {
				found = true
			}
			return true
		})
		return found
	}
	conditional, total := 0, false
	for _, s := range fd.Body.List {
		if isHintStore(s) {
			total = true // unconditional
		}
		is, ok := s.(*ast.IfStmt)
		if !ok {
			continue
		}
		if setsHint(is.Body) {
			conditional++
			if is.Else != nil {
				if eb, ok := is.Else.(*ast.BlockStmt); ok && (setsHint(eb) || blockReturnsError(info, eb, errT)) {
					total = true
				}
			}
		}
		// `if !scalarsOnly && !refsOnly { return error }`
		c := exprString(is.Cond)
		if strings.Contains(c, "HasOnlyScalarOrArrayOrMap") && strings.Contains(c, "HasOnlyRefs") && blockReturnsError(info, is.Body, errT) {
			total = true
		}
	}
	// the scalar hint is decided on what the branches are on the wire: a reference to a named scalar or to an enum is a
	// scalar there, so the test has to resolve references (the syntactic Types.HasOnlyScalarOrArrayOrMap does not)
	resolves := false
	for _, st := range fd.Body.List {
		is, ok := st.(*ast.IfStmt)
		if !ok {
			continue
		}
		scalarHint := false
		ast.Inspect(is.Body, func(n ast.Node) bool {
			if as, ok := n.(*ast.AssignStmt); ok && len(as.Lhs) == 1 {
				if ix, ok := ast.Unparen(as.Lhs[0]).(*ast.IndexExpr); ok && strings.HasSuffix(exprString(ix.Index), "HintDisjunctionOfScalars") {
					scalarHint = true
				}
			}
			return true
		})
		if !scalarHint {
			continue
		}
		if c, ok := ast.Unparen(is.Cond).(*ast.CallExpr); ok {
			if f := callee(info, c); f != nil {
				if hfd, _ := ctx.DeclOf(f); hfd != nil && hfd.Body != nil {
					ast.Inspect(hfd.Body, func(n ast.Node) bool {
						if c2, ok := n.(*ast.CallExpr); ok {
							if f2 := callee(info, c2); f2 != nil && strings.HasPrefix(f2.Name(), "Resolve") {
								resolves = true
							}
						}
						return true
					})
				}
			}
		}
	}
	r.Check(resolves, "flow/union-scalar-references-classified", "DisjunctionToType decides the scalar hint on resolved branches", fd.Pos(), "the test that grants HintDisjunctionOfScalars resolves references",
		"HintDisjunctionOfScalars is granted on the syntactic kind of the branches: `size: #Pos | string` (#Pos: int & >0) has a reference branch, gets no hint, and the wrapper PosOrString is decoded as an object with the keys \"Pos\" / \"String\" — {\"size\": 5} is refused, {\"size\": {\"Pos\": 5}} accepted")
	r.Count("conditional union hints in DisjunctionToType", conditional)
	r.Floor("conditional union hints in DisjunctionToType", 1)
	r.Check(total, "flow/union-wrapper-classified", "DisjunctionToType classifies every union wrapper it creates", fd.Pos(),
		"every path that registers the wrapper struct sets a union hint or returns an error",
		"the wrapper struct gets HintDisjunctionOfScalars only for scalars/arrays/maps and HintDiscriminatedDisjunctionOfRefs only for references: a union mixing both (`string | #A`) is registered without either, the Go jenny generates no MarshalJSON/UnmarshalJSON for it, and its encoding {\"String\": …} / {\"A\": …} is rejected by the emitted anyOf")
}

// (12) draft-07 §8.3 and the OpenAPI 3.0 Reference Object: siblings of "$ref" are ignored. A keyword that carries
// a value of the IR (default, constraints, …) and is written on the map formatType returned is void whenever that
// map is a reference — unless the store is under a test that the type is not a reference.
func c12NoSiblingsOfRef(ctx *Ctx, r *Report, p *packages.Package) {
	info := p.TypesInfo
	annotations := map[string]bool{"description": true, "title": true, "$comment": true}
	n := 0
	for _, f := range p.Syntax {
		for _, d := range f.Decls {
			fd, ok := d.(*ast.FuncDecl)
			if !ok || fd.Body == nil {
				continue
			}
			parents := parentMap(fd)
			// locals holding the result of formatType(T)
			formatted := map[types.Object]ast.Expr{}
			ast.Inspect(fd.Body, func(m ast.Node) bool {
				as, ok := m.(*ast.AssignStmt)
				if !ok || len(as.Lhs) != 1 || len(as.Rhs) != 1 {
					return true
				}
				c, ok := ast.Unparen(as.Rhs[0]).(*ast.CallExpr)
				if !ok || len(c.Args) != 1 {
					return true
				}
				if fn := callee(info, c); fn == nil || fn.Name() != "formatType" {
					return true
				}
				if id, ok := as.Lhs[0].(*ast.Ident); ok {
					if o := objOf(info, id); o != nil {
						formatted[o] = c.Args[0]
					}
				}
				return true
			})
			if len(formatted) == 0 {
				continue
			}
			ast.Inspect(fd.Body, func(m ast.Node) bool {
				c, ok := m.(*ast.CallExpr)
				if !ok || len(c.Args) != 2 {
					return true
				}
				fn := callee(info, c)
				sel, _ := ast.Unparen(c.Fun).(*ast.SelectorExpr)
				if fn == nil || fn.Name() != "Set" || sel == nil {
					return true
				}
				id, ok := ast.Unparen(sel.X).(*ast.Ident)
				if !ok {
					return true
				}
				typ, ok := formatted[objOf(info, id)]
				if !ok {
					return true
				}
				lit, ok := c.Args[0].(*ast.BasicLit)
				if !ok {
					return true
				}
				kw := strings.Trim(lit.Value, "\"")
				if annotations[kw] {
					return true
				}
				n++
				guarded := false
				for _, ec := range enclosingConds(parents, c) {
					txt := exprString(ec.stmt.Cond)
					if strings.Contains(txt, exprString(typ)+".IsRef()") || strings.Contains(txt, "KindRef") {
						guarded = true
					}
				}
				r.Check(guarded, "keywords/no-siblings-of-ref", fmt.Sprintf("jsonschema.%s writes %q on the schema of %s", fd.Name.Name, kw, exprString(typ)), c.Pos(),
					"under a test on whether the type is a reference",
					fmt.Sprintf("%q is written on the map formatType(%s) returned whatever the kind of the type: when the type is a reference the map is {\"$ref\": …} and every sibling of $ref is ignored by draft-07 and OpenAPI 3.0 loaders (cog's own front-ends included), so the value is lost", kw, exprString(typ)))
				return true
			})
		}
	}
	r.Count("value keywords written on an already formatted type", n)
	r.Floor("value keywords written on an already formatted type", 1)
}

// c12FourthRound — third hunting pass.
// (a) the default of an object itself (`Name: string | *"foo"`) is written on its definition: objectToDefinition
// sets "default" from the object's Type.Default. (b) a definition name is data: the text written after
// `#/definitions/` / `#/components/schemas/` is a JSON Pointer token inside a URI fragment, so every Sprintf that
// builds such a reference receives the name through a function that escapes `~`, `/` and percent-encodes; and
// the JSON Schema front-end undoes both when it names an object after a reference's location. (c) Go's
// encoding/json writes []uint8 as a base64 string while the emitted schema describes an array of integers: the Go
// type formatter has to tell an array of uint8 from the other arrays (or a marshaller has to).
func c12FourthRound(ctx *Ctx, r *Report, p *packages.Package) {
	info := p.TypesInfo
	// (a)
	if fd := c12Method(p, "objectToDefinition"); fd == nil {
		r.Undecided("anchor lost: jsonschema.objectToDefinition")
	} else {
		var objParam types.Object
		for _, f := range fd.Type.Params.List {
			for _, nm := range f.Names {
				if t := namedOf(info.TypeOf(nm)); t != nil && t.Obj().Name() == "Object" {
					objParam = info.Defs[nm]
				}
			}
		}
		sets := false
		ast.Inspect(fd.Body, func(m ast.Node) bool {
			c, ok := m.(*ast.CallExpr)
			if !ok || len(c.Args) != 2 {
				return true
			}
			if fn := callee(info, c); fn == nil || fn.Name() != "Set" {
				return true
			}
			if tv, ok := info.Types[c.Args[0]]; !ok || tv.Value == nil || constant.StringVal(tv.Value) != "default" {
				return true
			}
			if sel, ok := ast.Unparen(c.Args[1]).(*ast.SelectorExpr); ok && sel.Sel.Name == "Default" {
				if s2, ok := ast.Unparen(sel.X).(*ast.SelectorExpr); ok && s2.Sel.Name == "Type" {
					if id, ok := ast.Unparen(s2.X).(*ast.Ident); ok && objOf(info, id) == objParam {
						sets = true
					}
				}
			}
			return true
		})
		r.Check(sets, "skeleton/object-default-emitted", "jsonschema.objectToDefinition default", fd.Pos(), "the definition carries the object's own default",
			"objectToDefinition never writes `default`: only struct fields get one, and an object with a default of its own (Name: string | *\"foo\", an enum, an array) loses it in #/definitions and #/components/schemas")
	}
	// (b) emitters
	escapes := func(fn *types.Func) bool {
		fd, pp := ctx.DeclOf(fn)
		if fd == nil || fd.Body == nil || pp == nil {
			return false
		}
		pct, tilde, slash := false, false, false
		ast.Inspect(fd.Body, func(m ast.Node) bool {
			switch x := m.(type) {
			case *ast.CallExpr:
				if f := callee(pp.TypesInfo, x); f != nil && f.Pkg() != nil && f.Pkg().Path() == "net/url" && (f.Name() == "PathEscape" || f.Name() == "QueryEscape") {
					pct = true
				}
			case *ast.BasicLit:
				if x.Kind == token.STRING {
					switch x.Value {
					case `"~0"`:
						tilde = true
					case `"~1"`:
						slash = true
					}
				}
			}
			return true
		})
		return pct && tilde && slash
	}
	nRefs := 0
	for _, rel := range []string{"internal/jennies/jsonschema", "internal/jennies/openapi"} {
		pp := ctx.Pkg(rel)
		if pp == nil {
			continue
		}
		for _, file := range pp.Syntax {
			var fname string
			ast.Inspect(file, func(m ast.Node) bool {
				if d, ok := m.(*ast.FuncDecl); ok {
					fname = d.Name.Name
				}
				c, ok := m.(*ast.CallExpr)
				if !ok || len(c.Args) < 2 {
					return true
				}
				if fn := callee(pp.TypesInfo, c); fn == nil || fn.FullName() != "fmt.Sprintf" {
					return true
				}
				tv, ok := pp.TypesInfo.Types[c.Args[0]]
				if !ok || tv.Value == nil || tv.Value.Kind() != constant.String {
					return true
				}
				format := constant.StringVal(tv.Value)
				if !strings.HasPrefix(format, "#/") || !strings.Contains(format, "%s") {
					return true
				}
				nRefs++
				okArg := false
				if inner, ok := ast.Unparen(c.Args[1]).(*ast.CallExpr); ok {
					if f := callee(pp.TypesInfo, inner); f != nil && escapes(f) {
						okArg = true
					}
				}
				r.Check(okArg, "keywords/ref-token-escaped", fmt.Sprintf("%s.%s builds %q", pp.Types.Name(), fname, format), c.Pos(), "the name goes through a function that escapes ~, / and percent-encodes",
					fmt.Sprintf("the reference %q is built from %s as is: a definition name holding `~`, `/`, a space, `<`… gives a `$ref` that every loader resolves to another name — a dangling reference (cog's own front-end rejects the document)", format, exprString(c.Args[1])))
				return true
			})
		}
	}
	r.Count("reference texts built by the schema jennies", nRefs)
	r.Floor("reference texts built by the schema jennies", 2)
	// (b) the front-end
	if fp := ctx.Pkg("internal/jsonschema"); fp != nil {
		if fd := c12Method(fp, "definitionNameFromRef"); fd == nil {
			r.Undecided("anchor lost: jsonschema.definitionNameFromRef")
		} else {
			pct, tilde, slash := false, false, false
			// the function itself, or a helper of the package it hands the segment to
			bodies := []ast.Node{fd.Body}
			ast.Inspect(fd.Body, func(m ast.Node) bool {
				if c, ok := m.(*ast.CallExpr); ok {
					if f := callee(fp.TypesInfo, c); f != nil && f.Pkg() == fp.Types {
						if hfd, _ := ctx.DeclOf(f); hfd != nil && hfd.Body != nil && hfd != fd {
							bodies = append(bodies, hfd.Body)
						}
					}
				}
				return true
			})
			for _, b := range bodies {
				ast.Inspect(b, func(m ast.Node) bool {
					switch x := m.(type) {
					case *ast.CallExpr:
						if f := callee(fp.TypesInfo, x); f != nil && f.Pkg() != nil && f.Pkg().Path() == "net/url" && (f.Name() == "PathUnescape" || f.Name() == "QueryUnescape") {
							pct = true
						}
					case *ast.BasicLit:
						switch x.Value {
						case `"~0"`:
							tilde = true
						case `"~1"`:
							slash = true
						}
					}
					return true
				})
			}
			r.Check(pct && tilde && slash, "roundtrip/ref-name-decoded", "jsonschema.definitionNameFromRef decodes the location's last segment", fd.Pos(), "percent-decoding and JSON Pointer unescaping are undone",
				"the object is named after the last segment of the reference's location taken as is, i.e. still escaped: #/definitions/My%20Type declares an object called `My%20Type` — not its own name — and the emitted key / reference pair no longer resolves")
		}
	}
	c12GoByteArrays(ctx, r)
}

// c12GoByteArrays: Go's encoding/json writes []uint8 as a base64 string; the IR, the emitted schema and the other
// languages say "array of integers". The rule is C01's (kinds/go-byte-slice-trap); it is shared by C11 (Go and Python
// agree on the wire) and C12 (every encoded Go value validates against the emitted schema).
func c12GoByteArrays(ctx *Ctx, r *Report) {
	c01GoByteSliceTrap(ctx, r)
}

// c12ConstructorCollections (sibling agreement inside one expression): the Go constructor initialises a required
// field whose type is a list or a map (`needsExplicitDefault` tests field.Type.IsArray() / IsMap() under
// field.Required) so that the fresh object encodes as `[]` / `{}`, which the schema accepts, and not as `null`. A field
// typed by a *named* list or map is a reference: each kind tested directly must also be tested on the resolved type.
func c12ConstructorCollections(ctx *Ctx, r *Report) {
	fn := ctx.LookupMethod("internal/jennies/golang", "RawTypes", "defaultsForStructRec")
	fd, p := ctx.DeclOf(fn)
	if fd == nil || fd.Body == nil {
		r.Undecided("anchor lost: golang.RawTypes.defaultsForStructRec")
		return
	}
	info := p.TypesInfo
	var expr ast.Expr
	ast.Inspect(fd.Body, func(m ast.Node) bool {
		if as, ok := m.(*ast.AssignStmt); ok && len(as.Lhs) == 1 && len(as.Rhs) == 1 {
			if id, ok := as.Lhs[0].(*ast.Ident); ok && id.Name == "needsExplicitDefault" && expr == nil {
				expr = as.Rhs[0]
			}
		}
		return true
	})
	if expr == nil {
		r.Undecided("anchor changed: defaultsForStructRec no longer computes needsExplicitDefault")
		return
	}
	var disjuncts []ast.Expr
	var split func(e ast.Expr)
	split = func(e ast.Expr) {
		if be, ok := ast.Unparen(e).(*ast.BinaryExpr); ok && be.Op == token.LOR {
			split(be.X)
			split(be.Y)
			return
		}
		disjuncts = append(disjuncts, ast.Unparen(e))
	}
	split(expr)
	direct, resolved := map[string]token.Pos{}, map[string]bool{}
	for _, d := range disjuncts {
		txt := exprString(d)
		if !strings.Contains(txt, ".Required") && !strings.Contains(txt, "IsConcreteScalar") {
			continue
		}
		ast.Inspect(d, func(m ast.Node) bool {
			switch x := m.(type) {
			case *ast.CallExpr:
				sel, ok := x.Fun.(*ast.SelectorExpr)
				if !ok {
					return true
				}
				recv := exprString(sel.X)
				kinds := []string{}
				switch sel.Sel.Name {
				case "IsArray":
					kinds = append(kinds, "array")
				case "IsMap":
					kinds = append(kinds, "map")
				case "IsConcreteScalar":
					kinds = append(kinds, "constant")
				case "IsAnyOf":
					for _, a := range x.Args {
						if id, ok := a.(*ast.SelectorExpr); ok {
							if c, ok := info.Uses[id.Sel].(*types.Const); ok {
								switch c.Name() {
								case "KindArray":
									kinds = append(kinds, "array")
								case "KindMap":
									kinds = append(kinds, "map")
								}
							}
						}
					}
				}
				for _, k := range kinds {
					if strings.HasSuffix(recv, ".Type") {
						direct[k] = x.Pos()
					} else if strings.Contains(strings.ToLower(recv), "resolved") {
						resolved[k] = true
					}
				}
			}
			return true
		})
	}
	for _, k := range []string{"array", "map", "constant"} {
		pos, ok := direct[k]
		if !ok {
			continue
		}
		if k == "constant" {
			r.Check(resolved[k], "siblings/constructor-collections-through-references", "golang.defaultsForStructRec initialises constant fields, named or not", pos, "IsConcreteScalar is also tested on the resolved type of a reference",
				"a field whose type is an in-line constant is set by the constructor, the same field typed by a *named* constant (a reference: `#K: \"fixed\"`, `k: #K`) is not: NewRoot() encodes {\"k\":\"\"} where the schema only accepts \"fixed\" (and where Python writes it)")
			continue
		}
		r.Check(resolved[k], "siblings/constructor-collections-through-references", "golang.defaultsForStructRec initialises required "+k+" fields, named or not", pos, "the kind is also tested on the resolved type of a reference",
			"a required field whose type is an in-line "+k+" is initialised by the constructor, the same field typed by a *named* "+k+" (a reference) is not: NewObj() encodes it as null, which the source schema and the emitted JSON Schema reject")
	}
	r.Count("collection kinds initialised by the Go constructor", len(direct))
	r.Floor("collection kinds initialised by the Go constructor", 2)
}

// c12NumericKeywordsRead: the numeric constraint keywords a front-end's library hands over are the fields of its
// schema type that hold a number or nothing (*big.Rat for santhosh-tekuri/jsonschema, *float64 for kin-openapi):
// minimum, maximum, their exclusive forms, multipleOf. The list is taken from the library's type, not written here;
// each of them has to be read by the front-end, or the constraint is silently dropped (and is missing from the
// validation code and from the re-emitted schema).
func c12NumericKeywordsRead(ctx *Ctx, r *Report) {
	n := 0
	for _, spec := range []struct{ rel, libSuffix, typeName, elem string }{
		{"internal/jsonschema", "santhosh-tekuri/jsonschema/v5", "Schema", "math/big.Rat"},
		{"internal/openapi", "kin-openapi/openapi3", "Schema", "float64"},
	} {
		p := ctx.Pkg(spec.rel)
		if p == nil {
			r.Undecided("package %s not found", spec.rel)
			continue
		}
		var schemaT *types.Named
		for _, imp := range p.Types.Imports() {
			if strings.HasSuffix(imp.Path(), spec.libSuffix) {
				if o, ok := imp.Scope().Lookup(spec.typeName).(*types.TypeName); ok {
					schemaT, _ = o.Type().(*types.Named)
				}
			}
		}
		if schemaT == nil {
			r.Undecided("anchor lost: %s does not import %s.%s", spec.rel, spec.libSuffix, spec.typeName)
			continue
		}
		st, ok := schemaT.Underlying().(*types.Struct)
		if !ok {
			continue
		}
		// a keyword is read when its value goes somewhere — the receiver of a method, an argument, the right-hand side
		// of an assignment, a dereference: a comparison with nil only says whether it is there (the test that refuses
		// the bounds written next to `$ref` compares every one of them with nil)
		read := map[*types.Var]bool{}
		for _, f := range p.Syntax {
			var stack []ast.Node
			ast.Inspect(f, func(m ast.Node) bool {
				if m == nil {
					stack = stack[:len(stack)-1]
					return true
				}
				if sel, ok := m.(*ast.SelectorExpr); ok {
					if v := fieldOf(p.TypesInfo, sel); v != nil && len(stack) > 0 {
						parent := stack[len(stack)-1]
						if pe, ok := parent.(*ast.ParenExpr); ok && len(stack) > 1 {
							_ = pe
							parent = stack[len(stack)-2]
						}
						if be, ok := parent.(*ast.BinaryExpr); !ok || !(isNilIdent(p.TypesInfo, be.X) || isNilIdent(p.TypesInfo, be.Y)) {
							read[v] = true
						}
					}
				}
				stack = append(stack, m)
				return true
			})
		}
		for i := 0; i < st.NumFields(); i++ {
			f := st.Field(i)
			ptr, ok := f.Type().(*types.Pointer)
			if !ok || !f.Exported() {
				continue
			}
			if types.TypeString(ptr.Elem(), nil) != spec.elem {
				continue
			}
			n++
			r.Check(read[f], "frontier/numeric-keywords-read", fmt.Sprintf("%s reads %s.%s", spec.rel, spec.typeName, f.Name()), token.NoPos, "the keyword is read by the front-end",
				fmt.Sprintf("the library parses the numeric keyword held by %s.%s and the front-end %s never reads it: the constraint is dropped from the IR, from the generated validation and from the re-emitted schema", spec.typeName, f.Name(), spec.rel))
		}
	}
	r.Count("numeric constraint keywords of the parser libraries", n)
	r.Floor("numeric constraint keywords of the parser libraries", 7)
}

// c12CollectionDefaultsRead: every list or map type built by the JSON Schema and OpenAPI front-ends is given the
// default written in the schema — as an ast.Default option of the constructor call, or through an assignment to the
// Default of the variable that receives it.
func c12CollectionDefaultsRead(ctx *Ctx, r *Report) {
	n := 0
	for _, rel := range []string{"internal/jsonschema", "internal/openapi", "internal/simplecue"} {
		p := ctx.Pkg(rel)
		if p == nil {
			r.Undecided("anchor lost: " + rel)
			continue
		}
		info := p.TypesInfo
		for _, f := range p.Syntax {
			for _, d := range f.Decls {
				fd, ok := d.(*ast.FuncDecl)
				if !ok || fd.Body == nil {
					continue
				}
				parents := parentMap(fd)
				seen := map[string]int{}
				ast.Inspect(fd.Body, func(m ast.Node) bool {
					c, ok := m.(*ast.CallExpr)
					if !ok {
						return true
					}
					fn := callee(info, c)
					if fn == nil || fn.Pkg() == nil || !strings.HasSuffix(fn.Pkg().Path(), "internal/ast") || (fn.Name() != "NewMap" && fn.Name() != "NewArray" && fn.Name() != "Any") {
						return true
					}
					// `any` as the answer of a walker (the type of a property that declares none), not as a placeholder for
					// the items of a list
					if fn.Name() == "Any" {
						if _, isReturn := parents[ast.Node(c)].(*ast.ReturnStmt); !isReturn {
							return true
						}
					}
					carried := false
					for _, a := range c.Args {
						if ac, ok := ast.Unparen(a).(*ast.CallExpr); ok {
							if af := callee(info, ac); af != nil && af.Name() == "Default" {
								carried = true
							}
						}
					}
					if as, ok := parents[ast.Node(c)].(*ast.AssignStmt); ok && len(as.Lhs) == 1 {
						if id, ok := as.Lhs[0].(*ast.Ident); ok {
							obj := objOf(info, id)
							ast.Inspect(fd.Body, func(k ast.Node) bool {
								if a2, ok := k.(*ast.AssignStmt); ok {
									for _, l := range a2.Lhs {
										if sel, ok := ast.Unparen(l).(*ast.SelectorExpr); ok && sel.Sel.Name == "Default" {
											if x, ok := ast.Unparen(sel.X).(*ast.Ident); ok && objOf(info, x) == obj {
												carried = true
											}
										}
									}
								}
								return true
							})
						}
					}
					kind := strings.TrimPrefix(fn.Name(), "New")
					seen[kind]++
					cons := fmt.Sprintf("%s.%s builds a %s", p.Types.Name(), fd.Name.Name, strings.ToLower(kind))
					if seen[kind] > 1 {
						cons = fmt.Sprintf("%s #%d", cons, seen[kind])
					}
					n++
					r.Check(carried, "frontier/collection-default-read", cons, c.Pos(), "the type is built with the default of the schema",
						fmt.Sprintf("%s.%s builds a %s without the `default` of the schema: {\"type\":\"object\",\"additionalProperties\":{\"type\":\"string\"},\"default\":{\"env\":\"prod\"}} loses its default — the constructors leave the field empty and the re-emitted schema has no default", p.Types.Name(), fd.Name.Name, strings.ToLower(kind)))
					return true
				})
			}
		}
	}
	r.Count("lists and maps built by the JSON Schema and OpenAPI front-ends", n)
	r.Floor("lists and maps built by the JSON Schema and OpenAPI front-ends", 4)
}

// c12CueNestedEmptyCollections: the converter of concrete CUE values may answer "no value" (nil) for an empty list or
// struct only at the top of a default; inside another value (`[["a"], []]`, `{points: []}`) nil is a different value —
// `null`, which the emitted schema does not admit. In the clauses of the list and struct kinds, a `return nil, nil` is
// preceded by a test on a parameter of the function that answers a non-nil value.
func c12CueNestedEmptyCollections(ctx *Ctx, r *Report) {
	sp := ctx.Pkg("internal/simplecue")
	fn := ctx.LookupFunc("internal/simplecue", "cueConcreteToScalar")
	fd, _ := ctx.DeclOf(fn)
	if sp == nil || fd == nil || fd.Body == nil {
		r.Undecided("anchor lost: simplecue.cueConcreteToScalar")
		return
	}
	info := sp.TypesInfo
	fd = followDelegation(ctx, info, fd)
	params := map[types.Object]bool{}
	for _, f := range fd.Type.Params.List {
		for _, nm := range f.Names {
			params[info.Defs[nm]] = true
		}
	}
	n := 0
	ast.Inspect(fd.Body, func(m ast.Node) bool {
		cc, ok := m.(*ast.CaseClause)
		if !ok {
			return true
		}
		kind := ""
		for _, e := range cc.List {
			switch {
			case strings.HasSuffix(exprString(e), "ListKind"):
				kind = "list"
			case strings.HasSuffix(exprString(e), "StructKind"):
				kind = "struct"
			}
		}
		if kind == "" {
			return true
		}
		n++
		answersNil, keeps := false, false
		ast.Inspect(cc, func(q ast.Node) bool {
			switch x := q.(type) {
			case *ast.ReturnStmt:
				if len(x.Results) == 2 && exprString(x.Results[0]) == "nil" && exprString(x.Results[1]) == "nil" {
					answersNil = true
				}
			case *ast.IfStmt:
				usesParam := false
				ast.Inspect(x.Cond, func(k ast.Node) bool {
					if id, ok := k.(*ast.Ident); ok && params[objOf(info, id)] && id.Name != "v" {
						usesParam = true
					}
					return true
				})
				if usesParam && len(x.Body.List) == 1 {
					if rs, ok := x.Body.List[0].(*ast.ReturnStmt); ok && len(rs.Results) == 2 && exprString(rs.Results[0]) != "nil" {
						keeps = true
					}
				}
			}
			return true
		})
		r.Check(!answersNil || keeps, "frontier/cue-nested-empty-collection", "simplecue.cueConcreteToScalar keeps a nested empty "+kind, cc.Pos(), "nil is only answered for an empty "+kind+" that is not held by another value",
			"the converter answers nil for every empty "+kind+", nested ones included: the default `[[\"a\"], []]` becomes [[\"a\"], null] — another value, which does not validate against the emitted schema (kin-openapi: Value is not nullable)")
		return false
	})
	r.Count("collection kinds of nested CUE values", n)
	r.Floor("collection kinds of nested CUE values", 2)
}

// c12GoRequiredUnionInitialised: a union of scalars / references becomes a Go struct with one pointer per branch, encoded
// as `null` when no branch is set — a value none of the branches of the emitted anyOf admits. The constructor of a
// struct must therefore give a *required* field of such a type a value with one branch set: in defaultsForStructRec
// some branch that does not depend on an enclosing default tests IsStructGeneratedFromDisjunction.
func c12GoRequiredUnionInitialised(ctx *Ctx, r *Report) {
	fn := ctx.LookupMethod("internal/jennies/golang", "RawTypes", "defaultsForStructRec")
	fd, p := ctx.DeclOf(fn)
	if fd == nil {
		r.Undecided("anchor lost: golang.RawTypes.defaultsForStructRec")
		return
	}
	parents := parentMap(fd)
	fromOverrides := map[types.Object]bool{}
	ast.Inspect(fd.Body, func(m ast.Node) bool {
		if as, ok := m.(*ast.AssignStmt); ok && len(as.Lhs) == 2 && len(as.Rhs) == 1 && strings.Contains(exprString(as.Rhs[0]), "extraDefaults[") {
			if id, ok := as.Lhs[1].(*ast.Ident); ok {
				if o := objOf(p.TypesInfo, id); o != nil {
					fromOverrides[o] = true
				}
			}
		}
		return true
	})
	handled := false
	ast.Inspect(fd.Body, func(m ast.Node) bool {
		c, ok := m.(*ast.CallExpr)
		if !ok {
			return true
		}
		sel, ok := c.Fun.(*ast.SelectorExpr)
		if !ok || sel.Sel.Name != "IsStructGeneratedFromDisjunction" {
			return true
		}
		// the test is made on the type of a *field* (the struct being initialised can itself be a union wrapper, whose
		// branches are left alone: that test says nothing about the fields typed by a wrapper)
		if strings.HasPrefix(exprString(sel.X), "objectType") {
			return true
		}
		// a test that is one conjunct of a condition asking for a declared default says nothing of the unions that
		// have none
		needsDefault := false
		for q := parents[ast.Node(c)]; q != nil; q = parents[q] {
			if be, ok := q.(*ast.BinaryExpr); ok && strings.Contains(exprString(be), ".Default != nil") {
				needsDefault = true
			}
			if _, ok := q.(ast.Stmt); ok {
				break
			}
		}
		if needsDefault {
			return true
		}
		// not under a condition that looks the field up in the enclosing defaults
		under := false
		for _, ce := range enclosingConds(parents, c) {
			text := exprString(ce.stmt.Cond)
			if init, ok := ce.stmt.Init.(*ast.AssignStmt); ok && len(init.Rhs) == 1 {
				text += exprString(init.Rhs[0])
			}
			if strings.Contains(text, "extraDefaults") && !ce.inElse {
				under = true
			}
			// `v, found := extraDefaults[name]; …; if found {`
			if id, ok := ast.Unparen(ce.stmt.Cond).(*ast.Ident); ok && !ce.inElse && fromOverrides[objOf(p.TypesInfo, id)] {
				under = true
			}
		}
		if !under {
			handled = true
		}
		return true
	})
	r.Count("constructors of union wrappers in struct defaults", 1)
	r.Check(handled, "skeleton/go-required-union-initialised", "golang.RawTypes.defaultsForStructRec initialises required unions", fd.Pos(), "a required field typed by a union wrapper is given a value with one branch set",
		"defaultsForStructRec only selects a branch of a union wrapper for a default found in the enclosing struct's default: a required `other: string | bool` is initialised with *NewStringOrBool() — no branch set — and json.Marshal(NewRoot()) is {\"other\":null}, which the emitted schema (anyOf[string, boolean], required) rejects")
}

// c12FifthRound — fourth hunt:
//   - the items of a list, the values of a map and the branches of a union carry a default of their own in the IR (the
//     front-ends read it): formatArray / formatMap / formatDisjunction format them through a function that writes it;
//   - what CUE itself defines (`time.Duration`, `net.IP`) is no object an input can provide: the CUE front-end does not
//     hand it to externalReferenceFunc — the reference would never resolve in the emitted documents;
//   - the keys of components.schemas are restricted by OpenAPI (`^[a-zA-Z0-9._-]+$`), those of `definitions` are not: the
//     OpenAPI jenny tests the names it takes from the JSON Schema jenny and fails on the others.
func c12FifthRound(ctx *Ctx, r *Report, p *packages.Package) {
	info := p.TypesInfo
	n := 0
	// (a)
	writesDefault := func(fn *types.Func) bool {
		fd, _ := ctx.DeclOf(fn)
		if fd == nil || fd.Body == nil {
			return false
		}
		params := map[types.Object]bool{}
		for _, f := range fd.Type.Params.List {
			for _, nm := range f.Names {
				params[info.Defs[nm]] = true
			}
		}
		found := false
		ast.Inspect(fd.Body, func(m ast.Node) bool {
			c, ok := m.(*ast.CallExpr)
			if !ok || len(c.Args) != 2 {
				return true
			}
			if f := callee(info, c); f == nil || f.Name() != "Set" {
				return true
			}
			if tv, ok := info.Types[c.Args[0]]; !ok || tv.Value == nil || tv.Value.Kind() != constant.String || constant.StringVal(tv.Value) != "default" {
				return true
			}
			if sel, ok := ast.Unparen(c.Args[1]).(*ast.SelectorExpr); ok && sel.Sel.Name == "Default" {
				if id, ok := ast.Unparen(sel.X).(*ast.Ident); ok && params[objOf(info, id)] {
					found = true
				}
			}
			return true
		})
		return found
	}
	for _, spec := range []struct{ method, position, example string }{
		{"formatArray", "ValueType", "`tags: [...(string | *\"x\")]` is emitted with \"items\": {\"type\": \"string\"}"},
		{"formatMap", "ValueType", "`limits: [string]: int | *3` is emitted with \"additionalProperties\": {\"type\": \"integer\"}"},
		{"formatDisjunction", "Branches", "`anyOf: [{type: string, default: auto}, {type: integer}]` is emitted without the default of its first branch"},
	} {
		fd := c12Method(p, spec.method)
		if fd == nil {
			r.Undecided("anchor lost: jsonschema.Schema." + spec.method)
			continue
		}
		var formatter *types.Func
		ast.Inspect(fd.Body, func(m ast.Node) bool {
			c, ok := m.(*ast.CallExpr)
			if !ok {
				return true
			}
			for i, a := range c.Args {
				sel, ok := ast.Unparen(a).(*ast.SelectorExpr)
				if !ok || sel.Sel.Name != spec.position {
					continue
				}
				if f := callee(info, c); f != nil && funcIs(f, toolsPkgPath, "Map") && i == 0 && len(c.Args) == 2 {
					// tools.Map(branches, jenny.<formatter>)
					if fs, ok := ast.Unparen(c.Args[1]).(*ast.SelectorExpr); ok {
						formatter, _ = info.Uses[fs.Sel].(*types.Func)
					}
				} else if f != nil && f.Pkg() == p.Types {
					formatter = f
				}
			}
			return true
		})
		if formatter == nil {
			r.Undecided("anchor changed: jsonschema.Schema." + spec.method + " hands its " + spec.position + " to no function of the jenny")
			continue
		}
		n++
		r.Check(writesDefault(formatter), "skeleton/element-defaults-emitted", "jsonschema."+spec.method+" formats "+spec.position, fd.Pos(), "through "+formatter.Name()+", which writes the default the type carries",
			"jsonschema."+spec.method+" formats its "+spec.position+" through "+formatter.Name()+", which never looks at the default of the type it is given — only struct fields and objects get one: "+spec.example+", and the document fed back into cog gives an IR without that default")
	}
	// (b)
	if fp := ctx.Pkg("internal/simplecue"); fp == nil {
		r.Undecided("anchor lost: internal/simplecue")
	} else if fd := c12Method(fp, "declareReference"); fd == nil {
		r.Undecided("anchor lost: simplecue.generator.declareReference")
	} else {
		finfo := fp.TypesInfo
		parents := parentMap(fd)
		calls := 0
		ast.Inspect(fd.Body, func(m ast.Node) bool {
			c, ok := m.(*ast.CallExpr)
			if !ok {
				return true
			}
			sel, ok := ast.Unparen(c.Fun).(*ast.SelectorExpr)
			if !ok || sel.Sel.Name != "externalReferenceFunc" {
				return true
			}
			calls++
			// an earlier statement of an enclosing block returns under a test on the origin of the referred value
			// (a method of cue.Value telling where it comes from: Pos, Source, BuildInstance)
			guarded := false
			var node ast.Node = c
			for node != nil && !guarded {
				parent := parents[node]
				if blk, ok := parent.(*ast.BlockStmt); ok {
					for _, st := range blk.List {
						if st.End() > node.Pos() {
							break
						}
						ifs, ok := st.(*ast.IfStmt)
						if !ok {
							continue
						}
						asksOrigin := false
						for _, part := range []ast.Node{ifs.Init, ifs.Cond} {
							if part == nil {
								continue
							}
							ast.Inspect(part, func(k ast.Node) bool {
								if kc, ok := k.(*ast.CallExpr); ok {
									if f := callee(finfo, kc); f != nil && f.Pkg() != nil && f.Pkg().Path() == "cuelang.org/go/cue" {
										switch f.Name() {
										case "Pos", "Source", "BuildInstance":
											asksOrigin = true
										}
									}
								}
								return true
							})
						}
						returns := false
						ast.Inspect(ifs.Body, func(k ast.Node) bool {
							if _, ok := k.(*ast.ReturnStmt); ok {
								returns = true
							}
							return true
						})
						if asksOrigin && returns {
							guarded = true
						}
					}
				}
				node = parent
			}
			n++
			r.Check(guarded, "frontier/cue-builtin-definitions-described", "simplecue.declareReference hands a foreign reference to externalReferenceFunc", c.Pos(), "after a test on where the referred value is defined (what CUE itself defines returns earlier)",
				"every reference into another CUE package becomes a reference to an object of that package — `time.Duration`, `net.IP` included, which no input can provide: the emitted documents hold \"$ref\": \"#/definitions/Duration\" with no such definition, and every loader rejects them")
			return true
		})
		if calls == 0 {
			r.Undecided("anchor changed: simplecue.declareReference no longer calls externalReferenceFunc")
		}
	}
	// (c)
	if op := ctx.Pkg("internal/jennies/openapi"); op == nil {
		r.Undecided("anchor lost: internal/jennies/openapi")
	} else if fd := c12Method(op, "generateSchema"); fd == nil {
		r.Undecided("anchor lost: openapi.Schema.generateSchema")
	} else {
		oinfo := op.TypesInfo
		matches := false
		var matchPos token.Pos
		ast.Inspect(fd.Body, func(m ast.Node) bool {
			c, ok := m.(*ast.CallExpr)
			if !ok {
				return true
			}
			if f := callee(oinfo, c); f != nil && f.Pkg() != nil && f.Pkg().Path() == "regexp" && strings.HasPrefix(f.Name(), "Match") {
				matches = true
				matchPos = c.Pos()
			}
			return true
		})
		// an error exit after the test
		fails := false
		ast.Inspect(fd.Body, func(m ast.Node) bool {
			rs, ok := m.(*ast.ReturnStmt)
			if !ok || len(rs.Results) != 2 || rs.Pos() < matchPos {
				return true
			}
			if c, ok := ast.Unparen(rs.Results[1]).(*ast.CallExpr); ok {
				if f := callee(oinfo, c); f != nil && f.Pkg() != nil && (f.Pkg().Path() == "fmt" || f.Pkg().Path() == "errors") {
					fails = true
				}
			}
			return true
		})
		n++
		r.Check(matches && fails, "keywords/openapi-component-keys-checked", "openapi.Schema.generateSchema names the components", fd.Pos(), "the names taken from the JSON Schema jenny are matched against a pattern, and the run fails on a mismatch",
			"components.schemas receives the `definitions` of the JSON Schema jenny as they are: an object called `My Type` or `Page«Item»` (legal in JSON Schema) gives a document OpenAPI validators — cog's own OpenAPI input included — reject: identifier \"My Type\" is not supported by OpenAPIv3 standard")
	}
	r.Count("hunted clauses of the emitted documents (5th round)", n)
	r.Floor("hunted clauses of the emitted documents (5th round)", 5)
}

// c12SixthRound — fifth hunt:
//   - the wire name of a field is written in a Go struct tag, which encoding/json reads its own way (the text before the
//     first comma; a name with a quote or a backslash is ignored; `-` means "not encoded"): the Go types jenny checks
//     the names of the fields against what a tag can carry, and fails otherwise — `"size,unit"` was encoded under `size`,
//     `"owner's"` under `OwnerS`, `"-"` not at all, against an emitted schema that keeps the names;
//   - (findings, known constructs) two unions that differ by the value type of a map branch share one Go wrapper; a
//     named date-time is a defined type without time.Time's JSON methods and encodes as `{}`.
func c12SixthRound(ctx *Ctx, r *Report) {
	fn := ctx.LookupMethod("internal/jennies/golang", "RawTypes", "generateSchema")
	fd, p := ctx.DeclOf(fn)
	if fd == nil {
		r.Undecided("anchor lost: golang.RawTypes.generateSchema")
		return
	}
	info := p.TypesInfo
	checksTags := false
	ast.Inspect(fd.Body, func(m ast.Node) bool {
		is, ok := m.(*ast.IfStmt)
		if !ok || !endsInExit(is.Body) {
			return true
		}
		as, ok := is.Init.(*ast.AssignStmt)
		if !ok || len(as.Rhs) != 1 {
			return true
		}
		c, ok := ast.Unparen(as.Rhs[0]).(*ast.CallExpr)
		if !ok {
			return true
		}
		f := callee(info, c)
		if f == nil || f.Pkg() != p.Types {
			return true
		}
		// the callee (one level) tests field names against the characters of a tag: it mentions the comma-free set or
		// calls a predicate that ranges over the runes of a name, and reads `.Fields`
		hfd, _ := ctx.DeclOf(f)
		if hfd == nil || hfd.Body == nil {
			return true
		}
		readsFields, testsNames := false, false
		ast.Inspect(hfd.Body, func(k ast.Node) bool {
			switch x := k.(type) {
			case *ast.SelectorExpr:
				if x.Sel.Name == "Fields" {
					readsFields = true
				}
			case *ast.CallExpr:
				if pf := callee(info, x); pf != nil && pf.Pkg() == p.Types {
					if pfd, _ := ctx.DeclOf(pf); pfd != nil && pfd.Body != nil {
						ast.Inspect(pfd.Body, func(q ast.Node) bool {
							if rs, ok := q.(*ast.RangeStmt); ok {
								if b, ok := info.TypeOf(rs.X).Underlying().(*types.Basic); ok && b.Info()&types.IsString != 0 {
									testsNames = true
								}
							}
							return true
						})
					}
				}
			}
			return true
		})
		if readsFields && testsNames {
			checksTags = true
		}
		return true
	})
	r.Count("hunted clauses of the emitted documents (6th round)", 1)
	r.Check(checksTags, "keywords/go-tag-names-checked", "golang.RawTypes.generateSchema writes field names into struct tags", fd.Pos(), "after a check of the names against what a tag can carry, with an error exit",
		"the Go types jenny writes the name of a field into `json:\"…\"` as it is: `\"size,unit\"` is read by encoding/json as the name `size` with an option, `\"owner's\"` is ignored (the key becomes OwnerS), `\"-\"` means \"not encoded\" — every encoding of the type misses and adds properties for the emitted schema, which keeps the names and has additionalProperties: false")
}

// c12SeventhRound — sixth hunt of C12 (a finding): the Go constructor leaves a required field typed by a reference to an
// enum at its zero value ("" / 0), which is no member: json.Marshal(NewRoot()) does not validate against the emitted
// schema. The condition that decides which fields the constructor initialises has a clause for required enums (the branch
// that picks the first member exists already, and is only reached when a default is declared).
func c12SeventhRound(ctx *Ctx, r *Report) {
	fn := ctx.LookupMethod("internal/jennies/golang", "RawTypes", "defaultsForStructRec")
	fd, _ := ctx.DeclOf(fn)
	if fd == nil {
		r.Undecided("anchor lost: golang.RawTypes.defaultsForStructRec")
		return
	}
	found, enums := false, false
	ast.Inspect(fd.Body, func(m ast.Node) bool {
		as, ok := m.(*ast.AssignStmt)
		if !ok || len(as.Lhs) != 1 || len(as.Rhs) != 1 {
			return true
		}
		if id, ok := as.Lhs[0].(*ast.Ident); !ok || id.Name != "needsExplicitDefault" {
			return true
		}
		found = true
		ast.Inspect(as.Rhs[0], func(q ast.Node) bool {
			if be, ok := q.(*ast.BinaryExpr); ok && be.Op == token.LAND {
				text := exprString(be)
				if strings.Contains(text, ".Required") && strings.Contains(text, "IsEnum()") {
					enums = true
				}
			}
			return true
		})
		return true
	})
	if !found {
		r.Undecided("anchor changed: defaultsForStructRec no longer computes needsExplicitDefault")
	}
	r.Count("hunted clauses of the schema-agreement rules (7th round)", 1)
	r.Check(enums, "skeleton/go-required-enum-initialised", "golang.defaultsForStructRec decides which fields the constructor initialises", fd.Pos(), "required references to enums among them",
		"a required field typed by a reference to an enum gets no initial value: `#Mode: \"one\" | \"two\"; #Level: 1 | 2; #Root: {mode: #Mode, level: #Level}` — json.Marshal(NewRoot()) is {\"mode\":\"\",\"level\":0}, which the emitted definition of Root rejects ('/mode' value must be one of \"one\", \"two\"); Python starts from the first member")
}
