package main

// C03 — determinism. Engine E1 "maporder": every `range` over a Go map in the
// generation pipeline is classified; a site is order-insensitive iff every
// effect of its body that outlives one iteration matches one of the frozen
// idioms I1..I5 (see DESIGN.md §3.C03).

import (
	"fmt"
	"go/ast"
	"go/token"
	"go/types"
	"sort"
	"strings"

	"golang.org/x/tools/go/packages"
)

func init() { register("C03", checkC03) }

// Developer tools that are not part of a generation run.
var c03ExcludedPkgs = map[string]string{
	modulePath + "/cmd/compiler-passes-docs": "documentation generator for maintainers, not part of `cog generate`/`cog inspect`",
	modulePath + "/cmd/cog-config-schemas":   "schema reflector for maintainers, not part of a generation run",
}

const codejenPath = "github.com/grafana/codejen"

// Emission loops whose body is (a large part of) a language back-end. The
// structural part of I5 is still verified on every run (path-keyed sink, path
// derived from the loop key, no direct outer store other than the result slice
// and per-iteration helper state); what is NOT re-derived is that the helpers
// called from the body keep no state across iterations. One reason per entry.
// c03ExemptAllowedState: for an exempt emission loop, the outer state its callees may
// write ("<root>.<first field>"; "*" = anything). Helper state re-assigned at the top of the
// body is always allowed. Anything else is reported: it would carry data across iterations.
var c03ExemptAllowedState = map[string][]string{
	"internal/codegen.Pipeline.Run range targetsByLanguage":                        {"*"},
	"internal/jennies/java.Factory.Generate range factoryByPackage":                {},
	"internal/jennies/common.APIReference.referenceForSchema range virtualObjects": {},
}

var c03EmissionExemptions = map[string]string{
	"internal/codegen.Pipeline.Run range targetsByLanguage":                        "the body is a whole language back-end; iterations are independent iff C07's clauses hold (passes run on copies, no package-level state, per-language Language values); every output path is prefixed by the language's directory; all files go through the path-keyed codejen.FS",
	"internal/jennies/java.Factory.Generate range factoryByPackage":                "one file per package; generateFactories builds its import map and formatter locally; factoryByPackage partitions factories by package; the Java template set has no access to the API reference collector (checked by maporder/templates-reach-collector)",
	"internal/jennies/common.APIReference.referenceForSchema range virtualObjects": "one file per virtual object, path derived from the object reference; formatters are per-language closures that only read their arguments",
}

type mapSite struct {
	pkg  *packages.Package
	fd   *ast.FuncDecl
	fobj *types.Func
	rs   *ast.RangeStmt
	key  types.Object
	val  types.Object
}

type c03State struct {
	ctx        *Ctx
	r          *Report
	eng        *effectsEngine
	mapOrdered map[*types.Func]string // functions returning map-ordered slices -> why
	exemptSeen map[string]bool
}

func checkC03(ctx *Ctx, r *Report) {
	r.Explanation = "Every `range` over a Go map in cog's pipeline packages is enumerated (type-resolved) and its body classified by an interprocedural effect analysis: a site is order-insensitive iff every effect that outlives an iteration is (I1) a map write keyed by the loop key, (I2) an append to a slice / insertion into an ordered map that is sorted before any other use, (I3) a commutative update (constant flag, counter, set insert, delete), (I4) an early exit guarded by `key == x`, or (I5) emission of a path-keyed codejen.File whose path derives from the key, with per-iteration helper state reset at the top of the body. Early returns of a non-nil error are ignored (no files are produced). Functions that return a slice in map order pass the obligation to every caller. Besides map ranges, the scan asserts that the pipeline has no other scheduling freedom: no go statements, select, time.Now, math/rand, crypto/rand, os.Getenv/Environ, reflect MapKeys/MapRange, %p, or sync primitives."
	r.NotCovered = "nondeterminism inside third-party libraries (cue, kin-openapi, jsonschema, codejen, goimports); whether two runs read the same files; key-derivation through a conversion function is assumed injective."
	r.Exhaustive = true
	r.Trusted = []string{"codejen.FS is path-keyed, sorts on output and rejects duplicate paths", "text/template and encoding/json iterate maps in sorted key order", "fmt prints maps in sorted key order"}
	r.Assumptions = []string{"a key passed through a conversion function (e.g. FieldReferenceFromString(key)) still identifies one map entry", "dynamic calls of func values with value-only signatures (string → string interpolators) have no side effects", "in file-emission loops, helper state stored in receiver fields is per-iteration when it is re-assigned at the top of the loop body"}

	st := &c03State{ctx: ctx, r: r, eng: newEffectsEngine(ctx), mapOrdered: map[*types.Func]string{}, exemptSeen: map[string]bool{}}
	var sites []mapSite
	for _, p := range ctx.Pkgs {
		if _, skip := c03ExcludedPkgs[p.PkgPath]; skip {
			continue
		}
		for _, f := range p.Syntax {
			for _, d := range f.Decls {
				fd, ok := d.(*ast.FuncDecl)
				if !ok || fd.Body == nil {
					continue
				}
				fobj := p.TypesInfo.Defs[fd.Name].(*types.Func)
				ast.Inspect(fd.Body, func(n ast.Node) bool {
					rs, ok := n.(*ast.RangeStmt)
					if !ok {
						return true
					}
					if _, isMap := p.TypesInfo.TypeOf(rs.X).Underlying().(*types.Map); isMap {
						s := mapSite{pkg: p, fd: fd, fobj: fobj, rs: rs}
						if id, ok := rs.Key.(*ast.Ident); ok && id.Name != "_" {
							s.key = objOf(p.TypesInfo, id)
						}
						if id, ok := rs.Value.(*ast.Ident); ok && id.Name != "_" {
							s.val = objOf(p.TypesInfo, id)
						}
						sites = append(sites, s)
					}
					return true
				})
			}
		}
	}
	for pth, why := range c03ExcludedPkgs {
		r.Note("excluded from the scan: %s (%s)", ctx.RelPkg(pth), why)
	}
	r.Count("map range sites", len(sites))
	r.Floor("map range sites", 25)
	for _, s := range sites {
		st.classify(s)
	}
	for k := range c03EmissionExemptions {
		if !st.exemptSeen[k] {
			r.Note("stale emission exemption (site gone): %s", k)
		}
	}
	st.checkMapOrderedCallers()
	st.otherSources()
	// the languages of one run are processed in map order: their outputs are independent only if each chain works on its own copy
	checkProcessCopiesFirst(ctx, r, "copycheck/use")
	c18IRCopies(ctx, r)
	c03ReferenceParsersVerbatim(ctx, r)
	c07SortedValueUsed(ctx, r)
	c03FirstWinsReached(ctx, r)
	c07HuntedRules(ctx, r)
	c03TemplatesReachCollector(ctx, r)
	c03AnchorsUnique(ctx, r)
}

func (st *c03State) siteName(s mapSite) string {
	return st.ctx.FuncName(s.fobj) + " range " + exprString(s.rs.X)
}

// derivesFrom reports whether e mentions obj or a body-local derived from it.
func derivesFrom(info *types.Info, e ast.Node, obj types.Object, body ast.Node) bool {
	if obj == nil || e == nil {
		return false
	}
	derived := map[types.Object]bool{obj: true}
	for changed := true; changed; {
		changed = false
		ast.Inspect(body, func(n ast.Node) bool {
			as, ok := n.(*ast.AssignStmt)
			if !ok {
				return true
			}
			for i, l := range as.Lhs {
				id, ok := l.(*ast.Ident)
				if !ok {
					continue
				}
				lo := objOf(info, id)
				if lo == nil || derived[lo] {
					continue
				}
				var rhs ast.Expr
				if len(as.Rhs) == len(as.Lhs) {
					rhs = as.Rhs[i]
				} else if len(as.Rhs) == 1 {
					rhs = as.Rhs[0]
				}
				if rhs != nil && mentionsAny(info, rhs, derived) {
					derived[lo] = true
					changed = true
				}
			}
			return true
		})
	}
	return mentionsAny(info, e, derived)
}

func mentionsAny(info *types.Info, e ast.Node, objs map[types.Object]bool) bool {
	found := false
	ast.Inspect(e, func(n ast.Node) bool {
		if id, ok := n.(*ast.Ident); ok && objs[objOf(info, id)] {
			found = true
		}
		return !found
	})
	return found
}

func isConstantish(info *types.Info, e ast.Expr) bool {
	e = ast.Unparen(e)
	if tv, ok := info.Types[e]; ok && tv.Value != nil {
		return true
	}
	if isNilIdent(info, e) {
		return true
	}
	if cl, ok := e.(*ast.CompositeLit); ok && len(cl.Elts) == 0 {
		return true // struct{}{} and friends
	}
	return false
}

func isSortCall(info *types.Info, call *ast.CallExpr) bool {
	fn := callee(info, call)
	if fn == nil || fn.Pkg() == nil {
		return false
	}
	switch fn.Pkg().Path() {
	case "sort":
		switch fn.Name() {
		case "Strings", "Ints", "Float64s", "Slice", "SliceStable", "Sort", "Stable":
			return true
		}
	case "slices":
		return strings.HasPrefix(fn.Name(), "Sort")
	}
	return false
}

func isFileType(t types.Type) bool {
	if sl, ok := t.Underlying().(*types.Slice); ok {
		t = sl.Elem()
	}
	return isNamed(t, codejenPath, "File")
}

type collected struct {
	target ast.Expr
	elems  []ast.Expr
	node   ast.Node
}

func (st *c03State) classify(s mapSite) {
	info := s.pkg.TypesInfo
	name := st.siteName(s)
	body := s.rs.Body
	parents := parentMap(s.fd)
	var sensitive []string
	var idioms []string
	addS := func(pos token.Pos, format string, a ...any) {
		sensitive = append(sensitive, fmt.Sprintf("%s: %s", st.ctx.Pos(pos), fmt.Sprintf(format, a...)))
	}
	idiom := func(s string) {
		for _, i := range idioms {
			if i == s {
				return
			}
		}
		idioms = append(idioms, s)
	}
	isOuter := func(o types.Object) bool {
		if o == s.key || o == s.val {
			return false
		}
		return o.Pos() < body.Pos() || o.Pos() > body.End()
	}
	facts := st.eng.RegionFacts(s.pkg, body, isOuter)
	// self-feeding loop: the body stores into the very map it ranges over a value computed by a function that reads that
	// map — each iteration sees the entries already rewritten by the previous ones, in map order
	if mf := fieldOf(info, s.rs.X); mf != nil {
		ast.Inspect(body, func(n ast.Node) bool {
			as, ok := n.(*ast.AssignStmt)
			if !ok || len(as.Lhs) != len(as.Rhs) {
				return true
			}
			for i, l := range as.Lhs {
				ix, ok := ast.Unparen(l).(*ast.IndexExpr)
				if !ok || fieldOf(info, ix.X) != mf {
					continue
				}
				// the same field of another value (`newType.Hints[k] = …` while ranging over t.Hints, newType a fresh local)
				// is another map
				if !sameAccessPath(info, ix.X, s.rs.X) {
					if root := rootIdent(ix.X); root != nil {
						if _, isLocal := objOf(info, root).(*types.Var); isLocal && rootIdent(s.rs.X) != nil && objOf(info, root) != objOf(info, rootIdent(s.rs.X)) {
							continue
						}
					}
				}
				ast.Inspect(as.Rhs[i], func(q ast.Node) bool {
					if c, ok := q.(*ast.CallExpr); ok {
						if fn := callee(info, c); fn != nil && st.readsField(fn, mf, 0, map[*types.Func]bool{}) {
							addS(as.Pos(), "stores into %s, the map being ranged over, a value computed by %s, which reads that map: every iteration depends on the entries rewritten before it, in map iteration order", exprString(ix.X), st.ctx.FuncName(fn))
						}
					}
					return true
				})
			}
			return true
		})
	}
	inLit := enclosingFuncLit(parents, s.rs) != nil
	exemptReason, exempt := c03EmissionExemptions[name]

	// Is this an emission loop? (appends codejen.File to an outer slice)
	emission := false
	for _, f := range facts {
		if f.Direct && f.Kind == "append" {
			if as, ok := f.Node.(*ast.AssignStmt); ok {
				for _, l := range as.Lhs {
					if isFileType(info.TypeOf(l)) {
						emission = true
					}
				}
			}
		}
	}
	fsSink := false
	if !emission {
		prefixed := false
		ast.Inspect(body, func(n ast.Node) bool {
			c, ok := n.(*ast.CallExpr)
			if !ok {
				return true
			}
			for _, a := range c.Args {
				if isNamed(info.TypeOf(a), codejenPath, "FS") {
					if ap := accessPathOf(info, a); ap.ok && isOuter(ap.root) {
						fsSink = true
					}
				}
			}
			if fn := callee(info, c); fn != nil && fn.Name() == "PathPrefixer" && len(c.Args) == 1 && derivesFrom(info, c.Args[0], s.key, body) {
				prefixed = true
			}
			return true
		})
		if fsSink && prefixed {
			emission = true
			idiom("I5 merge into a path-keyed codejen.FS under a prefix derived from the loop key")
		} else if fsSink {
			addS(s.rs.Pos(), "files are merged into a shared codejen.FS without a path prefix derived from the loop key")
		}
	}
	// per-iteration state: outer variables / receiver fields re-assigned at the
	// top level of the body, before being accumulated into (emission loops only)
	reset := map[string]bool{} // rootObj name + "." + first field name
	resetKey := func(root types.Object, path []*types.Var) string {
		k := ""
		if root != nil {
			k = fmt.Sprint(root.Pos())
		}
		if len(path) > 0 {
			k += "." + path[0].Name()
		}
		return k
	}
	if emission {
		for _, stmt := range body.List {
			as, ok := stmt.(*ast.AssignStmt)
			if !ok || as.Tok != token.ASSIGN || len(as.Lhs) != len(as.Rhs) {
				continue
			}
			for i, l := range as.Lhs {
				ap := accessPathOf(info, l)
				if !ap.ok || !isOuter(ap.root) {
					continue
				}
				// RHS must not read the target (no accumulation)
				selfRef := false
				ast.Inspect(as.Rhs[i], func(n ast.Node) bool {
					if e, ok := n.(ast.Expr); ok && sameAccessPath(info, e, l) {
						selfRef = true
					}
					return !selfRef
				})
				if selfRef {
					continue
				}
				var path []*types.Var
				for _, sp := range ap.steps {
					if sp.field != nil {
						path = append(path, sp.field)
					}
				}
				reset[resetKey(ap.root, path)] = true
			}
		}
	}

	var colls []collected
	counters := map[types.Object]bool{}
	omapLeaks := map[string]regionFact{}

	for _, f := range facts {
		// per-iteration state
		if f.RootObj != nil && reset[resetKey(f.RootObj, f.Path)] {
			idiom("I5 per-iteration helper state (re-assigned at top of body)")
			continue
		}
		if !f.Direct || strings.HasPrefix(f.Kind, "external:") {
			if exempt && emission {
				allowed := false
				state := "?"
				if f.RootObj != nil {
					state = f.RootObj.Name()
					if len(f.Path) > 0 {
						state += "." + f.Path[0].Name()
					}
				}
				for _, a := range c03ExemptAllowedState[name] {
					if a == "*" || a == state {
						allowed = true
					}
				}
				if f.RootObj == nil && f.Root == rootUnknown && (f.ArgRooted || strings.HasPrefix(f.Kind, "dynamic:")) {
					allowed = true // writes through arguments of per-language closures: per-iteration values
				}
				if allowed {
					idiom("I5 callee effects not re-derived (exemption table: " + exemptReason + ")")
				} else {
					addS(f.Pos, "callee writes outer state %s that is neither re-created at the top of the loop body nor in the exemption table's allowed state (%s): data may carry over between iterations in map order", state, f.String())
				}
				continue
			}
			st.classifyCallFact(s, f, addS, idiom, omapLeaks)
			continue
		}
		switch n := f.Node.(type) {
		case *ast.CallExpr: // delete(m, k)
			idiom("I3 delete")
		case *ast.IncDecStmt:
			idiom("I3 counter")
			if ap := accessPathOf(info, n.X); ap.ok {
				counters[ap.root] = true
			}
		case *ast.AssignStmt:
			for i, l := range n.Lhs {
				ap := accessPathOf(info, l)
				if !ap.ok || !(isOuter(ap.root) || isGlobalVar(ap.root)) {
					continue
				}
				var rhs ast.Expr
				if len(n.Rhs) == len(n.Lhs) {
					rhs = n.Rhs[i]
				}
				lu := ast.Unparen(l)
				if ix, ok := lu.(*ast.IndexExpr); ok {
					if _, isMap := info.TypeOf(ix.X).Underlying().(*types.Map); isMap {
						switch {
						case derivesFrom(info, ix.Index, s.key, body):
							idiom("I1 keyed map write")
							if rhs != nil && mentionsAny(info, rhs, counters) {
								addS(n.Pos(), "value written under the loop key depends on a counter updated in iteration order")
							}
						case rhs != nil && isConstantish(info, rhs):
							idiom("I3 set insert")
						default:
							addS(n.Pos(), "%s: map entry not keyed by the loop key is overwritten/accumulated in iteration order (last writer wins / bucket order)", exprString(l))
						}
						continue
					}
					addS(n.Pos(), "%s: indexed store into an outer slice in iteration order", exprString(l))
					continue
				}
				errT := types.Universe.Lookup("error").Type()
				switch {
				case types.Identical(info.TypeOf(l), errT):
					idiom("error variable (error path: the run fails)")
				case f.Kind == "append":
					c := rhs.(*ast.CallExpr)
					colls = append(colls, collected{target: l, elems: c.Args[1:], node: n})
				case n.Tok == token.ADD_ASSIGN || n.Tok == token.SUB_ASSIGN || n.Tok == token.OR_ASSIGN || n.Tok == token.AND_ASSIGN:
					if b, ok := info.TypeOf(l).Underlying().(*types.Basic); ok && b.Info()&types.IsString != 0 {
						addS(n.Pos(), "%s: string concatenation in iteration order", exprString(l))
					} else {
						idiom("I3 commutative reduction")
						counters[ap.root] = true
					}
				case rhs != nil && isConstantish(info, rhs):
					idiom("I3 constant flag")
				default:
					addS(n.Pos(), "%s is assigned a value that depends on the iteration (last writer wins) — first/last match selection", exprString(l))
				}
			}
		}
	}

	// collected appends
	for _, c := range colls {
		t := info.TypeOf(c.target)
		if isFileType(t) {
			ok := false
			for _, e := range c.elems {
				if derivesFrom(info, e, s.key, body) || derivesFrom(info, e, s.val, body) {
					ok = true
				}
			}
			if ok {
				idiom("I5 path-keyed file emission")
			} else {
				addS(c.node.Pos(), "emitted file does not derive its path from the loop key: path collisions/ordering not excluded")
			}
			continue
		}
		if why, ok := st.sortedAfter(s, c.target, parents); ok {
			idiom("I2 collect-then-sort (" + why + ")")
			continue
		}
		// returned as is? then callers inherit the obligation
		if id, ok := ast.Unparen(c.target).(*ast.Ident); ok && !inLit && st.isReturnedUnsorted(s, objOf(info, id)) {
			st.mapOrdered[s.fobj] = name
			idiom("returns a map-ordered slice: obligation passed to callers")
			continue
		}
		addS(c.node.Pos(), "%s is appended to in map iteration order and not sorted before use", exprString(c.target))
	}

	// ordered-map insertion leaks
	for _, f := range omapLeaks {
		if why, ok := st.omapSortedLater(s, f); ok {
			idiom("I2 ordered-map insert, sorted later (" + why + ")")
		} else {
			addS(f.Pos, "insertion into an ordered map in map iteration order (%s) with no later Sort on that map", f.String())
		}
	}

	// control flow: first-match exits
	ast.Inspect(body, func(n ast.Node) bool {
		if _, ok := n.(*ast.FuncLit); ok {
			return false
		}
		switch x := n.(type) {
		case *ast.ReturnStmt:
			if isErrorReturn(info, x) {
				return true
			}
			if st.guardedByKeyEq(info, parents, x, s, body) {
				idiom("I4 keyed lookup")
				return true
			}
			addS(x.Pos(), "returns from inside the loop on a condition that several entries may satisfy: the first match in iteration order wins")
		case *ast.BranchStmt:
			if x.Tok != token.BREAK && x.Tok != token.GOTO {
				return true
			}
			// break of an inner loop/switch?
			for p := parents[x]; p != nil && p != s.rs; p = parents[p] {
				switch p.(type) {
				case *ast.ForStmt, *ast.RangeStmt, *ast.SwitchStmt, *ast.TypeSwitchStmt, *ast.SelectStmt:
					if x.Label == nil {
						return true
					}
				}
			}
			if st.guardedByKeyEq(info, parents, x, s, body) {
				idiom("I4 keyed lookup")
				return true
			}
			addS(x.Pos(), "breaks out of the map loop on a condition that several entries may satisfy: the first match in iteration order wins")
		}
		return true
	})

	if exempt && !emission {
		addS(s.rs.Pos(), "site is in the emission exemption table but no longer emits path-keyed files")
	}
	if exempt {
		st.exemptSeen[name] = true
	}
	sort.Strings(idioms)
	if len(sensitive) == 0 {
		if len(idioms) == 0 {
			idioms = []string{"no effect outlives an iteration"}
		}
		st.r.OK("maporder/site", name, s.rs.Pos(), "order-insensitive: "+strings.Join(idioms, "; "))
	} else {
		st.r.Bad("maporder/site", name, s.rs.Pos(), "order-sensitive: "+strings.Join(sensitive, " | "))
	}
}

func isGlobalVar(o types.Object) bool {
	v, ok := o.(*types.Var)
	return ok && v.Pkg() != nil && v.Parent() == v.Pkg().Scope()
}

func isErrorReturn(info *types.Info, rs *ast.ReturnStmt) bool {
	if len(rs.Results) == 0 {
		return false
	}
	last := rs.Results[len(rs.Results)-1]
	if isNilIdent(info, last) {
		return false
	}
	t := info.TypeOf(last)
	if t == nil {
		return false
	}
	errT := types.Universe.Lookup("error").Type()
	return types.Identical(t, errT) || (types.AssignableTo(t, errT) && !isEmptyInterface(t) && t.String() != "untyped nil")
}

// guardedByKeyEq: some enclosing `if` (inside the loop) tests key == e.
func (st *c03State) guardedByKeyEq(info *types.Info, parents map[ast.Node]ast.Node, n ast.Node, s mapSite, body ast.Node) bool {
	for _, c := range enclosingConds(parents, n) {
		if !containsNode(body, c.stmt) || c.inElse {
			continue
		}
		ok := false
		ast.Inspect(c.stmt.Cond, func(m ast.Node) bool {
			if be, isBin := m.(*ast.BinaryExpr); isBin && be.Op == token.EQL {
				if isIdentOf(info, be.X, s.key) && !derivesFrom(info, be.Y, s.key, body) || isIdentOf(info, be.Y, s.key) && !derivesFrom(info, be.X, s.key, body) {
					ok = true
				}
			}
			return true
		})
		if ok {
			return true
		}
	}
	return false
}

// sortedAfter: the first use of target after the loop (in source order, within
// the enclosing function) is a sort call on it.
func (st *c03State) sortedAfter(s mapSite, target ast.Expr, parents map[ast.Node]ast.Node) (string, bool) {
	info := s.pkg.TypesInfo
	var first ast.Node
	var firstCall *ast.CallExpr
	ast.Inspect(s.fd.Body, func(n ast.Node) bool {
		if first != nil {
			return false
		}
		e, ok := n.(ast.Expr)
		if !ok || e.Pos() < s.rs.End() {
			return true
		}
		if sameAccessPath(info, e, target) {
			first = e
			for p := parents[e]; p != nil; p = parents[p] {
				if c, ok := p.(*ast.CallExpr); ok {
					firstCall = c
					break
				}
				if _, ok := p.(ast.Stmt); ok {
					break
				}
			}
			return false
		}
		return true
	})
	if first == nil {
		return "", false
	}
	if firstCall != nil && isSortCall(info, firstCall) && len(firstCall.Args) > 0 && sameAccessPath(info, firstCall.Args[0], target) {
		if len(firstCall.Args) >= 2 {
			if !plainKeyComparator(info, firstCall.Args[1]) {
				return "", false
			}
		}
		return "sorted by " + exprString(firstCall.Fun) + " before any other use", true
	}
	return "", false
}

// plainKeyComparator: the comparator is `return a.K < b.K` (or >, or
// strings.Compare / cmp.Compare of the two), both sides being the same
// selector path with no function applied to the key. A comparator that
// transforms the key (ToLower, len, …) can tie on distinct keys, and an
// unstable sort then lets the map iteration order through.
func plainKeyComparator(info *types.Info, e ast.Expr) bool {
	fl, ok := ast.Unparen(e).(*ast.FuncLit)
	if !ok {
		return false
	}
	if len(fl.Body.List) != 1 {
		return false
	}
	rs, ok := fl.Body.List[0].(*ast.ReturnStmt)
	if !ok || len(rs.Results) != 1 {
		return false
	}
	var a, b ast.Expr
	switch x := ast.Unparen(rs.Results[0]).(type) {
	case *ast.BinaryExpr:
		if x.Op != token.LSS && x.Op != token.GTR {
			return false
		}
		a, b = x.X, x.Y
	case *ast.CallExpr:
		fn := callee(info, x)
		if fn == nil || fn.Name() != "Compare" || len(x.Args) != 2 {
			return false
		}
		a, b = x.Args[0], x.Args[1]
	default:
		return false
	}
	hasCall := func(e ast.Expr) bool {
		found := false
		ast.Inspect(e, func(n ast.Node) bool {
			if _, ok := n.(*ast.CallExpr); ok {
				found = true
			}
			return !found
		})
		return found
	}
	if hasCall(a) || hasCall(b) {
		return false
	}
	// same shape on both sides: strip the differing index/param identifiers
	shape := func(e ast.Expr) string {
		var parts []string
		for {
			e = ast.Unparen(e)
			switch x := e.(type) {
			case *ast.SelectorExpr:
				parts = append(parts, x.Sel.Name)
				e = x.X
				continue
			case *ast.IndexExpr:
				parts = append(parts, "[]")
				e = x.X
				continue
			}
			break
		}
		return strings.Join(parts, ".")
	}
	return shape(a) == shape(b)
}

func (st *c03State) isReturnedUnsorted(s mapSite, obj types.Object) bool {
	if obj == nil {
		return false
	}
	info := s.pkg.TypesInfo
	ret := false
	ast.Inspect(s.fd.Body, func(n ast.Node) bool {
		if rs, ok := n.(*ast.ReturnStmt); ok && rs.Pos() > s.rs.End() {
			for _, res := range rs.Results {
				if isIdentOf(info, res, obj) {
					ret = true
				}
			}
		}
		return true
	})
	return ret
}

// classifyCallFact handles effects that reach outer state through a call.
func (st *c03State) classifyCallFact(s mapSite, f regionFact, addS func(token.Pos, string, ...any), idiom func(string), omapLeaks map[string]regionFact) {
	if strings.HasPrefix(f.Kind, "dynamic:") {
		// dynamic call: accept value-only signatures
		if call, ok := f.Node.(*ast.CallExpr); ok {
			if sig, ok := s.pkg.TypesInfo.TypeOf(call.Fun).Underlying().(*types.Signature); ok {
				valueOnly := true
				for i := 0; i < sig.Params().Len(); i++ {
					if typeContainsRef(sig.Params().At(i).Type()) {
						valueOnly = false
					}
				}
				if valueOnly && sig.Results().Len() > 0 {
					idiom("dynamic call with value-only signature (assumed pure)")
					return
				}
			}
		}
		addS(f.Pos, "call with unknown effects (%s)", f.Kind)
		return
	}
	if f.Root == rootUnknown {
		addS(f.Pos, "call with process-level effects in iteration order (%s)", f.String())
		return
	}
	// ordered-map representation writes: insertion-order leak (append to `order`)
	if fin := f.Final(); fin != nil && fin.Pkg() != nil && fin.Pkg().Path() == omapPkgPath {
		switch {
		case strings.HasSuffix(f.Via, "internal/orderedmap.Map.Remove"):
			idiom("I3 ordered-map removal")
		case strings.HasSuffix(f.Via, "internal/orderedmap.Map.Sort"):
			idiom("sorts an ordered map")
		case f.Kind == "append" || f.Kind == "store" && !f.Elem:
			key := f.PathString() + "@" + fmt.Sprint(f.Pos)
			omapLeaks[key] = f
		default:
			// records[k] = v : keyed by the callee's key; order-neutral by itself
			idiom("I1 ordered-map record store")
		}
		return
	}
	if f.ArgRooted {
		addS(f.Pos, "a function value invoked from the body writes through its arguments / captured variables (%s)", f.String())
		return
	}
	if strings.HasPrefix(f.Kind, "external:") {
		if strings.Contains(f.Kind, "sort.") || strings.Contains(f.Kind, "slices.Sort") {
			idiom("sorts an outer slice")
			return
		}
		addS(f.Pos, "accumulates into outer state in iteration order (%s)", f.String())
		return
	}
	if f.Kind == "delete" {
		idiom("I3 delete")
		return
	}
	if f.Kind == "store" && !f.Elem && st.storeIsRestoredOnReturn(f) {
		// `previous := g.x; g.x = …; defer func() { g.x = previous }()`: the field holds the new value for the time
		// of the call only — after each iteration it is what it was before
		idiom("scoped state restored by a deferred store (in callee)")
		return
	}
	if f.Kind == "store" && f.Counter {
		// x++ / x-- in a callee: the value after the loop does not depend on the order of the iterations —
		// as long as nothing but the test of a budget (an error exit: the run fails whatever the order) reads it
		if fin := f.Final(); fin != nil && st.counterOnlyGuardsErrors(fin) {
			idiom("I3 counter (in callee)")
			return
		}
	}
	if f.Kind == "store" && f.Elem && f.ConstRHS {
		if fin := f.Final(); fin != nil {
			if _, isMap := fin.Type().Underlying().(*types.Map); isMap {
				idiom("I3 set insert (in callee)")
				return
			}
		}
	}
	addS(f.Pos, "callee writes outer state in iteration order (%s)", f.String())
}

// omapSortedLater: a Sort on the same ordered-map field path exists after the
// loop in the same function, or in the function that constructs the receiver
// (the parser entry point) after its last other use.
func (st *c03State) omapSortedLater(s mapSite, f regionFact) (string, bool) {
	// container field: the last non-orderedmap field of the path
	var container *types.Var
	for _, fld := range f.Path {
		if fld.Pkg() != nil && fld.Pkg().Path() == omapPkgPath {
			break
		}
		container = fld
	}
	sortFn := st.ctx.LookupMethod("internal/orderedmap", "Map", "Sort")
	isSortOn := func(info *types.Info, call *ast.CallExpr) bool {
		if sortFn == nil || callee(info, call) != sortFn {
			return false
		}
		sel := call.Fun.(*ast.SelectorExpr)
		if container == nil {
			// outer local ordered map
			ap := accessPathOf(info, sel.X)
			return ap.ok && ap.root == f.RootObj
		}
		return fieldOf(info, sel.X) == container
	}
	info := s.pkg.TypesInfo
	found := false
	ast.Inspect(s.fd.Body, func(n ast.Node) bool {
		if c, ok := n.(*ast.CallExpr); ok && c.Pos() > s.rs.End() && isSortOn(info, c) {
			found = true
		}
		return true
	})
	if found {
		return "Sort after the loop", true
	}
	if container == nil || f.RootObj == nil {
		return "", false
	}
	// constructor of the root's type in the same package
	rootT := namedOf(f.RootObj.Type())
	if rootT == nil {
		return "", false
	}
	why := ""
	for _, file := range s.pkg.Syntax {
		for _, d := range file.Decls {
			fd, ok := d.(*ast.FuncDecl)
			if !ok || fd.Body == nil {
				continue
			}
			constructs := false
			var sortCall *ast.CallExpr
			ast.Inspect(fd.Body, func(n ast.Node) bool {
				if lit, ok := n.(*ast.CompositeLit); ok && namedOf(info.TypeOf(lit)) == rootT {
					constructs = true
				}
				if c, ok := n.(*ast.CallExpr); ok && isSortOn(info, c) {
					sortCall = c
				}
				return true
			})
			if !constructs || sortCall == nil {
				continue
			}
			// after the Sort, the constructed object is only returned / read
			later := false
			ast.Inspect(fd.Body, func(n ast.Node) bool {
				if c, ok := n.(*ast.CallExpr); ok && c.Pos() > sortCall.End() {
					if fn := callee(info, c); fn != nil {
						if sig := fn.Type().(*types.Signature); sig.Recv() != nil && namedOf(sig.Recv().Type()) == rootT {
							later = true
						}
					}
				}
				return true
			})
			if !later {
				fobj, _ := info.Defs[fd.Name].(*types.Func)
				why = "sorted by " + st.ctx.FuncName(fobj) + ", which constructs the " + rootT.Obj().Name() + " and sorts after its last method call"
			}
		}
	}
	return why, why != ""
}

// checkMapOrderedCallers: results of functions that return map-ordered slices
// must be sorted before use at each call site.
func (st *c03State) checkMapOrderedCallers() {
	// tools.Keys-like generic helpers: computed, not named
	for _, p := range st.ctx.Pkgs {
		if _, skip := c03ExcludedPkgs[p.PkgPath]; skip {
			continue
		}
		info := p.TypesInfo
		for _, file := range p.Syntax {
			for _, d := range file.Decls {
				fd, ok := d.(*ast.FuncDecl)
				if !ok || fd.Body == nil {
					continue
				}
				fobj, _ := info.Defs[fd.Name].(*types.Func)
				parents := parentMap(fd)
				ast.Inspect(fd.Body, func(n ast.Node) bool {
					call, ok := n.(*ast.CallExpr)
					if !ok {
						return true
					}
					fn := callee(info, call)
					if fn == nil {
						return true
					}
					src, isMO := st.mapOrdered[fn]
					if !isMO {
						return true
					}
					st.r.Count("call sites of map-ordered functions", 1)
					cons := st.ctx.FuncName(fobj) + " uses " + st.ctx.FuncName(fn)
					// result must be bound to a local that is sorted before any other use
					as, ok := parents[call].(*ast.AssignStmt)
					if ok && len(as.Lhs) == 1 {
						if id, ok := as.Lhs[0].(*ast.Ident); ok {
							s := mapSite{pkg: p, fd: fd, fobj: fobj, rs: &ast.RangeStmt{For: as.Pos(), Body: &ast.BlockStmt{Lbrace: as.Pos(), Rbrace: as.End()}}}
							if why, ok := st.sortedAfter(s, id, parents); ok {
								st.r.OK("maporder/map-ordered-result", cons, call.Pos(), why)
								return true
							}
						}
					}
					// only used for its length / in an error message?
					if st.onlyInErrorOrLen(info, parents, call) {
						st.r.OK("maporder/map-ordered-result", cons, call.Pos(), "result only feeds an error message / length")
						return true
					}
					st.r.Bad("maporder/map-ordered-result", cons, call.Pos(), fmt.Sprintf("result of %s is in map iteration order (%s) and is used without sorting", st.ctx.FuncName(fn), src))
					return true
				})
			}
		}
	}
}

func (st *c03State) onlyInErrorOrLen(info *types.Info, parents map[ast.Node]ast.Node, call *ast.CallExpr) bool {
	for p := parents[call]; p != nil; p = parents[p] {
		switch x := p.(type) {
		case *ast.CallExpr:
			if isBuiltinCall(info, x, "len") {
				return true
			}
			if fn := callee(info, x); fn != nil && fn.Pkg() != nil && (fn.Pkg().Path() == "fmt" && fn.Name() == "Errorf" || fn.Pkg().Path() == "errors") {
				return true
			}
		case ast.Stmt:
			return false
		}
	}
	return false
}

// otherSources asserts the absence of other scheduling freedom.
func (st *c03State) otherSources() {
	banned := map[string]map[string]bool{
		"time":         {"Now": true, "Since": true, "Until": true},
		"math/rand":    nil,
		"math/rand/v2": nil,
		"crypto/rand":  nil,
		"os":           {"Getenv": true, "Environ": true, "LookupEnv": true, "Getpid": true, "Hostname": true},
		"reflect":      {"MapKeys": true, "MapRange": true},
		"sync":         nil,
		"sync/atomic":  nil,
	}
	// packages where process-environment reads are the documented behaviour
	envOK := map[string]bool{modulePath + "/internal/envvars": true, modulePath + "/cmd/cli": true}
	n := 0
	for _, p := range st.ctx.Pkgs {
		if _, skip := c03ExcludedPkgs[p.PkgPath]; skip {
			continue
		}
		info := p.TypesInfo
		for _, file := range p.Syntax {
			ast.Inspect(file, func(node ast.Node) bool {
				switch x := node.(type) {
				case *ast.GoStmt:
					st.r.Bad("maporder/other-source", st.ctx.RelPkg(p.PkgPath)+" go statement", x.Pos(), "goroutine started in the pipeline: scheduling becomes a source of nondeterminism")
				case *ast.SelectStmt:
					st.r.Bad("maporder/other-source", st.ctx.RelPkg(p.PkgPath)+" select", x.Pos(), "select statement in the pipeline")
				case *ast.BasicLit:
					if x.Kind == token.STRING && strings.Contains(x.Value, "%p") {
						st.r.Bad("maporder/other-source", st.ctx.RelPkg(p.PkgPath)+" %p verb", x.Pos(), "pointer values formatted into text")
					}
				case *ast.SelectorExpr:
					obj := info.Uses[x.Sel]
					if obj == nil || obj.Pkg() == nil {
						return true
					}
					n++
					names, isBanned := banned[obj.Pkg().Path()]
					if !isBanned {
						return true
					}
					if names != nil && !names[obj.Name()] {
						return true
					}
					if obj.Pkg().Path() == "os" && (envOK[p.PkgPath] || strings.HasPrefix(p.PkgPath, modulePath+"/cmd/")) {
						return true
					}
					if _, isType := obj.(*types.TypeName); isType && obj.Pkg().Path() == "sync" {
						st.r.Bad("maporder/other-source", st.ctx.RelPkg(p.PkgPath)+" "+obj.Pkg().Path()+"."+obj.Name(), x.Pos(), "synchronisation primitive implies concurrency in the pipeline")
						return true
					}
					st.r.Bad("maporder/other-source", st.ctx.RelPkg(p.PkgPath)+" "+obj.Pkg().Path()+"."+obj.Name(), x.Pos(), "use of a nondeterministic source (clock, randomness, environment, reflective map iteration)")
				}
				return true
			})
		}
	}
	st.r.Count("qualified identifiers scanned for nondeterminism sources", n)
	st.r.OK("maporder/other-source", "pipeline packages", token.NoPos, "scan complete")
}

// readsField: does fn (a cog function), or a cog function it calls, mention the struct field f?
func (st *c03State) readsField(fn *types.Func, f *types.Var, depth int, seen map[*types.Func]bool) bool {
	if depth > 3 || seen[fn] {
		return false
	}
	seen[fn] = true
	fd, p := st.ctx.DeclOf(fn)
	if fd == nil || fd.Body == nil {
		return false
	}
	found := false
	ast.Inspect(fd.Body, func(n ast.Node) bool {
		if found {
			return false
		}
		switch x := n.(type) {
		case *ast.SelectorExpr:
			if fieldOf(p.TypesInfo, x) == f {
				found = true
			}
		case *ast.CallExpr:
			if c := callee(p.TypesInfo, x); c != nil && st.readsField(c, f, depth+1, seen) {
				found = true
			}
		}
		return true
	})
	return found
}

// c03ReferenceParsersVerbatim: the loaders re-key maps read from YAML (`fields_set_default: {pkg.Obj.field: value}`) by the
// parsed reference while ranging over them: that is independent of the iteration order only as long as two different
// spellings give two different keys, i.e. as long as the parsers keep the parts of the string as they are. A parser that
// normalises a part (lower-casing, trimming) makes spellings collide, and which value survives the collision depends on
// the map iteration order.
func c03ReferenceParsersVerbatim(ctx *Ctx, r *Report) {
	p := ctx.Pkg("internal/ast/compiler")
	if p == nil {
		r.Undecided("anchor lost: internal/ast/compiler")
		return
	}
	info := p.TypesInfo
	n := 0
	for _, file := range p.Syntax {
		for _, d := range file.Decls {
			fd, ok := d.(*ast.FuncDecl)
			if !ok || fd.Body == nil || fd.Recv != nil || !strings.HasSuffix(fd.Name.Name, "ReferenceFromString") {
				continue
			}
			ast.Inspect(fd.Body, func(m ast.Node) bool {
				rs, ok := m.(*ast.ReturnStmt)
				if !ok || len(rs.Results) != 2 || !isNilIdent(info, rs.Results[1]) {
					return true
				}
				cl, ok := ast.Unparen(rs.Results[0]).(*ast.CompositeLit)
				if !ok {
					return true
				}
				for _, el := range cl.Elts {
					kv, ok := el.(*ast.KeyValueExpr)
					if !ok {
						continue
					}
					n++
					_, verbatim := ast.Unparen(kv.Value).(*ast.IndexExpr)
					r.Check(verbatim, "maporder/reference-verbatim", fmt.Sprintf("compiler.%s field %s", fd.Name.Name, exprString(kv.Key)), kv.Pos(), "a part of the split string, as it is",
						fmt.Sprintf("compiler.%s stores %s in %s: two spellings of one reference now parse to the same key; the loaders re-key YAML maps by it while ranging over them, so which entry survives depends on the map iteration order — the IR differs from run to run", fd.Name.Name, exprString(kv.Value), exprString(kv.Key)))
				}
				return true
			})
		}
	}
	r.Count("fields of parsed references", n)
	r.Floor("fields of parsed references", 5)
}

// c03MapOrderIn runs the map-iteration analysis over the packages with the given module-relative prefixes only: the
// properties about transformations (C15) and veneers (C17) quantify over "all sequences of rules", whose order must not be
// the runtime's.
func c03MapOrderIn(ctx *Ctx, r *Report, prefixes []string) {
	st := &c03State{ctx: ctx, r: r, eng: newEffectsEngine(ctx), mapOrdered: map[*types.Func]string{}, exemptSeen: map[string]bool{}}
	var sites []mapSite
	for _, p := range ctx.Pkgs {
		rel := ctx.RelPkg(p.PkgPath)
		match := false
		for _, pre := range prefixes {
			if strings.HasPrefix(rel, pre) {
				match = true
			}
		}
		if !match {
			continue
		}
		for _, f := range p.Syntax {
			for _, d := range f.Decls {
				fd, ok := d.(*ast.FuncDecl)
				if !ok || fd.Body == nil {
					continue
				}
				fobj, _ := p.TypesInfo.Defs[fd.Name].(*types.Func)
				ast.Inspect(fd.Body, func(m ast.Node) bool {
					rs, ok := m.(*ast.RangeStmt)
					if !ok {
						return true
					}
					t := p.TypesInfo.TypeOf(rs.X)
					if t == nil {
						return true
					}
					if _, isMap := t.Underlying().(*types.Map); !isMap {
						return true
					}
					s := mapSite{pkg: p, fd: fd, fobj: fobj, rs: rs}
					if id, ok := rs.Key.(*ast.Ident); ok && id.Name != "_" {
						s.key = objOf(p.TypesInfo, id)
					}
					if id, ok := rs.Value.(*ast.Ident); ok && id.Name != "_" {
						s.val = objOf(p.TypesInfo, id)
					}
					sites = append(sites, s)
					return true
				})
			}
		}
	}
	r.Count("map-range sites in "+strings.Join(prefixes, ", "), len(sites))
	for _, s := range sites {
		st.classify(s)
	}
	st.checkMapOrderedCallers()
}

// c03FirstWinsReached: a keyed write is order-insensitive only when different iterations cannot compete for one key.
// A function that records a key in persistent state and leaves early when the key is already there ("first one
// wins": `if _, found := g.seen[name]; found { return }; g.seen[name] = …`) makes every map-ordered loop that can
// reach it order-sensitive as soon as two iterations can produce the same key — the JSON Schema front-end declared
// the definition a `$ref` points to from inside the loop over the properties map, under the last segment of the
// pointer, and `#/definitions/Thing` and `#/$defs/Thing` competed. Every range over a Go map whose body reaches such
// a function (cog-only call graph, depth 8) is reported; reviewed sites sit in a table.
var c03FirstWinsTable = map[string]string{}

func c03FirstWinsReached(ctx *Ctx, r *Report) {
	eng := newEffectsEngine(ctx)
	g := buildCallGraph(ctx, eng)
	// first-wins functions
	firstWins := map[*types.Func]string{}
	for fn, n := range g.nodes {
		if n.decl == nil || n.decl.Body == nil {
			continue
		}
		info := n.pkg.TypesInfo
		var tested []ast.Expr
		ast.Inspect(n.decl.Body, func(m ast.Node) bool {
			is, ok := m.(*ast.IfStmt)
			if !ok || len(is.Body.List) == 0 {
				return true
			}
			if _, isRet := is.Body.List[len(is.Body.List)-1].(*ast.ReturnStmt); !isRet {
				return true
			}
			// `_, found := M[k]; found`
			if init, ok := is.Init.(*ast.AssignStmt); ok && len(init.Lhs) == 2 && len(init.Rhs) == 1 {
				if ix, ok := ast.Unparen(init.Rhs[0]).(*ast.IndexExpr); ok {
					if _, isMap := info.TypeOf(ix.X).Underlying().(*types.Map); isMap {
						if okID, ok := init.Lhs[1].(*ast.Ident); ok && isIdentOf(info, is.Cond, objOf(info, okID)) {
							if f := fieldOf(info, ix.X); f != nil { // persistent state: a field
								tested = append(tested, ix.X)
							}
						}
					}
				}
			}
			return true
		})
		for _, mexpr := range tested {
			stored, restored := false, false
			ast.Inspect(n.decl.Body, func(m ast.Node) bool {
				if as, ok := m.(*ast.AssignStmt); ok {
					for _, l := range as.Lhs {
						if ix, ok := ast.Unparen(l).(*ast.IndexExpr); ok && sameAccessPath(info, ix.X, mexpr) {
							stored = true
						}
					}
				}
				// `defer delete(M, k)`: an in-progress set of a recursion, empty again when the call returns
				if c, ok := m.(*ast.CallExpr); ok && isBuiltinCall(info, c, "delete") && len(c.Args) == 2 && sameAccessPath(info, c.Args[0], mexpr) {
					restored = true
				}
				return true
			})
			if stored && !restored {
				firstWins[fn] = exprString(mexpr)
			}
		}
	}
	r.Count("first-wins functions (leave when the key is recorded, record it otherwise)", len(firstWins))
	// map-range sites
	sites, reaching := 0, 0
	for _, p := range ctx.Pkgs {
		if _, skip := c03ExcludedPkgs[p.PkgPath]; skip {
			continue
		}
		info := p.TypesInfo
		for _, f := range p.Syntax {
			for _, d := range f.Decls {
				fd, ok := d.(*ast.FuncDecl)
				if !ok || fd.Body == nil {
					continue
				}
				fobj, _ := info.Defs[fd.Name].(*types.Func)
				ast.Inspect(fd.Body, func(n ast.Node) bool {
					rs, ok := n.(*ast.RangeStmt)
					if !ok {
						return true
					}
					if _, isMap := info.TypeOf(rs.X).Underlying().(*types.Map); !isMap {
						return true
					}
					sites++
					// callees reachable from the body
					var start []*types.Func
					ast.Inspect(rs.Body, func(m ast.Node) bool {
						if c, ok := m.(*ast.CallExpr); ok {
							if fn := callee(info, c); fn != nil && g.nodes[fn.Origin()] != nil {
								start = append(start, fn.Origin())
							}
						}
						return true
					})
					seen := map[*types.Func]int{}
					queue := start
					for _, s := range start {
						seen[s] = 1
					}
					hit, via := (*types.Func)(nil), ""
					for len(queue) > 0 && hit == nil {
						cur := queue[0]
						queue = queue[1:]
						if why, ok := firstWins[cur]; ok && cur != fobj {
							hit, via = cur, why
							break
						}
						if seen[cur] >= 8 {
							continue
						}
						for next := range g.nodes[cur].out {
							if _, done := seen[next]; !done && g.nodes[next] != nil {
								seen[next] = seen[cur] + 1
								queue = append(queue, next)
							}
						}
					}
					if hit == nil {
						return true
					}
					reaching++
					cons := ctx.FuncName(fobj) + " range " + exprString(rs.X) + " reaches " + hit.Name()
					if why, ok := c03FirstWinsTable[cons]; ok {
						r.OK("maporder/first-wins-reached", cons, rs.Pos(), "reviewed: "+why)
						return true
					}
					r.Bad("maporder/first-wins-reached", cons, rs.Pos(), "the body of this loop over a Go map can reach "+ctx.FuncName(hit)+", which keeps the first value recorded under a key of "+via+" and ignores the later ones: when two iterations lead to the same key, which one is kept depends on the iteration order of the map — two runs on the same input differ")
					return true
				})
			}
		}
	}
	r.Count("map-range sites checked for first-wins reachability", sites)
	r.Count("map-range sites reaching a first-wins function", reaching)
	r.Floor("first-wins functions (leave when the key is recorded, record it otherwise)", 1)
}

// c03TemplatesReachCollector: rendering a template is not a pure function of its data in the languages whose template
// set is given common.APIRefTemplateHelpers (apiDeclareFunction / apiDeclareMethod append to the API reference
// collector, and overriding templates may call them). A loop over a Go map that renders a template in such a package
// declares those entries in map order. The set of languages is read from the source (who calls APIRefTemplateHelpers);
// the PHP factories loop sat in the emission exemption table with the reason "builds its formatter locally", which said
// nothing about templates.
func c03TemplatesReachCollector(ctx *Ctx, r *Report) {
	helper := ctx.LookupFunc("internal/jennies/common", "APIRefTemplateHelpers")
	if helper == nil {
		r.Undecided("anchor lost: common.APIRefTemplateHelpers")
		return
	}
	n, withCollector := 0, 0
	for _, lang := range []string{"golang", "java", "php", "python", "typescript"} {
		p := ctx.Pkg("internal/jennies/" + lang)
		if p == nil {
			continue
		}
		info := p.TypesInfo
		reaches := false
		for _, f := range p.Syntax {
			ast.Inspect(f, func(m ast.Node) bool {
				if c, ok := m.(*ast.CallExpr); ok && callee(info, c) == helper {
					reaches = true
				}
				return true
			})
		}
		if reaches {
			withCollector++
		}
		renders := func(body ast.Node) (bool, token.Pos) {
			seen := map[*types.Func]bool{}
			found, at := false, token.NoPos
			var walk func(b ast.Node, depth int)
			walk = func(b ast.Node, depth int) {
				ast.Inspect(b, func(m ast.Node) bool {
					c, ok := m.(*ast.CallExpr)
					if !ok {
						return true
					}
					fn := callee(info, c)
					if fn == nil {
						return true
					}
					if strings.HasPrefix(fn.Name(), "Render") && fn.Pkg() != nil && strings.HasSuffix(fn.Pkg().Path(), "internal/jennies/template") {
						if !found {
							found, at = true, c.Pos()
						}
						return true
					}
					if fn.Pkg() == p.Types && !seen[fn] && depth < 4 {
						seen[fn] = true
						if fd, _ := ctx.DeclOf(fn); fd != nil && fd.Body != nil {
							walk(fd.Body, depth+1)
						}
					}
					return true
				})
			}
			walk(body, 0)
			return found, at
		}
		for _, f := range p.Syntax {
			for _, d := range f.Decls {
				fd, ok := d.(*ast.FuncDecl)
				if !ok || fd.Body == nil {
					continue
				}
				fobj, _ := info.Defs[fd.Name].(*types.Func)
				ast.Inspect(fd.Body, func(m ast.Node) bool {
					rs, ok := m.(*ast.RangeStmt)
					if !ok {
						return true
					}
					if _, isMap := info.TypeOf(rs.X).Underlying().(*types.Map); !isMap {
						return true
					}
					does, _ := renders(rs.Body)
					if !does {
						return true
					}
					n++
					cons := fmt.Sprintf("%s renders templates inside range %s", ctx.FuncName(fobj), exprString(rs.X))
					r.Check(!reaches, "maporder/templates-reach-collector", cons, rs.Pos(), "the templates of this language have no access to the API reference collector",
						fmt.Sprintf("%s renders a template once per entry of a Go map, and the %s template set is given apiDeclareFunction / apiDeclareMethod: entries declared by (overriding) templates reach one API reference page in map order — the page differs from one run to the next", ctx.FuncName(fobj), lang))
					return true
				})
			}
		}
	}
	r.Count("map ranges rendering templates in the language jennies", n)
	r.Count("languages whose templates reach the API reference collector", withCollector)
	r.Floor("languages whose templates reach the API reference collector", 3)
	if n == 0 {
		r.OK("maporder/templates-reach-collector", "language jennies", token.NoPos, "no template is rendered inside a range over a Go map")
	}
}

// counterOnlyGuardsErrors: every read of the field, in the whole of cog, is an increment / decrement, a reset to a
// constant, or sits in the condition of an `if` whose body leaves with a non-nil error.
func (st *c03State) counterOnlyGuardsErrors(field *types.Var) bool {
	ok := true
	uses := 0
	for _, p := range st.ctx.Pkgs {
		info := p.TypesInfo
		for _, file := range p.Syntax {
			for _, d := range file.Decls {
				fd, isFunc := d.(*ast.FuncDecl)
				if !isFunc || fd.Body == nil {
					continue
				}
				parents := parentMap(fd)
				ast.Inspect(fd.Body, func(n ast.Node) bool {
					sel, isSel := n.(*ast.SelectorExpr)
					if !isSel || fieldOf(info, sel) != field {
						return true
					}
					uses++
					switch par := parents[sel].(type) {
					case *ast.IncDecStmt:
						return true
					case *ast.AssignStmt:
						for i, l := range par.Lhs {
							if l == ast.Expr(sel) && i < len(par.Rhs) && isConstantish(info, par.Rhs[i]) {
								return true
							}
						}
					}
					// inside the condition of an if that leaves with an error
					for cur := ast.Node(sel); cur != nil; cur = parents[cur] {
						is, isIf := parents[cur].(*ast.IfStmt)
						if !isIf || is.Cond != cur.(ast.Node) {
							if _, isExpr := parents[cur].(ast.Expr); isExpr {
								continue
							}
							if isIf {
								break
							}
							break
						}
						if len(is.Body.List) > 0 {
							if rs, isRet := is.Body.List[len(is.Body.List)-1].(*ast.ReturnStmt); isRet && len(rs.Results) > 0 && !isNilIdent(info, rs.Results[len(rs.Results)-1]) {
								return true
							}
						}
						break
					}
					ok = false
					return true
				})
			}
		}
	}
	return ok && uses > 0
}

// c03AnchorsUnique — fourth hunt: santhosh-tekuri/jsonschema resolves a plain-name reference (`#thing`) by ranging over
// a map of sub-resources and taking the first schema that declares the anchor; two schemas declaring the same anchor
// (which the specification leaves undefined) make the generated types change from run to run. The choice is made
// inside the library, before cog sees anything: the JSON Schema front-end has to refuse such a document before it
// hands it to the compiler — GenerateAST calls, under an error exit and before compiler.Compile, a function of the
// package that looks for the anchor keywords.
func c03AnchorsUnique(ctx *Ctx, r *Report) {
	fn := ctx.LookupFunc("internal/jsonschema", "GenerateAST")
	fd, p := ctx.DeclOf(fn)
	if fd == nil {
		r.Undecided("anchor lost: jsonschema.GenerateAST")
		return
	}
	info := p.TypesInfo
	var compile token.Pos
	ast.Inspect(fd.Body, func(m ast.Node) bool {
		if c, ok := m.(*ast.CallExpr); ok {
			if f := callee(info, c); f != nil && f.Name() == "Compile" && f.Pkg() != nil && strings.Contains(f.Pkg().Path(), "santhosh-tekuri/jsonschema") {
				if !compile.IsValid() {
					compile = c.Pos()
				}
			}
		}
		return true
	})
	if !compile.IsValid() {
		r.Undecided("anchor changed: jsonschema.GenerateAST no longer compiles the document with santhosh-tekuri/jsonschema")
		return
	}
	looksForAnchors := func(f *types.Func) bool {
		hfd, _ := ctx.DeclOf(f)
		if hfd == nil || hfd.Body == nil {
			return false
		}
		keywords := map[string]bool{}
		ast.Inspect(hfd.Body, func(k ast.Node) bool {
			if bl, ok := k.(*ast.BasicLit); ok && bl.Kind == token.STRING {
				keywords[strings.Trim(bl.Value, "\"`")] = true
			}
			return true
		})
		return keywords["$anchor"] && keywords["$id"]
	}
	checked := false
	ast.Inspect(fd.Body, func(m ast.Node) bool {
		is, ok := m.(*ast.IfStmt)
		if !ok || is.Pos() > compile || !endsInExit(is.Body) {
			return true
		}
		as, ok := is.Init.(*ast.AssignStmt)
		if !ok || len(as.Rhs) != 1 {
			return true
		}
		if c, ok := ast.Unparen(as.Rhs[0]).(*ast.CallExpr); ok {
			if f := callee(info, c); f != nil && f.Pkg() == p.Types && looksForAnchors(f) {
				checked = true
			}
		}
		return true
	})
	r.Check(checked, "order/anchors-unique", "jsonschema.GenerateAST hands the document to the parser", fd.Pos(), "after refusing a document in which an anchor is declared twice",
		"GenerateAST compiles the document as it is: `\"thing\": {\"$ref\": \"#thing\"}` with `$defs/Apple` and `$defs/Banana` both declaring `\"$anchor\": \"thing\"` is resolved by the library in the order of a Go map — over 120 identical runs, 80 generated Apple and 40 Banana: types_gen.go has two different contents")
}

// storeIsRestoredOnReturn: the store (in a callee) assigns a field whose previous value was saved in a local variable
// just before, and a deferred function literal of the same function assigns that variable back to the field.
func (st *c03State) storeIsRestoredOnReturn(f regionFact) bool {
	fin := f.Final()
	if fin == nil || !f.Origin.IsValid() {
		return false
	}
	for _, p := range st.ctx.Pkgs {
		info := p.TypesInfo
		for _, file := range p.Syntax {
			if f.Origin < file.Pos() || f.Origin > file.End() {
				continue
			}
			for _, d := range file.Decls {
				fd, ok := d.(*ast.FuncDecl)
				if !ok || fd.Body == nil || f.Origin < fd.Pos() || f.Origin > fd.End() {
					continue
				}
				// saved: `previous := recv.F` before the store
				saved := map[types.Object]bool{}
				ast.Inspect(fd.Body, func(n ast.Node) bool {
					as, ok := n.(*ast.AssignStmt)
					if !ok || as.Pos() >= f.Origin || len(as.Lhs) != 1 || len(as.Rhs) != 1 {
						return true
					}
					if sel, ok := ast.Unparen(as.Rhs[0]).(*ast.SelectorExpr); ok && fieldOf(info, sel) == fin {
						if id, ok := as.Lhs[0].(*ast.Ident); ok {
							saved[objOf(info, id)] = true
						}
					}
					return true
				})
				restored := false
				ast.Inspect(fd.Body, func(n ast.Node) bool {
					ds, ok := n.(*ast.DeferStmt)
					if !ok {
						return true
					}
					fl, ok := ast.Unparen(ds.Call.Fun).(*ast.FuncLit)
					if !ok {
						return true
					}
					ast.Inspect(fl.Body, func(k ast.Node) bool {
						as, ok := k.(*ast.AssignStmt)
						if !ok || len(as.Lhs) != 1 || len(as.Rhs) != 1 {
							return true
						}
						sel, ok := ast.Unparen(as.Lhs[0]).(*ast.SelectorExpr)
						if !ok || fieldOf(info, sel) != fin {
							return true
						}
						if id, ok := ast.Unparen(as.Rhs[0]).(*ast.Ident); ok && saved[objOf(info, id)] {
							restored = true
						}
						return true
					})
					return true
				})
				return restored
			}
		}
	}
	return false
}
