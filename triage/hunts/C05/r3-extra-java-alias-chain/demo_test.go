package zzdemo

import (
	"fmt"
	"sort"
	"strings"
	"testing"

	"cuelang.org/go/cue/cuecontext"
	"github.com/grafana/cog/internal/ast"
	"github.com/grafana/cog/internal/jennies/java"
	"github.com/grafana/cog/internal/simplecue"
)

const schemaSource = `
#Variable: {name: string}
#Alias:    #Variable
#Other:    #Alias
Root: {v: #Variable}
`

func TestJavaChainKeepsReferencesResolvingThroughAChainOfAliases(t *testing.T) {
	schema, err := simplecue.GenerateAST(cuecontext.New().CompileString(schemaSource), simplecue.Config{Package: "demo"})
	if err != nil {
		t.Fatal(err)
	}

	schemas, err := java.New(java.Config{}).CompilerPasses().Process(ast.Schemas{schema})
	if err != nil {
		t.Fatal(err)
	}

	var objects []string
	schemas[0].Objects.Iterate(func(_ string, object ast.Object) {
		objects = append(objects, object.SelfRef.String())
	})
	sort.Strings(objects)

	var unresolved []string
	schemas[0].Objects.Iterate(func(_ string, object ast.Object) {
		if !object.Type.IsStruct() {
			return
		}
		for _, field := range object.Type.AsStruct().Fields {
			if !field.Type.IsRef() {
				continue
			}
			if _, found := schemas.LocateObjectByRef(field.Type.AsRef()); !found {
				unresolved = append(unresolved, fmt.Sprintf("%s.%s: ref %s", object.SelfRef.String(), field.Name, field.Type.AsRef().String()))
			}
		}
	})

	if len(unresolved) != 0 {
		t.Errorf("input (cue): %s\nafter the compiler passes of the Java language, objects: %s\nobserved: %s\nexpected: Root.v designates an object of the schema",
			schemaSource, strings.Join(objects, ", "), strings.Join(unresolved, "; "))
	}
}
