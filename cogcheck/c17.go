package main

// C17 — builder transformations keep builders well-typed and do only what they
// document. Engines E4 (effects) + E2 (ownership).

import (
	"fmt"
	"go/ast"
	"go/token"
	"go/types"
	"sort"
	"strings"

	"golang.org/x/tools/go/packages"
)

func init() { register("C17", checkC17) }

var veneerPkgs = []string{"internal/veneers/builder", "internal/veneers/option", "internal/veneers/rewrite", "internal/veneers"}

func checkC17(ctx *Ctx, r *Report) {
	r.Explanation = "Structural necessary conditions decided on the veneer packages: (1) ownership — builders, options and assignments travel by value while their slices and pointers stay shared (the rewriter copies builders shallowly; merge_into/compose copy options by value), so no rule/action may store through an element or pointer of a value it received unless it first made a DeepCopy or built the storage itself; (2) duplicate rules obtain their copy through DeepCopy (made complete by C18); (3) unselected builders/options are re-emitted untouched: every store a builder rule makes into the builders slice is control-dependent on its selector, and the rewriter's option loop re-appends the very option it was given when the selector rejects it; (4) assignment targets are preserved: a veneer only ever extends an existing assignment path (Path.Append on that path) and never stores into a path item's identifier or type; path-producing methods return fresh storage; (5) simple rules have the documented write set (rename only renames, omit writes nothing, add_comments only comments)."
	r.NotCovered = "type-correctness of paths after arbitrary rule sequences (needs evaluation of MakePath on concrete schemas); the semantic contracts of struct_fields_as_arguments/options and disjunction_as_options beyond target preservation; aliasing through append onto slices with spare capacity of trail/comment strings."
	r.Exhaustive = true

	eng := newEffectsEngine(ctx)
	c17Ownership(ctx, r, eng)
	c17Duplicates(ctx, r)
	c17Unselected(ctx, r)
	c17Paths(ctx, r)
	c17WriteSets(ctx, r, eng)
	c17MovedPairs(ctx, r)
	c17AssignmentsConserved(ctx, r)
	c17ExactLookups(ctx, r)
	c17AppendOnSharedSlice(ctx, r)
	c17CopyOnWriteAppends(ctx, r)
	c17ArgumentUsesThroughEnvelopes(ctx, r)
	c17PathPrefixThroughArrays(ctx, r)
	c17RebuiltOptionKeepsArguments(ctx, r)
	c17RenameArgumentsCovers(ctx, r)
	c17MergedPathsPrefixed(ctx, r)
	c03MapOrderIn(ctx, r, []string{"internal/veneers"})
	c17ArgsAssignmentsNotAligned(ctx, r)
	c17UnfoldTestsTarget(ctx, r)
	c17FourthRound(ctx, r)
	c17MethodChangeLocated(ctx, r)
	c17FifthRound(ctx, r)
	c17SixthRound(ctx, r)
	c17SeventhRound(ctx, r)
	c17EighthRound(ctx, r)
	c20UnionSingleMember(ctx, r) // an entry holding two rules applied one of them
	c16DismissalNeedsLostOptions(ctx, r)
	c18LiteralsShareSlices(ctx, r)
	// the copies veneers rely on
	for _, m := range findCopyMethods(ctx) {
		if m.pkg.PkgPath == astPkgPath {
			switch m.recv.Obj().Name() {
			case "Builder", "Option", "Assignment", "AssignmentValue", "Argument", "Constructor", "BuilderFactory", "Path", "PathItem":
				c18Method(ctx, r, m)
			}
		}
	}
}

func isIRValue(t types.Type) bool {
	if sl, ok := t.Underlying().(*types.Slice); ok {
		t = sl.Elem()
	}
	if _, isPtr := t.(*types.Pointer); isPtr {
		return false
	}
	nt := namedOf(t)
	return nt != nil && nt.Obj().Pkg() != nil && nt.Obj().Pkg().Path() == astPkgPath
}

// forEachVeneerClosure visits every func literal of the veneer packages that
// takes IR values as parameters (rules, actions, selectors, mappers).
func forEachVeneerClosure(ctx *Ctx, visit func(p *packages.Package, fd *ast.FuncDecl, fobj *types.Func, lit *ast.FuncLit)) {
	for _, rel := range veneerPkgs {
		p := ctx.Pkg(rel)
		if p == nil {
			continue
		}
		for _, file := range p.Syntax {
			for _, d := range file.Decls {
				fd, ok := d.(*ast.FuncDecl)
				if !ok || fd.Body == nil {
					continue
				}
				fobj, _ := p.TypesInfo.Defs[fd.Name].(*types.Func)
				ast.Inspect(fd.Body, func(node ast.Node) bool {
					if lit, ok := node.(*ast.FuncLit); ok {
						visit(p, fd, fobj, lit)
						return false
					}
					return true
				})
			}
		}
	}
}

// (1) ownership
func c17Ownership(ctx *Ctx, r *Report, eng *effectsEngine) {
	closures, stores := 0, 0
	check := func(p *packages.Package, fobj *types.Func, facts []WriteFact, params []types.Object) {
		seen := map[string]int{}
		for _, f := range facts {
			if f.Root < 0 || f.Root >= len(params) || params[f.Root] == nil || f.Kind != "store" {
				continue
			}
			pt := params[f.Root].Type()
			if !isIRValue(pt) {
				continue
			}
			_, isSlice := pt.Underlying().(*types.Slice)
			// builders[i].F = x : a field of an element of the rewriter's own slice — fine;
			// anything deeper goes through storage shared with other builders/options.
			if isSlice && len(f.Path) <= 1 {
				continue
			}
			stores++
			key := params[f.Root].Name() + "." + f.PathString()
			seen[key]++
			cons := fmt.Sprintf("%s %s", ctx.FuncName(fobj), key)
			if seen[key] > 1 {
				continue
			}
			r.Bad("copycheck/veneer-ownership", cons, f.Pos, fmt.Sprintf("%s stores into %s of a %s it received by value (%s): that storage is shared with the option/builder it was copied from (merge_into, compose, the rewriter's shallow copy), so builders and options not selected by the rule change as well", ctx.FuncName(fobj), f.PathString(), types.TypeString(pt, func(*types.Package) string { return "ast" }), f.String()))
		}
	}
	forEachVeneerClosure(ctx, func(p *packages.Package, fd *ast.FuncDecl, fobj *types.Func, lit *ast.FuncLit) {
		closures++
		facts, params := eng.LitEffects(p, lit)
		check(p, fobj, facts, params)
	})
	// plain functions taking IR values (mergeBuilderInto, composeBuilderForType, disjunctionAsOptions, …)
	for _, rel := range veneerPkgs {
		p := ctx.Pkg(rel)
		if p == nil {
			continue
		}
		for _, file := range p.Syntax {
			for _, d := range file.Decls {
				fd, ok := d.(*ast.FuncDecl)
				if !ok || fd.Body == nil {
					continue
				}
				fobj, _ := p.TypesInfo.Defs[fd.Name].(*types.Func)
				sig := fobj.Type().(*types.Signature)
				var params []types.Object
				for i := 0; i < sig.Params().Len(); i++ {
					params = append(params, sig.Params().At(i))
				}
				var facts []WriteFact
				for _, f := range eng.EffectsOf(fobj) {
					if f.Root >= 0 {
						facts = append(facts, f)
					}
				}
				closures++
				check(p, fobj, facts, params)
			}
		}
	}
	r.Count("veneer closures and functions analysed", closures)
	r.Floor("veneer closures and functions analysed", 60)
	if stores == 0 {
		r.OK("copycheck/veneer-ownership", "veneer packages", token.NoPos, "no store through an element/pointer of a by-value IR parameter")
	}
}

// (2) duplicates
func c17Duplicates(ctx *Ctx, r *Report) {
	for _, t := range []struct{ pkg, fn string }{{"internal/veneers/builder", "Duplicate"}, {"internal/veneers/option", "DuplicateAction"}} {
		fn := ctx.LookupFunc(t.pkg, t.fn)
		fd, p := ctx.DeclOf(fn)
		if fd == nil {
			r.Undecided("anchor lost: %s.%s", t.pkg, t.fn)
			continue
		}
		info := p.TypesInfo
		// the value that is renamed (store to .Name) must be a local obtained from DeepCopy()
		ok, found := false, false
		ast.Inspect(fd.Body, func(n ast.Node) bool {
			as, isAs := n.(*ast.AssignStmt)
			if !isAs {
				return true
			}
			for _, l := range as.Lhs {
				if f := fieldOf(info, l); f != nil && f.Name() == "Name" {
					found = true
					if root := rootIdent(l); root != nil {
						obj := objOf(info, root)
						ast.Inspect(fd.Body, func(m ast.Node) bool {
							if d, isD := m.(*ast.AssignStmt); isD && len(d.Lhs) == len(d.Rhs) {
								for i, dl := range d.Lhs {
									if isIdentOf(info, dl, obj) && isCopyCall(info, d.Rhs[i]) {
										ok = true
									}
								}
							}
							return true
						})
					}
				}
			}
			return true
		})
		r.Check(found && ok, "copycheck/duplicate-by-deepcopy", ctx.FuncName(fn), fd.Pos(), "the duplicate is a DeepCopy() of the selected item, renamed",
			"the duplicate is not obtained through DeepCopy(): it shares structure with (or misses parts of) the original")
	}
}

// (3) unselected untouched
func c17Unselected(ctx *Ctx, r *Report) {
	// builder rules: closures of functions with a Selector parameter
	p := ctx.Pkg("internal/veneers/builder")
	if p == nil {
		r.Undecided("package internal/veneers/builder not found")
		return
	}
	info := p.TypesInfo
	rules := 0
	for _, file := range p.Syntax {
		for _, d := range file.Decls {
			fd, ok := d.(*ast.FuncDecl)
			if !ok || fd.Body == nil || fd.Recv != nil {
				continue
			}
			fobj, _ := info.Defs[fd.Name].(*types.Func)
			var selector types.Object
			for _, fl := range fd.Type.Params.List {
				for _, nm := range fl.Names {
					if namedName(info.TypeOf(nm)) == "Selector" {
						selector = info.Defs[nm]
					}
				}
			}
			if selector == nil {
				continue
			}
			parents := parentMap(fd)
			ast.Inspect(fd.Body, func(n ast.Node) bool {
				lit, ok := n.(*ast.FuncLit)
				if !ok {
					return true
				}
				// the builders parameter of the rule closure
				var buildersParam types.Object
				for _, fl := range lit.Type.Params.List {
					for _, nm := range fl.Names {
						if namedName(info.TypeOf(nm)) == "Builders" {
							buildersParam = info.Defs[nm]
						}
					}
				}
				if buildersParam == nil {
					return true
				}
				rules++
				usesSelector := false
				ast.Inspect(lit.Body, func(m ast.Node) bool {
					if c, ok := m.(*ast.CallExpr); ok {
						if id, ok := ast.Unparen(c.Fun).(*ast.Ident); ok && objOf(info, id) == selector {
							usesSelector = true
						}
					}
					return true
				})
				// delegation to mapToSelected(selector, …) counts
				delegated := false
				ast.Inspect(fd.Body, func(m ast.Node) bool {
					if c, ok := m.(*ast.CallExpr); ok {
						for _, a := range c.Args {
							if isIdentOf(info, a, selector) {
								if fn := callee(info, c); fn != nil && fn.Pkg() == p.Types {
									delegated = true
								}
							}
						}
					}
					return true
				})
				if !usesSelector && delegated {
					return false
				}
				// every store into builders[...] must be guarded by the selector
				bad := token.NoPos
				ast.Inspect(lit.Body, func(m ast.Node) bool {
					var target ast.Expr
					switch x := m.(type) {
					case *ast.AssignStmt:
						for _, l := range x.Lhs {
							if ap := accessPathOf(info, l); ap.ok && ap.root == buildersParam && len(ap.steps) > 0 {
								target = l
							}
						}
					case *ast.CallExpr:
						// builders[i].AddToVeneerTrail(...)
						if sel, ok := x.Fun.(*ast.SelectorExpr); ok {
							if ap := accessPathOf(info, sel.X); ap.ok && ap.root == buildersParam && len(ap.steps) > 0 {
								if fn := callee(info, x); fn != nil && strings.HasPrefix(fn.Name(), "Add") {
									target = sel.X
								}
							}
						}
					}
					if target == nil {
						return true
					}
					guarded := false
					child := m
					for par := parents[m]; par != nil && par != ast.Node(lit); child, par = par, parents[par] {
						if blk, ok := par.(*ast.BlockStmt); ok {
							for _, st := range blk.List {
								if st.Pos() >= child.Pos() {
									break
								}
								if is, ok := st.(*ast.IfStmt); ok && callsObj(info, is.Cond, selector) && len(is.Body.List) > 0 {
									if br, ok := is.Body.List[len(is.Body.List)-1].(*ast.BranchStmt); ok && br.Tok == token.CONTINUE {
										guarded = true
									}
								}
							}
						}
						if is, ok := par.(*ast.IfStmt); ok && child == ast.Node(is.Body) && callsObj(info, is.Cond, selector) {
							guarded = true
						}
					}
					if !guarded && bad == token.NoPos {
						bad = m.Pos()
					}
					return true
				})
				r.Check(usesSelector && bad == token.NoPos, "effects/unselected-untouched", ctx.FuncName(fobj), lit.Pos(), "every modification of the builders is control-dependent on the rule's selector",
					fmt.Sprintf("%s modifies builders without testing its selector (first at %s): builders not selected by the rule are changed", ctx.FuncName(fobj), ctx.Pos(bad)))
				return false
			})
		}
	}
	r.Count("selective builder rules", rules)
	r.Floor("selective builder rules", 8)

	// the rewriter's option loop
	fn := ctx.LookupMethod("internal/veneers/rewrite", "Rewriter", "applyOptionRules")
	fd, rp := ctx.DeclOf(fn)
	if fd == nil {
		r.Undecided("anchor lost: rewrite.Rewriter.applyOptionRules")
		return
	}
	rinfo := rp.TypesInfo
	ok := false
	ast.Inspect(fd.Body, func(n ast.Node) bool {
		is, isIf := n.(*ast.IfStmt)
		if !isIf {
			return true
		}
		// if !rule.Selector(b, opt) { processed = append(processed, opt); continue }
		u, isNot := ast.Unparen(is.Cond).(*ast.UnaryExpr)
		if !isNot || u.Op != token.NOT {
			return true
		}
		call, isCall := ast.Unparen(u.X).(*ast.CallExpr)
		if !isCall || len(call.Args) != 2 {
			return true
		}
		if f := fieldOf(rinfo, call.Fun); f == nil || f.Name() != "Selector" {
			return true
		}
		optArg := call.Args[1]
		appendsSame, continues := false, false
		for _, st := range is.Body.List {
			if as, isAs := st.(*ast.AssignStmt); isAs && len(as.Rhs) == 1 {
				if c, isC := as.Rhs[0].(*ast.CallExpr); isC && isBuiltinCall(rinfo, c, "append") && len(c.Args) == 2 && sameAccessPath(rinfo, c.Args[1], optArg) {
					appendsSame = true
				}
			}
			if br, isBr := st.(*ast.BranchStmt); isBr && br.Tok == token.CONTINUE {
				continues = true
			}
		}
		if appendsSame && continues {
			ok = true
		}
		return true
	})
	r.Check(ok, "effects/unselected-untouched", "rewrite.Rewriter.applyOptionRules", fd.Pos(), "an option rejected by the selector is re-appended as is and the action is skipped",
		"the rewriter no longer re-emits, untouched, the options its selector rejects")
}

func callsObj(info *types.Info, e ast.Expr, obj types.Object) bool {
	found := false
	ast.Inspect(e, func(n ast.Node) bool {
		if c, ok := n.(*ast.CallExpr); ok {
			if id, ok := ast.Unparen(c.Fun).(*ast.Ident); ok && objOf(info, id) == obj {
				found = true
			}
		}
		return !found
	})
	return found
}

// (4) paths
func c17Paths(ctx *Ctx, r *Report) {
	pathF := astField(ctx, "Assignment", "Path")
	identF := astField(ctx, "PathItem", "Identifier")
	itemTypeF := astField(ctx, "PathItem", "Type")
	if pathF == nil || identF == nil || itemTypeF == nil {
		r.Undecided("anchor lost: ast.Assignment.Path / ast.PathItem")
		return
	}
	n := 0
	for _, rel := range veneerPkgs {
		p := ctx.Pkg(rel)
		if p == nil {
			continue
		}
		info := p.TypesInfo
		for _, file := range p.Syntax {
			for _, d := range file.Decls {
				fd, ok := d.(*ast.FuncDecl)
				if !ok || fd.Body == nil {
					continue
				}
				fobj, _ := info.Defs[fd.Name].(*types.Func)
				k := 0
				ast.Inspect(fd.Body, func(node ast.Node) bool {
					as, ok := node.(*ast.AssignStmt)
					if !ok || len(as.Lhs) != len(as.Rhs) {
						return true
					}
					for i, l := range as.Lhs {
						f := fieldOf(info, l)
						switch f {
						case identF, itemTypeF:
							if root := rootIdent(l); root != nil && isFreshLocal(info, fd, objOf(info, root)) {
								continue
							}
							r.Bad("effects/target-preserved", fmt.Sprintf("%s stores %s", ctx.FuncName(fobj), exprString(l)), as.Pos(), "a veneer rewrites an item of an existing assignment path: the option no longer assigns the field it was derived for")
						case pathF:
							n++
							k++
							// RHS: <existing path>.Append(...) / <prefix>.Append(<existing path>) / AppendStructField
							okRHS := false
							if c, isCall := ast.Unparen(as.Rhs[i]).(*ast.CallExpr); isCall {
								if fn := callee(info, c); fn != nil && (fn.Name() == "Append" || fn.Name() == "AppendStructField") && namedName(fn.Type().(*types.Signature).Recv().Type()) == "Path" {
									mentionsPath := false
									ast.Inspect(c, func(m ast.Node) bool {
										if e, isE := m.(ast.Expr); isE && fieldOf(info, e) == pathF {
											mentionsPath = true
										}
										return true
									})
									okRHS = mentionsPath
								}
							}
							r.Check(okRHS, "effects/target-preserved", fmt.Sprintf("%s path update #%d", ctx.FuncName(fobj), k), as.Pos(), "the existing path is kept and only extended",
								"an assignment's Path is replaced by something that is not an extension of its existing path: the option stops assigning its original target")
						}
					}
					return true
				})
			}
		}
	}
	r.Count("assignment path updates in veneers", n)
	r.Floor("assignment path updates in veneers", 2)

	// path-producing methods return fresh storage
	p := ctx.Pkg("internal/ast")
	info := p.TypesInfo
	pathT := ctx.LookupType("internal/ast", "Path")
	if pathT == nil {
		r.Undecided("anchor lost: ast.Path")
		return
	}
	for i := 0; i < pathT.NumMethods(); i++ {
		m := pathT.Method(i)
		sig := m.Type().(*types.Signature)
		if sig.Results().Len() != 1 || namedOf(sig.Results().At(0).Type()) != pathT {
			continue
		}
		if m.Name() == "DeepCopy" || m.Name() == "RemoveLast" {
			continue
		}
		fd, _ := ctx.DeclOf(m)
		if fd == nil {
			continue
		}
		var recv types.Object
		if len(fd.Recv.List) == 1 && len(fd.Recv.List[0].Names) == 1 {
			recv = info.Defs[fd.Recv.List[0].Names[0]]
		}
		bad := ""
		ast.Inspect(fd.Body, func(n ast.Node) bool {
			c, ok := n.(*ast.CallExpr)
			if ok && isBuiltinCall(info, c, "append") && len(c.Args) > 0 && isIdentOf(info, c.Args[0], recv) {
				bad = exprString(c)
			}
			return true
		})
		r.Check(bad == "", "copycheck/path-fresh", "ast.Path."+m.Name(), fd.Pos(), "the result does not append onto the receiver's backing array",
			"ast.Path."+m.Name()+" returns "+bad+": when the receiver has spare capacity, every path derived from it shares one backing array and they all end up naming the element appended last")
	}
}

// (5) documented write sets of the simple rules
var c17WriteSpecs = map[string][]string{
	"internal/veneers/option.RenameAction":      {"Option.Name"},
	"internal/veneers/option.OmitAction":        {},
	"internal/veneers/option.AddCommentsAction": {"Option.Comments"},
	"internal/veneers/option.DuplicateAction":   {"Option.Name"},
	"internal/veneers/builder.Rename":           {"Builder.Name"},
	"internal/veneers/builder.Omit":             {},
	"internal/veneers/builder.Duplicate":        {"Builder.Name", "Builder.Options"},
}

func c17WriteSets(ctx *Ctx, r *Report, eng *effectsEngine) {
	seen := map[string]bool{}
	forEachVeneerClosure(ctx, func(p *packages.Package, fd *ast.FuncDecl, fobj *types.Func, lit *ast.FuncLit) {
		name := ctx.FuncName(fobj)
		spec, ok := c17WriteSpecs[name]
		if !ok {
			return
		}
		seen[name] = true
		allowed := map[string]bool{"Option.VeneerTrail": true, "Builder.VeneerTrail": true}
		for _, s := range spec {
			allowed[s] = true
		}
		info := p.TypesInfo
		writes := map[string]token.Pos{}
		ast.Inspect(lit.Body, func(n ast.Node) bool {
			as, ok := n.(*ast.AssignStmt)
			if !ok {
				return true
			}
			for _, l := range as.Lhs {
				ap := accessPathOf(info, l)
				if !ap.ok {
					continue
				}
				if nm := irFieldName(lastField(ap), ctx); nm != "" {
					writes[nm] = as.Pos()
				}
			}
			return true
		})
		facts, _ := eng.LitEffects(p, lit)
		for _, f := range facts {
			if nm := irFieldName(f.Final(), ctx); nm != "" && f.Kind != "calls-field" {
				if _, dup := writes[nm]; !dup {
					writes[nm] = f.Pos
				}
			}
		}
		var names []string
		for k := range writes {
			names = append(names, k)
		}
		sort.Strings(names)
		okAll := true
		for _, k := range names {
			if !allowed[k] {
				okAll = false
				r.Bad("effects/veneer-write-set", name+" writes "+k, writes[k], fmt.Sprintf("%s stores into %s, outside its documented effect (%s)", name, k, strings.Join(spec, ", ")))
			}
		}
		if okAll {
			r.OK("effects/veneer-write-set", name, lit.Pos(), "writes ⊆ {"+strings.Join(spec, ", ")+", trail}: "+strings.Join(names, ", "))
		}
	})
	for k := range c17WriteSpecs {
		if !seen[k] {
			r.Undecided("anchor lost: veneer rule %s", k)
		}
	}
}

// ---------------------------------------------------------------------------
// (6) what a rule moves from an option: arguments and assignments go together; (7) an action that rebuilds the
// assignments of the option it replaces keeps the other ones; (8) references are resolved by exact name.

// moveShape describes which part of X.Args / X.Assignments an expression denotes: "all", "[k]", "[k:]".
func moveShape(info *types.Info, e ast.Expr, field string, defs map[types.Object]ast.Expr, depth int) (root types.Object, shape string) {
	e = ast.Unparen(e)
	if depth > 4 {
		return nil, ""
	}
	switch x := e.(type) {
	case *ast.Ident:
		if d, ok := defs[objOf(info, x)]; ok {
			return moveShape(info, d, field, defs, depth+1)
		}
	case *ast.CallExpr:
		// X.Args[0].DeepCopy()
		if sel, ok := x.Fun.(*ast.SelectorExpr); ok && sel.Sel.Name == "DeepCopy" && len(x.Args) == 0 {
			return moveShape(info, sel.X, field, defs, depth+1)
		}
	case *ast.IndexExpr:
		if r, s := moveShape(info, x.X, field, defs, depth+1); r != nil && s == "all" {
			if tv, ok := info.Types[x.Index]; ok && tv.Value != nil {
				return r, "[" + tv.Value.ExactString() + "]"
			}
			return r, "[i]"
		}
	case *ast.SliceExpr:
		if r, s := moveShape(info, x.X, field, defs, depth+1); r != nil && s == "all" {
			lo := "0"
			if x.Low != nil {
				lo = exprString(x.Low)
			}
			if x.High != nil {
				return r, "[" + lo + ":" + exprString(x.High) + "]"
			}
			return r, "[" + lo + ":]"
		}
	case *ast.SelectorExpr:
		if x.Sel.Name == field {
			if t := namedOf(info.TypeOf(x.X)); t != nil && t.Obj().Name() == "Option" {
				if id, ok := ast.Unparen(x.X).(*ast.Ident); ok {
					return objOf(info, id), "all"
				}
			}
		}
	}
	return nil, ""
}

func c17MovedPairs(ctx *Ctx, r *Report) {
	n := 0
	for _, rel := range veneerPkgs {
		p := ctx.Pkg(rel)
		if p == nil {
			continue
		}
		info := p.TypesInfo
		for _, file := range p.Syntax {
			for _, d := range file.Decls {
				fd, ok := d.(*ast.FuncDecl)
				if !ok || fd.Body == nil {
					continue
				}
				fobj, _ := info.Defs[fd.Name].(*types.Func)
				defs := map[types.Object]ast.Expr{}
				ast.Inspect(fd.Body, func(m ast.Node) bool {
					if as, ok := m.(*ast.AssignStmt); ok && as.Tok == token.DEFINE && len(as.Lhs) == len(as.Rhs) {
						for i, l := range as.Lhs {
							if id, ok := l.(*ast.Ident); ok {
								defs[info.Defs[id]] = as.Rhs[i]
							}
						}
					}
					return true
				})
				type mv struct {
					shape string
					pos   token.Pos
				}
				moved := map[types.Object]map[string][]mv{}
				ast.Inspect(fd.Body, func(m ast.Node) bool {
					c, ok := m.(*ast.CallExpr)
					if !ok || len(c.Args) < 2 {
						return true
					}
					if id, ok := c.Fun.(*ast.Ident); !ok || id.Name != "append" {
						return true
					}
					tsel, ok := ast.Unparen(c.Args[0]).(*ast.SelectorExpr)
					if !ok || (tsel.Sel.Name != "Args" && tsel.Sel.Name != "Assignments") {
						return true
					}
					field := tsel.Sel.Name
					for _, a := range c.Args[1:] {
						root, shape := moveShape(info, a, field, defs, 0)
						if root == nil {
							continue
						}
						// appending to the very slice it comes from is not a move
						if r2, _ := moveShape(info, tsel, field, defs, 0); r2 == root {
							continue
						}
						if moved[root] == nil {
							moved[root] = map[string][]mv{}
						}
						moved[root][field] = append(moved[root][field], mv{shape, c.Pos()})
					}
					return true
				})
				var roots []types.Object
				for o := range moved {
					roots = append(roots, o)
				}
				sort.Slice(roots, func(i, j int) bool { return roots[i].Pos() < roots[j].Pos() })
				for _, o := range roots {
					as, gs := moved[o]["Assignments"], moved[o]["Args"]
					if len(as) == 0 || len(gs) == 0 {
						continue
					}
					n++
					set := func(l []mv) string {
						seen := map[string]bool{}
						var out []string
						for _, x := range l {
							if !seen[x.shape] {
								seen[x.shape] = true
								out = append(out, x.shape)
							}
						}
						sort.Strings(out)
						return strings.Join(out, ",")
					}
					r.Check(set(as) == set(gs), "effects/args-with-assignments", fmt.Sprintf("%s moves %s.Args and %s.Assignments", ctx.FuncName(fobj), o.Name(), o.Name()), as[0].pos,
						"the same part of both lists is moved ("+set(as)+")",
						fmt.Sprintf("%s takes Args%s but Assignments%s of option `%s`: an assignment is moved without the argument it reads (or an argument without its assignment) — the target declares an assignment whose argument it does not have", ctx.FuncName(fobj), set(gs), set(as), o.Name()))
				}
			}
		}
	}
	r.Count("functions moving arguments and assignments of an option together", n)
	// (array_to_append and map_to_index were instances until they stopped pairing Args[0] with Assignments[0]: they
	// now locate the assignment that uses the argument and put every other assignment back in a loop)
	r.Floor("functions moving arguments and assignments of an option together", 1)
}

// c17AssignmentsConserved: an option action that answers with one option built as a copy of the one it was given and
// gives that copy a fresh Assignments list (rebuilt from the first assignment) must put the remaining assignments of
// the original back: the option "still assigns the same targets" — add_assignment may have given it several.
func c17AssignmentsConserved(ctx *Ctx, r *Report) {
	n := 0
	forEachVeneerClosure(ctx, func(p *packages.Package, fd *ast.FuncDecl, fobj *types.Func, lit *ast.FuncLit) {
		if !strings.HasSuffix(p.PkgPath, "/veneers/option") {
			return
		}
		info := p.TypesInfo
		// the option parameter
		var param types.Object
		for _, f := range lit.Type.Params.List {
			for _, nm := range f.Names {
				if t := namedOf(info.TypeOf(nm)); t != nil && t.Obj().Name() == "Option" {
					param = info.Defs[nm]
				}
			}
		}
		if param == nil {
			return
		}
		defs := map[types.Object]ast.Expr{}
		copies := map[types.Object]bool{}
		ast.Inspect(lit.Body, func(m ast.Node) bool {
			if as, ok := m.(*ast.AssignStmt); ok && as.Tok == token.DEFINE && len(as.Lhs) == len(as.Rhs) {
				for i, l := range as.Lhs {
					id, ok := l.(*ast.Ident)
					if !ok {
						continue
					}
					defs[info.Defs[id]] = as.Rhs[i]
					rhs := ast.Unparen(as.Rhs[i])
					if c, ok := rhs.(*ast.CallExpr); ok {
						if sel, ok := c.Fun.(*ast.SelectorExpr); ok && sel.Sel.Name == "DeepCopy" {
							rhs = ast.Unparen(sel.X)
						}
					}
					if rid, ok := rhs.(*ast.Ident); ok && objOf(info, rid) == param {
						copies[info.Defs[id]] = true
					}
				}
			}
			return true
		})
		for cp := range copies {
			var rebuilt *ast.AssignStmt
			ast.Inspect(lit.Body, func(m ast.Node) bool {
				as, ok := m.(*ast.AssignStmt)
				if !ok || as.Tok != token.ASSIGN || len(as.Lhs) != 1 {
					return true
				}
				sel, ok := ast.Unparen(as.Lhs[0]).(*ast.SelectorExpr)
				if !ok || sel.Sel.Name != "Assignments" {
					return true
				}
				if id, ok := ast.Unparen(sel.X).(*ast.Ident); !ok || objOf(info, id) != cp {
					return true
				}
				// `cp.Assignments = append(cp.Assignments, …)` extends, it does not rebuild
				if c, ok := ast.Unparen(as.Rhs[0]).(*ast.CallExpr); ok {
					if f, ok := c.Fun.(*ast.Ident); ok && f.Name == "append" {
						return true
					}
				}
				if rebuilt == nil {
					rebuilt = as
				}
				return true
			})
			if rebuilt == nil {
				continue
			}
			n++
			// the rest is put back: append(cp.Assignments, <option.Assignments>[1:]...) or a loop over option.Assignments appending
			restored := false
			conditional := ""
			parents := parentMap(fd)
			ast.Inspect(lit.Body, func(m ast.Node) bool {
				c, ok := m.(*ast.CallExpr)
				if !ok || len(c.Args) < 2 {
					return true
				}
				if f, ok := c.Fun.(*ast.Ident); !ok || f.Name != "append" {
					return true
				}
				tsel, ok := ast.Unparen(c.Args[0]).(*ast.SelectorExpr)
				if !ok || tsel.Sel.Name != "Assignments" {
					return true
				}
				if id, ok := ast.Unparen(tsel.X).(*ast.Ident); !ok || objOf(info, id) != cp {
					return true
				}
				for _, a := range c.Args[1:] {
					root, shape := moveShape(info, a, "Assignments", defs, 0)
					if root == param && (shape == "[1:]" || shape == "all") && c.Ellipsis.IsValid() {
						restored = true
						// the only condition it may depend on is the number of assignments itself
						for _, ctl := range controllingIfs(parents, fd, c) {
							if ctl.Pos() < lit.Pos() || ctl.Pos() < rebuilt.Pos() {
								continue // guards in front of the rebuild decide whether the action applies at all
							}
							onAssignments := false
							ast.Inspect(ctl.Cond, func(q ast.Node) bool {
								if e, ok := q.(ast.Expr); ok {
									if r2, s2 := moveShape(info, e, "Assignments", defs, 0); r2 == param && s2 == "all" {
										onAssignments = true
									}
								}
								return true
							})
							if !onAssignments && conditional == "" {
								conditional = exprString(ctl.Cond)
							}
						}
					}
				}
				return true
			})
			// loop form: `for i, a := range option.Assignments { if i != located { cp.Assignments = append(cp.Assignments, a); continue }; … append(cp.Assignments, <rewritten>) }`
			// — every assignment of the original goes back, one of them rewritten
			if !restored {
				ast.Inspect(lit.Body, func(m ast.Node) bool {
					rs, ok := m.(*ast.RangeStmt)
					if !ok || rs.Key == nil || rs.Value == nil {
						return true
					}
					if root, shape := moveShape(info, rs.X, "Assignments", defs, 0); root != param || shape != "all" {
						return true
					}
					key, _ := rs.Key.(*ast.Ident)
					val, _ := rs.Value.(*ast.Ident)
					if key == nil || val == nil {
						return true
					}
					appendsTo := func(n ast.Node, what func(ast.Expr) bool) bool {
						found := false
						ast.Inspect(n, func(q ast.Node) bool {
							c, ok := q.(*ast.CallExpr)
							if !ok || len(c.Args) != 2 {
								return true
							}
							if f, ok := c.Fun.(*ast.Ident); !ok || f.Name != "append" {
								return true
							}
							tsel, ok := ast.Unparen(c.Args[0]).(*ast.SelectorExpr)
							if !ok || tsel.Sel.Name != "Assignments" {
								return true
							}
							if id, ok := ast.Unparen(tsel.X).(*ast.Ident); !ok || objOf(info, id) != cp {
								return true
							}
							if what(c.Args[1]) {
								found = true
							}
							return true
						})
						return found
					}
					keptAsIs, rewritten := false, false
					for _, st := range rs.Body.List {
						if is, ok := st.(*ast.IfStmt); ok {
							onKey := false
							ast.Inspect(is.Cond, func(q ast.Node) bool {
								if id, ok := q.(*ast.Ident); ok && objOf(info, id) == info.Defs[key] {
									onKey = true
								}
								return true
							})
							if onKey && appendsTo(is.Body, func(e ast.Expr) bool {
								id, ok := ast.Unparen(e).(*ast.Ident)
								return ok && objOf(info, id) == info.Defs[val]
							}) {
								keptAsIs = true
							}
							continue
						}
						if appendsTo(st, func(ast.Expr) bool { return true }) {
							rewritten = true
						}
					}
					if keptAsIs && rewritten {
						restored = true
					}
					return true
				})
			}
			if restored && conditional != "" {
				r.Bad("effects/assignments-conserved", fmt.Sprintf("%s rebuilds %s.Assignments", ctx.FuncName(fobj), cp.Name()), rebuilt.Pos(),
					fmt.Sprintf("%s appends the original's remaining assignments back only under `%s`, a condition that does not look at the assignments: an option with one argument and a constant added by add_assignment loses that constant — it no longer assigns the same targets", ctx.FuncName(fobj), conditional))
				continue
			}
			r.Check(restored, "effects/assignments-conserved", fmt.Sprintf("%s rebuilds %s.Assignments", ctx.FuncName(fobj), cp.Name()), rebuilt.Pos(), "the assignments after the first one are appended back from the original option",
				fmt.Sprintf("%s gives its copy of the option a fresh Assignments list and never appends the original's remaining assignments (`append(%s.Assignments, <original>.Assignments[1:]...)`): an option that add_assignment gave a second assignment loses it — it no longer assigns the same targets", ctx.FuncName(fobj), cp.Name()))
		}
	})
	r.Count("option actions rebuilding the assignments of a copied option", n)
	r.Floor("option actions rebuilding the assignments of a copied option", 2)
}

// c17ExactLookups: objects and builders are stored under their exact names (two names differing by case are two objects);
// the functions that resolve a reference or a builder name to one element must compare exactly — selectors, which take
// names from configuration files, are documented as case-insensitive and are not lookups.
func c17ExactLookups(ctx *Ctx, r *Report) {
	n := 0
	ctx.AllFuncDecls(func(p *packages.Package, fd *ast.FuncDecl, obj *types.Func) {
		if fd.Body == nil || fd.Recv == nil {
			return
		}
		rel := ctx.RelPkg(p.PkgPath)
		if rel != "internal/ast" && rel != "internal/languages" {
			return
		}
		nm := fd.Name.Name
		if !(strings.HasPrefix(nm, "Locate") || strings.HasPrefix(nm, "Resolve")) {
			return
		}
		n++
		bad := ""
		ast.Inspect(fd.Body, func(m ast.Node) bool {
			if c, ok := m.(*ast.CallExpr); ok {
				if fn := callee(p.TypesInfo, c); fn != nil {
					switch fn.FullName() {
					case "strings.EqualFold", "strings.ToLower", "strings.ToUpper", modulePath + "/internal/tools.StringInListEqualFold":
						bad = fn.FullName()
					}
				}
			}
			return true
		})
		r.Check(bad == "", "lookup/exact-name", ctx.FuncName(obj), fd.Pos(), "names are compared exactly",
			fmt.Sprintf("%s resolves a name through %s: with two objects / builders whose names differ only by case, references to the second one resolve to the first — paths are typed after the wrong struct and the wrong builder's options are merged", ctx.FuncName(obj), bad))
	})
	r.Count("reference / builder lookups", n)
	r.Floor("reference / builder lookups", 10)
}

// c17AppendOnSharedSlice: builders travel by value; a by-value copy shares its slices with the original. Appending to
// such a slice is harmless for the original (the new element lies beyond its length) but not for a *sibling* copy: two
// copies of one source that both append write the same slot of the shared backing array whenever it has spare capacity,
// and the first copy then reads the second one's element. Rule: a function that appends to a slice reached through a
// by-value copy of (a field of) one of its parameters, without first replacing it by fresh storage, may not be called in
// a loop with the same argument for that parameter.
func c17AppendOnSharedSlice(ctx *Ctx, r *Report) {
	n := 0
	type hazard struct {
		fn     *types.Func
		param  int
		pname  string
		pos    token.Pos
		target string
	}
	var hazards []hazard
	for _, rel := range veneerPkgs {
		p := ctx.Pkg(rel)
		if p == nil {
			continue
		}
		info := p.TypesInfo
		for _, file := range p.Syntax {
			for _, d := range file.Decls {
				fd, ok := d.(*ast.FuncDecl)
				if !ok || fd.Body == nil {
					continue
				}
				fobj, _ := info.Defs[fd.Name].(*types.Func)
				params := map[types.Object]int{}
				k := 0
				for _, f := range fd.Type.Params.List {
					for _, nm := range f.Names {
						params[info.Defs[nm]] = k
						k++
					}
				}
				// shared[X] = list of field-path prefixes of X that are by-value copies of a parameter's storage ("" = whole value)
				type share struct {
					prefix string
					param  types.Object
					at     token.Pos
				}
				shared := map[types.Object][]share{}
				ast.Inspect(fd.Body, func(m ast.Node) bool {
					as, ok := m.(*ast.AssignStmt)
					if !ok || as.Tok != token.DEFINE || len(as.Lhs) != 1 || len(as.Rhs) != 1 {
						return true
					}
					id, ok := as.Lhs[0].(*ast.Ident)
					if !ok {
						return true
					}
					x := info.Defs[id]
					switch rhs := ast.Unparen(as.Rhs[0]).(type) {
					case *ast.Ident:
						if _, isParam := params[objOf(info, rhs)]; isParam {
							if _, isStruct := info.TypeOf(rhs).Underlying().(*types.Struct); isStruct {
								shared[x] = append(shared[x], share{"", objOf(info, rhs), as.Pos()})
							}
						}
					case *ast.CompositeLit:
						for _, el := range rhs.Elts {
							kv, ok := el.(*ast.KeyValueExpr)
							if !ok {
								continue
							}
							key, ok := kv.Key.(*ast.Ident)
							if !ok {
								continue
							}
							ap := accessPathOf(info, kv.Value)
							if !ap.ok || len(ap.steps) == 0 {
								continue
							}
							if _, isParam := params[ap.root]; !isParam {
								continue
							}
							if _, isCall := ast.Unparen(kv.Value).(*ast.CallExpr); isCall {
								continue
							}
							if !typeContainsRef(info.TypeOf(kv.Value)) {
								continue
							}
							shared[x] = append(shared[x], share{key.Name, ap.root, kv.Pos()})
						}
					}
					return true
				})
				if len(shared) == 0 {
					continue
				}
				// appends through X
				ast.Inspect(fd.Body, func(m ast.Node) bool {
					as, ok := m.(*ast.AssignStmt)
					if !ok || len(as.Lhs) != 1 || len(as.Rhs) != 1 {
						return true
					}
					c, ok := ast.Unparen(as.Rhs[0]).(*ast.CallExpr)
					if !ok || !isBuiltinCall(info, c, "append") || len(c.Args) == 0 || exprString(c.Args[0]) != exprString(as.Lhs[0]) {
						return true
					}
					ap := accessPathOf(info, as.Lhs[0])
					if !ap.ok || len(ap.steps) == 0 {
						return true
					}
					shs, ok := shared[ap.root]
					if !ok {
						return true
					}
					var names []string
					for _, sp := range ap.steps {
						if sp.field != nil {
							names = append(names, sp.field.Name())
						}
					}
					path := strings.Join(names, ".")
					for _, sh := range shs {
						if sh.prefix != "" && path != sh.prefix && !strings.HasPrefix(path, sh.prefix+".") {
							continue
						}
						// replaced by fresh storage before? (an earlier plain assignment to the same path or a prefix of it)
						fresh := false
						ast.Inspect(fd.Body, func(q ast.Node) bool {
							a2, ok := q.(*ast.AssignStmt)
							if !ok || a2.Pos() >= as.Pos() || a2.Pos() <= sh.at || len(a2.Lhs) != 1 || a2 == as {
								return true
							}
							ap2 := accessPathOf(info, a2.Lhs[0])
							if !ap2.ok || ap2.root != ap.root || len(ap2.steps) == 0 {
								return true
							}
							var n2 []string
							for _, sp := range ap2.steps {
								if sp.field != nil {
									n2 = append(n2, sp.field.Name())
								}
							}
							p2 := strings.Join(n2, ".")
							if p2 == path || strings.HasPrefix(path, p2+".") {
								if c2, ok := ast.Unparen(a2.Rhs[0]).(*ast.CallExpr); ok && isBuiltinCall(info, c2, "append") {
									return true
								}
								fresh = true
							}
							return true
						})
						if fresh {
							continue
						}
						n++
						hazards = append(hazards, hazard{fobj, params[sh.param], sh.param.Name(), as.Pos(), exprString(as.Lhs[0])})
					}
					return true
				})
			}
		}
	}
	// call sites in loops with a loop-invariant argument
	reported := map[string]bool{}
	for _, h := range hazards {
		cons := fmt.Sprintf("%s appends to %s (shared with parameter %s)", ctx.FuncName(h.fn), h.target, h.pname)
		if reported[cons] {
			continue
		}
		reported[cons] = true
		bad := ""
		for _, rel := range veneerPkgs {
			p := ctx.Pkg(rel)
			if p == nil {
				continue
			}
			info := p.TypesInfo
			for _, file := range p.Syntax {
				for _, d := range file.Decls {
					fd, ok := d.(*ast.FuncDecl)
					if !ok || fd.Body == nil {
						continue
					}
					parents := parentMap(fd)
					ast.Inspect(fd.Body, func(m ast.Node) bool {
						c, ok := m.(*ast.CallExpr)
						if !ok || callee(info, c) != h.fn || h.param >= len(c.Args) || bad != "" {
							return true
						}
						arg := c.Args[h.param]
						for _, lp := range enclosingLoops(parents, c) {
							var body *ast.BlockStmt
							switch x := lp.(type) {
							case *ast.RangeStmt:
								body = x.Body
							case *ast.ForStmt:
								body = x.Body
							}
							if body == nil {
								continue
							}
							// invariant: the argument's root is declared outside the loop and not assigned in its body
							ap := accessPathOf(info, arg)
							if !ap.ok || ap.root == nil {
								continue
							}
							if ap.root.Pos() >= lp.Pos() && ap.root.Pos() <= lp.End() {
								continue
							}
							assigned := false
							ast.Inspect(body, func(q ast.Node) bool {
								if a, ok := q.(*ast.AssignStmt); ok {
									for _, l := range a.Lhs {
										if id, ok := ast.Unparen(l).(*ast.Ident); ok && objOf(info, id) == ap.root {
											assigned = true
										}
									}
								}
								return true
							})
							if !assigned {
								bad = fmt.Sprintf("called at %s in a loop with the same %s on every iteration", ctx.Pos(c.Pos()), exprString(arg))
							}
						}
						return true
					})
				}
			}
		}
		r.Check(bad == "", "ownership/append-on-shared-slice", cons, h.pos, "never called twice with the same value for that parameter from a loop",
			fmt.Sprintf("%s appends to %s, whose backing array it shares with its parameter %s, and is %s: whenever that array has spare capacity every call writes the same slot — the builders produced by earlier iterations end up with the element appended by the last one", ctx.FuncName(h.fn), h.target, h.pname, bad))
	}
	r.Count("appends through a by-value copy of a parameter in the veneers", n)
	r.Floor("appends through a by-value copy of a parameter in the veneers", 2)
}

// c17RenameArgumentsCovers: an option names its arguments in several places: its own Args, the value of each assignment,
// the operand of each assignment constraint, the index of an indexed path item, the values of an envelope. The positions
// are computed from the types (every field of type Argument / *Argument reachable from ast.Option); rename_arguments has
// to write the new name through each of them, or the generated option refers to a parameter that no longer exists.
var c17RenameArgExempt = map[string]string{
	"Option.Args":         "",
	"Constructor.Args":    "not part of an option",
	"BuilderFactory.Args": "not part of an option",
}

func c17RenameArgumentsCovers(ctx *Ctx, r *Report) {
	optT := ctx.LookupType("internal/ast", "Option")
	argT := ctx.LookupType("internal/ast", "Argument")
	p := ctx.Pkg("internal/veneers/option")
	if optT == nil || argT == nil || p == nil {
		r.Undecided("anchor lost: ast.Option / ast.Argument / veneers/option")
		return
	}
	// positions: (owner struct, field) whose type is Argument, *Argument or []Argument, reachable from Option
	type pos struct {
		owner string
		field *types.Var
	}
	var positions []pos
	seen := map[*types.Named]bool{}
	var walk func(t types.Type)
	walk = func(t types.Type) {
		switch x := t.(type) {
		case *types.Pointer:
			walk(x.Elem())
		case *types.Slice:
			walk(x.Elem())
		case *types.Map:
			walk(x.Elem())
		case *types.Named:
			if seen[x] || x.Obj().Pkg() == nil || x.Obj().Pkg().Path() != astPkgPath || x.Obj().Name() == "Type" {
				return
			}
			seen[x] = true
			st, ok := x.Underlying().(*types.Struct)
			if !ok {
				walk(x.Underlying())
				return
			}
			for i := 0; i < st.NumFields(); i++ {
				f := st.Field(i)
				ft := f.Type()
				for {
					switch y := ft.(type) {
					case *types.Pointer:
						ft = y.Elem()
						continue
					case *types.Slice:
						ft = y.Elem()
						continue
					}
					break
				}
				if namedOf(ft) == argT {
					positions = append(positions, pos{x.Obj().Name(), f})
				} else {
					walk(f.Type())
				}
			}
		}
	}
	walk(optT)
	// writes of .Name through each position in RenameArgumentsAction
	var lit *ast.FuncLit
	var fobj *types.Func
	forEachVeneerClosure(ctx, func(pp *packages.Package, fd *ast.FuncDecl, fo *types.Func, l *ast.FuncLit) {
		if fd.Name.Name == "RenameArgumentsAction" && lit == nil {
			lit, fobj = l, fo
		}
	})
	if lit == nil {
		r.Undecided("anchor lost: option.RenameArgumentsAction")
		return
	}
	info := p.TypesInfo
	written := map[*types.Var]bool{}
	// the literal and the helpers of the package it calls (two levels)
	bodies := []ast.Node{lit.Body}
	seenFn := map[*types.Func]bool{}
	for depth := 0; depth < 2; depth++ {
		for _, b := range append([]ast.Node{}, bodies...) {
			ast.Inspect(b, func(m ast.Node) bool {
				if c, ok := m.(*ast.CallExpr); ok {
					if fn := callee(info, c); fn != nil && fn.Pkg() == p.Types && !seenFn[fn] {
						seenFn[fn] = true
						if hfd, _ := ctx.DeclOf(fn); hfd != nil && hfd.Body != nil {
							bodies = append(bodies, hfd.Body)
						}
					}
				}
				return true
			})
		}
	}
	for _, b := range bodies {
		collectNameWrites(info, b, written)
	}
	n := 0
	for _, ps := range positions {
		key := ps.owner + "." + ps.field.Name()
		n++
		cons := fmt.Sprintf("%s renames %s", ctx.FuncName(fobj), key)
		if why, ok := c17RenameArgExempt[key]; ok && why != "" {
			r.OK("effects/rename-arguments-covers", cons, ps.field.Pos(), "reviewed: "+why)
			continue
		}
		r.Check(written[ps.field], "effects/rename-arguments-covers", cons, ps.field.Pos(), "the new name is written through this position",
			fmt.Sprintf("an option names its arguments in %s too, and rename_arguments never writes a name there: after the rename that position still carries the old name — the generated option refers to a parameter that does not exist (Python: NameError on every call)", key))
	}
	r.Count("positions of an option that name an argument", n)
	r.Floor("positions of an option that name an argument", 3)
}

func collectNameWrites(info *types.Info, body ast.Node, written map[*types.Var]bool) {
	ast.Inspect(body, func(m ast.Node) bool {
		as, ok := m.(*ast.AssignStmt)
		if !ok {
			return true
		}
		for _, l := range as.Lhs {
			sel, ok := ast.Unparen(l).(*ast.SelectorExpr)
			if !ok || sel.Sel.Name != "Name" {
				continue
			}
			ap := accessPathOf(info, sel.X)
			if !ap.ok {
				continue
			}
			for _, sp := range ap.steps {
				if sp.field != nil {
					written[sp.field] = true
				}
			}
		}
		return true
	})
}

// c17MergedPathsPrefixed: mergeBuilderInto re-roots the assignments of the merged builder under `underPath`. The paths of
// the source builder are relative to the *source* object: the only sound use of one in this function is as the argument of
// underPath.Append(·). Comparing a source path with the destination's paths, or storing it unprefixed, mixes the two
// coordinate systems (`type` of the merged options object vs `type` of the panel).
func c17MergedPathsPrefixed(ctx *Ctx, r *Report) {
	p := ctx.Pkg("internal/veneers/builder")
	fn := ctx.LookupFunc("internal/veneers/builder", "mergeBuilderInto")
	fd, _ := ctx.DeclOf(fn)
	if p == nil || fd == nil {
		r.Undecided("anchor lost: builder.mergeBuilderInto")
		return
	}
	info := p.TypesInfo
	parents := parentMap(fd)
	var from, under types.Object
	for _, f := range fd.Type.Params.List {
		for _, nm := range f.Names {
			switch nm.Name {
			case "fromBuilder":
				from = info.Defs[nm]
			case "underPath":
				under = info.Defs[nm]
			}
		}
	}
	if from == nil || under == nil {
		r.Undecided("anchor lost: parameters fromBuilder / underPath of mergeBuilderInto")
		return
	}
	// values ranging over (parts of) fromBuilder
	sourceVars := map[types.Object]bool{from: true}
	for round := 0; round < 3; round++ {
		ast.Inspect(fd.Body, func(m ast.Node) bool {
			if rs, ok := m.(*ast.RangeStmt); ok {
				if ap := accessPathOf(info, rs.X); ap.ok && sourceVars[ap.root] {
					if v, ok := rs.Value.(*ast.Ident); ok {
						sourceVars[info.Defs[v]] = true
					}
				}
			}
			return true
		})
	}
	n := 0
	ast.Inspect(fd.Body, func(m ast.Node) bool {
		sel, ok := m.(*ast.SelectorExpr)
		if !ok || sel.Sel.Name != "Path" {
			return true
		}
		ap := accessPathOf(info, sel)
		if !ap.ok || !sourceVars[ap.root] || ap.root == from && len(ap.steps) < 2 {
			return true
		}
		// the LHS of an assignment is a write, not a read
		if as, ok := parents[sel].(*ast.AssignStmt); ok {
			for _, l := range as.Lhs {
				if l == ast.Expr(sel) {
					return true
				}
			}
		}
		n++
		prefixed := false
		if c, ok := parents[sel].(*ast.CallExpr); ok {
			if cs, ok := c.Fun.(*ast.SelectorExpr); ok && cs.Sel.Name == "Append" {
				if id, ok := ast.Unparen(cs.X).(*ast.Ident); ok && objOf(info, id) == under {
					prefixed = true
				}
			}
		}
		r.Check(prefixed, "effects/merged-paths-prefixed", fmt.Sprintf("builder.mergeBuilderInto reads %s #%d", exprString(sel), n), sel.Pos(), "only as the argument of underPath.Append",
			fmt.Sprintf("mergeBuilderInto uses the source builder's path %s outside underPath.Append(·): source paths are relative to the merged object, destination paths to the destination — compared or stored as they are, `type` of the merged object is taken for `type` of the destination (a constructor constant is dropped or lands on the wrong field)", exprString(sel)))
		return true
	})
	r.Count("reads of source paths in mergeBuilderInto", n)
	r.Floor("reads of source paths in mergeBuilderInto", 2)
}

// c17ArgsAssignmentsNotAligned: an option's arguments and assignments are two lists of different lengths in general
// (constants have no argument, map_to_index gives two arguments to one assignment): the assignment that uses an argument
// is found by the argument's *name*. Indexing the assignments with the variable that indexes the arguments rewrites the
// wrong assignment (or none) whenever the lists are not aligned. The constant index 0 (first/first, guarded by length
// tests) is the repo's idiom for freshly derived options and is left to the conservation rules.
func c17ArgsAssignmentsNotAligned(ctx *Ctx, r *Report) {
	argT := ctx.LookupType("internal/ast", "Argument")
	asgT := ctx.LookupType("internal/ast", "Assignment")
	n := 0
	for _, rel := range []string{"internal/veneers/option", "internal/veneers/builder"} {
		p := ctx.Pkg(rel)
		if p == nil {
			continue
		}
		info := p.TypesInfo
		elemOf := func(e ast.Expr) *types.Named {
			if t := info.TypeOf(e); t != nil {
				if sl, ok := t.Underlying().(*types.Slice); ok {
					return namedOf(sl.Elem())
				}
			}
			return nil
		}
		for _, file := range p.Syntax {
			for _, d := range file.Decls {
				fd, ok := d.(*ast.FuncDecl)
				if !ok || fd.Body == nil {
					continue
				}
				fobj, _ := info.Defs[fd.Name].(*types.Func)
				argIdx := map[types.Object]bool{}
				ast.Inspect(fd.Body, func(m ast.Node) bool {
					if ix, ok := m.(*ast.IndexExpr); ok && elemOf(ix.X) == argT {
						if id, ok := ast.Unparen(ix.Index).(*ast.Ident); ok {
							argIdx[objOf(info, id)] = true
						}
					}
					return true
				})
				// range keys over the assignments themselves are fine
				ast.Inspect(fd.Body, func(m ast.Node) bool {
					if rs, ok := m.(*ast.RangeStmt); ok && elemOf(rs.X) == asgT {
						if id, ok := rs.Key.(*ast.Ident); ok {
							delete(argIdx, info.Defs[id])
						}
					}
					return true
				})
				ast.Inspect(fd.Body, func(m ast.Node) bool {
					ix, ok := m.(*ast.IndexExpr)
					if !ok || elemOf(ix.X) != asgT {
						return true
					}
					id, ok := ast.Unparen(ix.Index).(*ast.Ident)
					if !ok {
						return true
					}
					n++
					r.Check(!argIdx[objOf(info, id)], "effects/assignment-located-by-name", fmt.Sprintf("%s indexes assignments with %s", ctx.FuncName(fobj), id.Name), ix.Pos(), "the index does not come from the arguments list",
						fmt.Sprintf("%s indexes the assignments with %s, which also indexes the arguments: the two lists are not aligned (constants have no argument, map_to_index gives two arguments to one assignment) — the wrong assignment is rewritten and the produced option assigns an argument it does not declare", ctx.FuncName(fobj), id.Name))
					return true
				})
			}
		}
	}
	r.Count("variable indexes into assignment lists in the veneers", n)
	r.Floor("variable indexes into assignment lists in the veneers", 3)
}

// c17UnfoldTestsTarget: unfold_boolean replaces an option by two options assigning true / false to the option's target:
// what has to be boolean is the *target* (the type at the end of the assignment path), not the argument — after
// array_to_append the argument of a `[]bool` option is a bool while its target is still the list.
func c17UnfoldTestsTarget(ctx *Ctx, r *Report) {
	p := ctx.Pkg("internal/veneers/option")
	if p == nil {
		return
	}
	info := p.TypesInfo
	var lit *ast.FuncLit
	var fobj *types.Func
	forEachVeneerClosure(ctx, func(pp *packages.Package, fd *ast.FuncDecl, fo *types.Func, l *ast.FuncLit) {
		if fd.Name.Name == "UnfoldBooleanAction" && lit == nil {
			lit, fobj = l, fo
		}
	})
	if lit == nil {
		r.Undecided("anchor lost: option.UnfoldBooleanAction")
		return
	}
	defs := map[types.Object]ast.Expr{}
	ast.Inspect(lit.Body, func(m ast.Node) bool {
		if as, ok := m.(*ast.AssignStmt); ok && as.Tok == token.DEFINE && len(as.Lhs) == 1 && len(as.Rhs) == 1 {
			if id, ok := as.Lhs[0].(*ast.Ident); ok {
				defs[info.Defs[id]] = as.Rhs[0]
			}
		}
		return true
	})
	n := 0
	ast.Inspect(lit.Body, func(m ast.Node) bool {
		be, ok := m.(*ast.BinaryExpr)
		if !ok || (be.Op != token.EQL && be.Op != token.NEQ) {
			return true
		}
		if !strings.HasSuffix(exprString(be.Y), "KindBool") && !strings.HasSuffix(exprString(be.X), "KindBool") {
			return true
		}
		n++
		// the tested value: root of the other side, through local definitions
		side := be.X
		if strings.HasSuffix(exprString(be.X), "KindBool") {
			side = be.Y
		}
		src := exprString(side)
		if ap := accessPathOf(info, side); ap.ok {
			if d, ok := defs[ap.root]; ok {
				src = exprString(d)
			}
		}
		onTarget := strings.Contains(src, ".Path") && strings.Contains(src, "Last()")
		r.Check(onTarget, "flow/unfold-tests-target", ctx.FuncName(fobj)+" boolean test", be.Pos(), "made on the type at the end of the assignment path",
			fmt.Sprintf("unfold_boolean decides from %s whether the option is boolean: it is the assignment's target that receives true / false — after array_to_append a `[]bool` option has a bool argument and a list target, the unfolded options assign `true` to a list", src))
		return true
	})
	r.Count("boolean tests in unfold_boolean", n)
	r.Floor("boolean tests in unfold_boolean", 1)
}

// c17CopyOnWriteAppends: options and builders travel by value through the veneers; a by-value copy shares the backing
// arrays of its slices with every other copy. `x.F = append(x.F, …)` on such a copy writes into the shared array
// whenever it has spare capacity: two copies of one option that both append (the two options unfold_boolean makes,
// the options merge_into / compose copy) overwrite each other's element. Rule: in the veneer packages and in the
// methods of ast.Option / ast.Builder, an in-place append to a slice field reached from a parameter or receiver of
// type Option / Builder (or from a local that is a plain copy of one) is written copy-on-write — the first argument of
// the append is itself a fresh copy (`append(append([]T(nil), x.F...), …)`).
func c17CopyOnWriteAppends(ctx *Ctx, r *Report) {
	optT := ctx.LookupType("internal/ast", "Option")
	bldT := ctx.LookupType("internal/ast", "Builder")
	objT := ctx.LookupType("internal/ast", "Object")
	if optT == nil || bldT == nil {
		r.Undecided("anchor lost: ast.Option / ast.Builder")
		return
	}
	carrier := func(t types.Type) bool {
		n := namedOf(stripContainers(t))
		_ = objT
		return n != nil && (n == optT || n == bldT)
	}
	pkgs := append([]string{"internal/ast"}, veneerPkgs...)
	n := 0
	for _, rel := range pkgs {
		p := ctx.Pkg(rel)
		if p == nil {
			continue
		}
		info := p.TypesInfo
		for _, file := range p.Syntax {
			for _, d := range file.Decls {
				fd, ok := d.(*ast.FuncDecl)
				if !ok || fd.Body == nil {
					continue
				}
				if rel == "internal/ast" {
					// only the methods of Option / Builder
					if fd.Recv == nil || len(fd.Recv.List) == 0 || !carrier(info.TypeOf(fd.Recv.List[0].Type)) {
						continue
					}
				}
				fobj, _ := info.Defs[fd.Name].(*types.Func)
				// parameters and receivers (of the function and of every literal inside it) that carry an option / builder
				roots := map[types.Object]bool{}
				addFields := func(fl *ast.FieldList) {
					if fl == nil {
						return
					}
					for _, f := range fl.List {
						for _, nm := range f.Names {
							if o := info.Defs[nm]; o != nil && carrier(o.Type()) {
								roots[o] = true
							}
						}
					}
				}
				addFields(fd.Recv)
				addFields(fd.Type.Params)
				ast.Inspect(fd.Body, func(m ast.Node) bool {
					if fl, ok := m.(*ast.FuncLit); ok {
						addFields(fl.Type.Params)
					}
					return true
				})
				directParams := map[types.Object]bool{}
				for o := range roots {
					// `builders[i].X`: elements of a slice parameter are not the by-value copy in question
					if _, isSlice := o.Type().Underlying().(*types.Slice); !isSlice {
						directParams[o] = true
					}
				}
				// plain copies: x := param / for _, x := range params
				for changed := true; changed; {
					changed = false
					ast.Inspect(fd.Body, func(m ast.Node) bool {
						switch x := m.(type) {
						case *ast.AssignStmt:
							if x.Tok == token.DEFINE && len(x.Lhs) == 1 && len(x.Rhs) == 1 {
								if id, ok := x.Lhs[0].(*ast.Ident); ok {
									if src := rootIdent(x.Rhs[0]); src != nil && isAccessPath(x.Rhs[0]) && roots[objOf(info, src)] {
										if o := info.Defs[id]; o != nil && carrier(o.Type()) && !roots[o] {
											roots[o] = true
											changed = true
										}
									}
								}
							}
						case *ast.RangeStmt:
							if id, ok := x.Value.(*ast.Ident); ok && x.Tok == token.DEFINE {
								if src := rootIdent(x.X); src != nil && roots[objOf(info, src)] {
									if o := info.Defs[id]; o != nil && carrier(o.Type()) && !roots[o] {
										roots[o] = true
										changed = true
									}
								}
							}
						}
						return true
					})
				}
				if len(roots) == 0 {
					continue
				}
				seen := map[string]int{}
				ast.Inspect(fd.Body, func(m ast.Node) bool {
					as, ok := m.(*ast.AssignStmt)
					if !ok || len(as.Lhs) != 1 || len(as.Rhs) != 1 {
						return true
					}
					c, ok := ast.Unparen(as.Rhs[0]).(*ast.CallExpr)
					if !ok || !isBuiltinCall(info, c, "append") || len(c.Args) < 2 {
						return true
					}
					root := rootIdent(as.Lhs[0])
					if root == nil || !roots[objOf(info, root)] {
						return true
					}
					if _, isSel := ast.Unparen(as.Lhs[0]).(*ast.SelectorExpr); !isSel {
						return true
					}
					// only slices of strings and of assignments are shared this way without a DeepCopy in between; element
					// types that own the option list itself (builders[i].Options = append(...)) are judged by the
					// sibling rule c17AppendOnSharedSlice
					st, ok := info.TypeOf(as.Lhs[0]).Underlying().(*types.Slice)
					if !ok {
						return true
					}
					// slices of strings (comments, trails) on any copy; slices of assignments only when reached directly from
					// the parameter (locals rebuilt from fresh storage are judged by the sibling rule c17AppendOnSharedSlice)
					elem := st.Elem().String()
					_, direct := directParams[objOf(info, root)]
					if elem != "string" && !(strings.HasSuffix(elem, "ast.Assignment") && direct) {
						return true
					}
					n++
					key := ctx.FuncName(fobj) + " appends to " + exprString(as.Lhs[0])
					seen[key]++
					cons := key
					if seen[key] > 1 {
						cons = fmt.Sprintf("%s #%d", key, seen[key])
					}
					inPlace := sameAccessPath(info, as.Lhs[0], c.Args[0])
					fresh := false
					if inner, ok := ast.Unparen(c.Args[0]).(*ast.CallExpr); ok && isBuiltinCall(info, inner, "append") && len(inner.Args) == 2 && inner.Ellipsis.IsValid() {
						if sameAccessPath(info, inner.Args[1], as.Lhs[0]) {
							fresh = true
						}
					}
					r.Check(fresh || !inPlace, "effects/copy-on-write-append", cons, as.Pos(), "the slice is copied before the element is appended",
						exprString(as.Lhs[0])+" is appended to in place on a value of type Option / Builder that arrived by value: the backing array is shared with every other copy of that value, and with spare capacity a sibling copy that appends too overwrites this element (unfold_boolean + add_comments: the comment added to `readonly` replaced the one added to `editable`)")
					return true
				})
			}
		}
	}
	r.Count("appends to string / assignment slices of by-value options and builders", n)
	r.Floor("appends to string / assignment slices of by-value options and builders", 4)
}

// c17ArgumentUsesThroughEnvelopes: an option action that looks for the uses of an argument by comparing
// `….Value.Argument.Name` with a name sees the direct value of each assignment only. After struct_fields_as_arguments
// on an appended list the argument lives inside an envelope (`links.append(Link{target: target})`). Every function of
// the option actions that matches assignment values by argument name also walks the envelopes: it calls (or is) a
// function that ranges over `.Envelope.Values` and descends again.
func c17ArgumentUsesThroughEnvelopes(ctx *Ctx, r *Report) {
	p := ctx.Pkg("internal/veneers/option")
	if p == nil {
		r.Undecided("anchor lost: internal/veneers/option")
		return
	}
	info := p.TypesInfo
	// envelope walkers: functions that range over Envelope.Values and call themselves
	walkers := map[*types.Func]bool{}
	for _, f := range p.Syntax {
		for _, d := range f.Decls {
			fd, ok := d.(*ast.FuncDecl)
			if !ok || fd.Body == nil {
				continue
			}
			fobj, _ := info.Defs[fd.Name].(*types.Func)
			ranges, recurses := false, false
			ast.Inspect(fd.Body, func(n ast.Node) bool {
				switch x := n.(type) {
				case *ast.RangeStmt:
					if ff := fieldOf(info, x.X); ff != nil && ff.Name() == "Values" && strings.Contains(exprString(x.X), "Envelope") {
						ranges = true
					}
				case *ast.CallExpr:
					if callee(info, x) == fobj {
						recurses = true
					}
				}
				return true
			})
			if ranges && recurses {
				walkers[fobj] = true
			}
		}
	}
	r.Count("envelope walkers in the option actions", len(walkers))
	r.Floor("envelope walkers in the option actions", 2)
	n := 0
	for _, f := range p.Syntax {
		for _, d := range f.Decls {
			fd, ok := d.(*ast.FuncDecl)
			if !ok || fd.Body == nil {
				continue
			}
			fobj, _ := info.Defs[fd.Name].(*types.Func)
			if walkers[fobj] {
				continue
			}
			matches := false
			var at token.Pos
			ast.Inspect(fd.Body, func(m ast.Node) bool {
				be, ok := m.(*ast.BinaryExpr)
				if !ok || (be.Op != token.EQL && be.Op != token.NEQ) {
					return true
				}
				for _, side := range []ast.Expr{be.X, be.Y} {
					if txt := exprString(side); strings.HasSuffix(txt, ".Value.Argument.Name") {
						matches = true
						at = be.Pos()
					}
				}
				return true
			})
			if !matches {
				continue
			}
			n++
			walks := false
			ast.Inspect(fd.Body, func(m ast.Node) bool {
				if c, ok := m.(*ast.CallExpr); ok {
					if fn := callee(info, c); fn != nil && walkers[fn] {
						walks = true
					}
				}
				return true
			})
			r.Check(walks, "effects/argument-uses-through-envelopes", ctx.FuncName(fobj)+" looks for an argument inside envelopes too", at,
				"the function also calls an envelope walker",
				"the function finds the uses of an argument by comparing the direct value of each assignment only: an argument used inside an envelope (after struct_fields_as_arguments on an appended list) is missed — the rewritten option no longer declares an argument its assignment still reads (Go: undefined variable)")
		}
	}
	r.Count("option actions matching assignment values by argument name", n)
	r.Floor("option actions matching assignment values by argument name", 2)
}

// c17PathPrefixThroughArrays: an option action that extends the path of an existing assignment with the fields of a
// struct (`prefix.Append(…)`, `prefix.AppendStructField(…)`) produces `prefix.field`. When the prefix ends in a list
// (the option appends one element: array_to_append) that is not a chain of struct fields. Every such function tests
// the last item of the prefix for being an array, as struct_fields_as_arguments does (`assignIntoList`).
func c17PathPrefixThroughArrays(ctx *Ctx, r *Report) {
	p := ctx.Pkg("internal/veneers/option")
	if p == nil {
		r.Undecided("anchor lost: internal/veneers/option")
		return
	}
	info := p.TypesInfo
	n := 0
	for _, f := range p.Syntax {
		for _, d := range f.Decls {
			fd, ok := d.(*ast.FuncDecl)
			if !ok || fd.Body == nil {
				continue
			}
			fobj, _ := info.Defs[fd.Name].(*types.Func)
			// locals defined from the path of an assignment of the option
			prefixes := map[types.Object]bool{}
			ast.Inspect(fd.Body, func(m ast.Node) bool {
				as, ok := m.(*ast.AssignStmt)
				if !ok || as.Tok != token.DEFINE || len(as.Lhs) != 1 || len(as.Rhs) != 1 {
					return true
				}
				if sel, ok := ast.Unparen(as.Rhs[0]).(*ast.SelectorExpr); ok && sel.Sel.Name == "Path" && strings.Contains(exprString(sel.X), "ssignments[") {
					if id, ok := as.Lhs[0].(*ast.Ident); ok {
						prefixes[info.Defs[id]] = true
					}
				}
				return true
			})
			for pre := range prefixes {
				extended := token.NoPos
				tested := false
				ast.Inspect(fd.Body, func(m ast.Node) bool {
					c, ok := m.(*ast.CallExpr)
					if !ok {
						return true
					}
					sel, ok := ast.Unparen(c.Fun).(*ast.SelectorExpr)
					if !ok {
						return true
					}
					if (sel.Sel.Name == "Append" || sel.Sel.Name == "AppendStructField") && isIdentOf(info, sel.X, pre) && !extended.IsValid() {
						extended = c.Pos()
					}
					if sel.Sel.Name == "IsArray" && strings.HasPrefix(exprString(sel.X), pre.Name()+".Last()") {
						tested = true
					}
					return true
				})
				if !extended.IsValid() {
					continue
				}
				n++
				r.Check(tested, "siblings/path-prefix-through-arrays", ctx.FuncName(fobj)+" extends "+pre.Name()+" with struct fields", extended,
					"the last item of the prefix is tested for being a list",
					"the function appends struct fields to the path of an existing assignment without testing whether that path ends in a list: for an option that appends to a list (array_to_append first) it produces `links.title = title` on `links []Link` — not a chain of fields of the built object (Go: type []Link has no field Title)")
			}
		}
	}
	r.Count("option actions extending an assignment path with struct fields", n)
	r.Floor("option actions extending an assignment path with struct fields", 2)
}

// c17RebuiltOptionKeepsArguments: an action that builds a new option from scratch around the path of an assignment of
// the original option (`ast.Option{…, Assignments: …option.Assignments[i].Path…}`) must give it arguments: the path
// can hold index arguments (`flags[key]` after map_to_index). A literal without an `Args` entry declares none.
func c17RebuiltOptionKeepsArguments(ctx *Ctx, r *Report) {
	p := ctx.Pkg("internal/veneers/option")
	optT := ctx.LookupType("internal/ast", "Option")
	if p == nil || optT == nil {
		r.Undecided("anchor lost: internal/veneers/option / ast.Option")
		return
	}
	info := p.TypesInfo
	n := 0
	for _, f := range p.Syntax {
		for _, d := range f.Decls {
			fd, ok := d.(*ast.FuncDecl)
			if !ok || fd.Body == nil {
				continue
			}
			fobj, _ := info.Defs[fd.Name].(*types.Func)
			seen := 0
			ast.Inspect(fd.Body, func(m ast.Node) bool {
				cl, ok := m.(*ast.CompositeLit)
				if !ok {
					return true
				}
				if t := info.TypeOf(cl); t == nil || namedOf(t) == nil || namedOf(t).Obj() != optT.Obj() {
					return true
				}
				hasArgs, reusesPath, keepsRest := false, false, false
				for _, el := range cl.Elts {
					kv, ok := el.(*ast.KeyValueExpr)
					if !ok {
						continue
					}
					k, _ := kv.Key.(*ast.Ident)
					if k == nil {
						continue
					}
					if k.Name == "Args" {
						hasArgs = true
					}
					if k.Name == "Assignments" {
						// (types.ExprString elides literals: walk the value); a local closure that builds the list is followed
						value := ast.Node(kv.Value)
						if c, ok := ast.Unparen(kv.Value).(*ast.CallExpr); ok {
							if id, ok := c.Fun.(*ast.Ident); ok {
								ast.Inspect(fd.Body, func(q ast.Node) bool {
									if as, ok := q.(*ast.AssignStmt); ok && len(as.Lhs) == 1 && len(as.Rhs) == 1 {
										if l, ok := as.Lhs[0].(*ast.Ident); ok && info.Defs[l] != nil && info.Defs[l] == objOf(info, id) {
											if fl, ok := as.Rhs[0].(*ast.FuncLit); ok {
												value = fl.Body
											}
										}
									}
									return true
								})
							}
						}
						ast.Inspect(value, func(q ast.Node) bool {
							// the assignments after the first one: `….Assignments[1:]`
							if sl, ok := q.(*ast.SliceExpr); ok && sl.Low != nil && sl.High == nil {
								if ff := fieldOf(info, sl.X); ff != nil && ff.Name() == "Assignments" {
									keepsRest = true
								}
							}
							if sel, ok := q.(*ast.SelectorExpr); ok && sel.Sel.Name == "Path" {
								if ix, ok := ast.Unparen(sel.X).(*ast.IndexExpr); ok {
									if ff := fieldOf(info, ix.X); ff != nil && ff.Name() == "Assignments" {
										reusesPath = true
									}
								}
							}
							return true
						})
					}
				}
				if !reusesPath {
					return true
				}
				n++
				seen++
				cons := fmt.Sprintf("%s option literal #%d", ctx.FuncName(fobj), seen)
				r.Check(hasArgs, "effects/rebuilt-option-keeps-arguments", cons, cl.Pos(), "the option built around the original path is given arguments",
					"the new option reuses the path of an assignment of the original option and declares no argument: an index argument held by that path (`flags[key]` after map_to_index) is read without being declared")
				r.Check(keepsRest, "effects/rebuilt-option-keeps-assignments", cons, cl.Pos(), "the assignments after the first one are carried over",
					"the new option is built around the first assignment of the original option only: the other assignments (a constant added by add_assignment, the other fields after struct_fields_as_arguments) are lost — `mode = edit` disappears from both options of unfold_boolean, and an argument stays declared without being assigned")
				return true
			})
		}
	}
	r.Count("options rebuilt around an existing assignment path", n)
	r.Floor("options rebuilt around an existing assignment path", 2)
}

// c17FourthRound — three rule contracts broken on sequences of rules (third hunting pass).
// (a) rename_arguments is a simultaneous substitution: a new name can be the current name of another argument. The
// uses (assignment values, path indexes, constraints) must therefore not be renamed from inside the loop that walks
// the arguments one by one — a use renamed for argument i would be renamed again for argument j.
// (b) promote_options_to_constructor moves the option as a whole: what it appends to Constructor.Args /
// Constructor.Assignments never is a constant-index element (`opt.Args[0]`, `opt.Assignments[0]`) of the option —
// an assignment can read several arguments (`labels[key] = label`).
// (c) struct_fields_as_arguments rebuilds the assignments from the path of the first assignment: sound only when
// that assignment assigns the first argument itself. The action must leave the option as it is (return it) under a
// test that reads Value.Argument of that assignment.
func c17FourthRound(ctx *Ctx, r *Report) {
	optT := ctx.LookupType("internal/ast", "Option")
	valT := ctx.LookupType("internal/ast", "AssignmentValue")
	seenA, seenB, seenC := 0, 0, 0
	forEachVeneerClosure(ctx, func(p *packages.Package, fd *ast.FuncDecl, fobj *types.Func, lit *ast.FuncLit) {
		info := p.TypesInfo
		switch fd.Name.Name {
		case "RenameArgumentsAction":
			seenA++
			bad := token.NoPos
			why := ""
			ast.Inspect(lit.Body, func(m ast.Node) bool {
				rs, ok := m.(*ast.RangeStmt)
				if !ok {
					return true
				}
				sel, ok := ast.Unparen(rs.X).(*ast.SelectorExpr)
				if !ok || sel.Sel.Name != "Args" || namedOf(info.TypeOf(sel.X)) != optT {
					return true
				}
				ast.Inspect(rs.Body, func(q ast.Node) bool {
					switch x := q.(type) {
					case *ast.RangeStmt:
						if s2, ok := ast.Unparen(x.X).(*ast.SelectorExpr); ok && s2.Sel.Name == "Assignments" && bad == token.NoPos {
							bad, why = x.Pos(), "walks the assignments"
						}
					case *ast.CallExpr:
						if fn := callee(info, x); fn != nil && fn.Pkg() == p.Types && bad == token.NoPos {
							if sig, ok := fn.Type().(*types.Signature); ok {
								for i := 0; i < sig.Params().Len(); i++ {
									pt := sig.Params().At(i).Type()
									if ptr, ok := pt.(*types.Pointer); ok && namedOf(ptr.Elem()) == valT {
										bad, why = x.Pos(), "calls "+fn.Name()+" on an assignment value"
									}
								}
							}
						}
					}
					return true
				})
				return true
			})
			r.Check(bad == token.NoPos, "effects/rename-arguments-simultaneous", ctx.FuncName(fobj)+" renames the uses outside the loop over the arguments", lit.Pos(), "the loop over the arguments only renames the arguments themselves",
				fmt.Sprintf("inside the loop that renames the arguments one by one, the action %s (%s): a use renamed for one argument carries, from then on, the name another argument still has and is renamed again — `rename_arguments as: [label, value]` on labels(key, label) gives labels[value] = value", why, ctx.Pos(bad)))
		case "PromoteOptionsToConstructor":
			seenB++
			n := 0
			ast.Inspect(lit.Body, func(m ast.Node) bool {
				c, ok := m.(*ast.CallExpr)
				if !ok || len(c.Args) < 2 {
					return true
				}
				if id, ok := c.Fun.(*ast.Ident); !ok || id.Name != "append" {
					return true
				}
				dst := exprString(c.Args[0])
				if !strings.HasSuffix(dst, ".Constructor.Args") && !strings.HasSuffix(dst, ".Constructor.Assignments") {
					return true
				}
				n++
				// what is appended, with local definitions resolved
				defs := map[types.Object]ast.Expr{}
				ast.Inspect(lit.Body, func(q ast.Node) bool {
					if as, ok := q.(*ast.AssignStmt); ok && as.Tok == token.DEFINE && len(as.Lhs) == len(as.Rhs) {
						for i, l := range as.Lhs {
							if id, ok := l.(*ast.Ident); ok {
								defs[info.Defs[id]] = as.Rhs[i]
							}
						}
					}
					return true
				})
				first := ""
				var look func(e ast.Expr, depth int)
				look = func(e ast.Expr, depth int) {
					ast.Inspect(e, func(q ast.Node) bool {
						switch x := q.(type) {
						case *ast.IndexExpr:
							if s, ok := ast.Unparen(x.X).(*ast.SelectorExpr); ok && (s.Sel.Name == "Args" || s.Sel.Name == "Assignments") && namedOf(info.TypeOf(s.X)) == optT {
								// an index that walks the whole slice (key of a range over it) is fine
								walks := false
								if id, ok := ast.Unparen(x.Index).(*ast.Ident); ok {
									ast.Inspect(lit.Body, func(k ast.Node) bool {
										if rs, ok := k.(*ast.RangeStmt); ok && rs.Key != nil && exprString(rs.X) == exprString(x.X) {
											if kid, ok := rs.Key.(*ast.Ident); ok && info.Defs[kid] == objOf(info, id) {
												walks = true
											}
										}
										return true
									})
								}
								if !walks && first == "" {
									first = exprString(x)
								}
							}
						case *ast.Ident:
							if d, ok := defs[objOf(info, x)]; ok && depth < 3 {
								look(d, depth+1)
							}
						}
						return true
					})
				}
				for _, a := range c.Args[1:] {
					look(a, 0)
				}
				r.Check(first == "", "effects/promote-whole-option", fmt.Sprintf("%s appends to %s", ctx.FuncName(fobj), dst[strings.Index(dst, "Constructor"):]), c.Pos(), "no single element of the option is promoted on its own",
					fmt.Sprintf("promote_options_to_constructor appends %s to the constructor: one element of the option, while an assignment can read several arguments (`labels[key] = label`) — the constructor then assigns from an argument it does not declare and the generated code does not compile", first))
				return true
			})
			r.Count("appends to the constructor in promote_options_to_constructor", n)
		case "StructFieldsAsArgumentsAction":
			seenC++
			defs := map[types.Object]ast.Expr{}
			ast.Inspect(lit.Body, func(q ast.Node) bool {
				if as, ok := q.(*ast.AssignStmt); ok && as.Tok == token.DEFINE && len(as.Lhs) == len(as.Rhs) {
					for i, l := range as.Lhs {
						if id, ok := l.(*ast.Ident); ok {
							defs[info.Defs[id]] = as.Rhs[i]
						}
					}
				}
				return true
			})
			guarded := false
			for _, st := range lit.Body.List {
				is, ok := st.(*ast.IfStmt)
				if !ok || len(is.Body.List) == 0 {
					continue
				}
				if _, ok := is.Body.List[len(is.Body.List)-1].(*ast.ReturnStmt); !ok {
					continue
				}
				reads := false
				var look func(e ast.Expr, depth int)
				look = func(e ast.Expr, depth int) {
					ast.Inspect(e, func(q ast.Node) bool {
						switch x := q.(type) {
						case *ast.SelectorExpr:
							if x.Sel.Name == "Argument" && namedOf(info.TypeOf(x.X)) == valT {
								// on the first assignment
								root := exprString(x.X)
								if id, ok := ast.Unparen(x.X).(*ast.Ident); ok {
									if d, ok := defs[objOf(info, id)]; ok {
										root = exprString(d)
									}
								}
								if strings.Contains(root, "ssignments[0].Value") {
									reads = true
								}
							}
						case *ast.Ident:
							if d, ok := defs[objOf(info, x)]; ok && depth < 2 {
								look(d, depth+1)
							}
						}
						return true
					})
				}
				look(is.Cond, 0)
				if reads {
					guarded = true
				}
			}
			r.Check(guarded, "effects/unfold-only-direct-argument", ctx.FuncName(fobj)+" checks what the first assignment assigns", lit.Pos(), "the option is returned unchanged unless its first assignment assigns the argument itself",
				"struct_fields_as_arguments rebuilds the assignments from the path of the first assignment without looking at its value: after disjunction_as_options the argument is one branch of the union (or sits inside the envelope that wraps it) and the unfolded option assigns item.type / item.collapsed on a type that has no such fields")
		}
	})
	if seenA == 0 || seenB == 0 || seenC == 0 {
		r.Undecided("anchor lost: RenameArgumentsAction (%d) / PromoteOptionsToConstructor (%d) / StructFieldsAsArgumentsAction (%d)", seenA, seenB, seenC)
	}
	r.Floor("appends to the constructor in promote_options_to_constructor", 2)
}

// c17MethodChangeLocated: an action that changes the method of an assignment (append / index instead of direct) must
// have found the assignment that uses the argument it rewrites: taking `option.Assignments[0]` believes that the
// first assignment is that one, which struct_fields_as_arguments (a constant field first) and add_assignment falsify —
// the constant becomes an append and the real use keeps the old argument name.
func c17MethodChangeLocated(ctx *Ctx, r *Report) {
	n := 0
	forEachVeneerClosure(ctx, func(p *packages.Package, fd *ast.FuncDecl, fobj *types.Func, lit *ast.FuncLit) {
		info := p.TypesInfo
		defs := map[types.Object]ast.Expr{}
		ast.Inspect(lit.Body, func(q ast.Node) bool {
			if as, ok := q.(*ast.AssignStmt); ok && as.Tok == token.DEFINE && len(as.Lhs) == len(as.Rhs) {
				for i, l := range as.Lhs {
					if id, ok := l.(*ast.Ident); ok {
						defs[info.Defs[id]] = as.Rhs[i]
					}
				}
			}
			return true
		})
		ast.Inspect(lit.Body, func(m ast.Node) bool {
			as, ok := m.(*ast.AssignStmt)
			if !ok || len(as.Lhs) != 1 || len(as.Rhs) != 1 {
				return true
			}
			sel, ok := ast.Unparen(as.Lhs[0]).(*ast.SelectorExpr)
			if !ok || sel.Sel.Name != "Method" {
				return true
			}
			rhs := exprString(as.Rhs[0])
			if !strings.HasSuffix(rhs, "AppendAssignment") && !strings.HasSuffix(rhs, "IndexAssignment") {
				return true
			}
			id, ok := ast.Unparen(sel.X).(*ast.Ident)
			if !ok {
				return true
			}
			n++
			src := ""
			if d, ok := defs[objOf(info, id)]; ok {
				ast.Inspect(d, func(q ast.Node) bool {
					if ix, ok := q.(*ast.IndexExpr); ok {
						if ff := fieldOf(info, ix.X); ff != nil && ff.Name() == "Assignments" {
							if tv, ok := info.Types[ix.Index]; ok && tv.Value != nil {
								src = exprString(ix)
							}
						}
					}
					return true
				})
			}
			r.Check(src == "", "effects/method-change-located", fmt.Sprintf("%s changes the method of %s", ctx.FuncName(fobj), id.Name), as.Pos(), "the assignment is not taken by a constant index",
				fmt.Sprintf("%s turns %s into an append / index assignment: it believes the first assignment is the one that uses the argument; after struct_fields_as_arguments a constant field comes first — `opts.kind = \"fixed\"` becomes an append and `opts.tags = tags` keeps an argument name the option no longer declares", ctx.FuncName(fobj), src))
			return true
		})
	})
	r.Count("assignments whose method an option action changes", n)
	r.Floor("assignments whose method an option action changes", 2)
}

// c17FifthRound — third hunt:
//   - struct_fields_as_options takes the path under which it assigns the fields from the assignment it has located
//     (never from a constant index), and its options keep the constants the original option assigns;
//   - map_to_index compares the names of the two arguments it declares;
//   - an action that turns an assignment into an append / index assignment leaves the option alone when that
//     assignment is not a direct one (the rule was applied already: the argument is one element, not the collection).
func c17FifthRound(ctx *Ctx, r *Report) {
	n := 0
	forEachVeneerClosure(ctx, func(p *packages.Package, fd *ast.FuncDecl, fobj *types.Func, lit *ast.FuncLit) {
		info := p.TypesInfo
		defs := map[types.Object]ast.Expr{}
		ast.Inspect(lit.Body, func(q ast.Node) bool {
			if as, ok := q.(*ast.AssignStmt); ok && as.Tok == token.DEFINE && len(as.Lhs) == len(as.Rhs) {
				for i, l := range as.Lhs {
					if id, ok := l.(*ast.Ident); ok {
						defs[info.Defs[id]] = as.Rhs[i]
					}
				}
			}
			return true
		})
		// constant index into a list of assignments, through local aliases
		constantIndexed := func(e ast.Expr) string {
			src := ""
			ast.Inspect(e, func(q ast.Node) bool {
				ix, ok := q.(*ast.IndexExpr)
				if !ok {
					return true
				}
				base := ast.Unparen(ix.X)
				if id, ok := base.(*ast.Ident); ok {
					if d, ok := defs[objOf(info, id)]; ok {
						base = ast.Unparen(d)
					}
				}
				if ff := fieldOf(info, base); ff != nil && ff.Name() == "Assignments" {
					if tv, ok := info.Types[ix.Index]; ok && tv.Value != nil {
						src = exprString(ix)
					}
				}
				return true
			})
			return src
		}
		switch fd.Name.Name {
		case "StructFieldsAsOptionsAction":
			// (a) the prefix
			found := false
			ast.Inspect(lit.Body, func(m ast.Node) bool {
				c, ok := m.(*ast.CallExpr)
				if !ok {
					return true
				}
				sel, ok := c.Fun.(*ast.SelectorExpr)
				if !ok || sel.Sel.Name != "Append" {
					return true
				}
				id, ok := ast.Unparen(sel.X).(*ast.Ident)
				if !ok {
					return true
				}
				d, ok := defs[objOf(info, id)]
				if !ok || !strings.HasSuffix(exprString(d), ".Path") {
					return true
				}
				found = true
				n++
				src := constantIndexed(d)
				r.Check(src == "", "effects/fields-as-options-prefix-located", ctx.FuncName(fobj)+" path prefix "+id.Name, c.Pos(), "the prefix is the path of the located assignment",
					fmt.Sprintf("struct_fields_as_options assigns the fields of its argument under %s.Path, whatever that assignment assigns: after struct_fields_as_arguments a constant comes first (`outer.kind = \"outer\"`) and the new options assign outer.kind.enabled — a field of a string; the generated code does not compile", src))
				return true
			})
			if !found {
				r.Undecided("anchor changed: StructFieldsAsOptionsAction no longer prefixes the field assignments with a path")
			}
			// (b) the constants
			keeps := false
			ast.Inspect(lit.Body, func(m ast.Node) bool {
				rs, ok := m.(*ast.RangeStmt)
				if !ok {
					return true
				}
				if ff := fieldOf(info, rs.X); ff == nil || ff.Name() != "Assignments" {
					return true
				}
				ast.Inspect(rs.Body, func(k ast.Node) bool {
					if as, ok := k.(*ast.AssignStmt); ok && len(as.Lhs) == 1 {
						if ff := fieldOf(info, as.Lhs[0]); ff != nil && ff.Name() == "Assignments" {
							keeps = true
						}
					}
					return true
				})
				return true
			})
			n++
			r.Check(keeps, "effects/derived-options-keep-constants", ctx.FuncName(fobj)+" carries the other assignments over", lit.Pos(), "the assignments of the original option are walked and added to the options made from it",
				"the options made by struct_fields_as_options hold one assignment each: what the original option assigned besides its argument (`outer.kind = \"outer\"`) is lost — the target is no longer the same")
		case "MapToIndexAction":
			compares := false
			ast.Inspect(lit.Body, func(m ast.Node) bool {
				is, ok := m.(*ast.IfStmt)
				if !ok {
					return true
				}
				be, ok := ast.Unparen(is.Cond).(*ast.BinaryExpr)
				if !ok || be.Op != token.EQL {
					return true
				}
				lx, lok := ast.Unparen(be.X).(*ast.SelectorExpr)
				ly, rok := ast.Unparen(be.Y).(*ast.SelectorExpr)
				if lok && rok && lx.Sel.Name == "Name" && ly.Sel.Name == "Name" && exprString(lx.X) != exprString(ly.X) {
					compares = true
				}
				return true
			})
			n++
			r.Check(compares, "effects/index-arguments-distinct", ctx.FuncName(fobj)+" names its two arguments apart", lit.Pos(), "the names of the key and value arguments are compared",
				"map_to_index names the key argument `key` and the value argument after the singular of the field: for a map called `keys` both are `key` — `Keys(key string, key string)` does not compile and the assignment reads the key for the value")
		}
		// (c) append / index only from a direct assignment
		changes := false
		ast.Inspect(lit.Body, func(m ast.Node) bool {
			as, ok := m.(*ast.AssignStmt)
			if !ok || len(as.Lhs) != 1 || len(as.Rhs) != 1 {
				return true
			}
			sel, ok := ast.Unparen(as.Lhs[0]).(*ast.SelectorExpr)
			if !ok || sel.Sel.Name != "Method" {
				return true
			}
			rhs := exprString(as.Rhs[0])
			if strings.HasSuffix(rhs, "AppendAssignment") || strings.HasSuffix(rhs, "IndexAssignment") {
				changes = true
			}
			return true
		})
		if changes {
			tests := false
			ast.Inspect(lit.Body, func(m ast.Node) bool {
				is, ok := m.(*ast.IfStmt)
				if !ok || !endsInExit(is.Body) {
					return true
				}
				c := exprString(is.Cond)
				if strings.Contains(c, ".Method != ") && strings.Contains(c, "DirectAssignment") && !strings.Contains(c, "&&") {
					tests = true
				}
				return true
			})
			n++
			r.Check(tests, "effects/method-change-only-from-direct", ctx.FuncName(fobj)+" changes direct assignments only", lit.Pos(), "the option is returned unchanged when the located assignment is not a direct one",
				ctx.FuncName(fobj)+" looks at the type of the argument only: applied to an option that already appends (`matrix: [...[...string]]`, rule in the common veneers and again in the Go ones) it unwraps the element type once more — Matrix(matrix string) appends a string to a [][]string; map_to_index after array_to_append indexes a list with a string key")
		}
	})
	r.Count("hunted clauses of the option actions (5th round)", n)
	r.Floor("hunted clauses of the option actions (5th round)", 5)
}

// c17SixthRound — fourth hunt:
//   - array_to_append / map_to_index / struct_fields_as_options decide on the type of the *argument*; what the argument
//     is assigned to can be something else after disjunction_as_options (`value: string | [...string]`): each of them
//     resolves the type at the end of the located assignment's path and leaves the option alone unless it is a list /
//     a map / a struct;
//   - struct_fields_as_arguments names its new arguments after the fields: it checks that no two arguments of the
//     option it builds share a name;
//   - merge_into and duplicate copy factories, which call options *by name*: the copies follow rename_options, and a
//     call to an excluded option is an error.
func c17SixthRound(ctx *Ctx, r *Report) {
	n := 0
	want := map[string]string{"ArrayToAppendAction": "IsArray", "MapToIndexAction": "IsMap", "StructFieldsAsOptionsAction": "IsStruct"}
	seen := map[string]bool{}
	forEachVeneerClosure(ctx, func(p *packages.Package, fd *ast.FuncDecl, fobj *types.Func, lit *ast.FuncLit) {
		info := p.TypesInfo
		if pred, ok := want[fd.Name.Name]; ok {
			seen[fd.Name.Name] = true
			checks := false
			ast.Inspect(lit.Body, func(m ast.Node) bool {
				is, ok := m.(*ast.IfStmt)
				if !ok || !endsInExit(is.Body) {
					return true
				}
				resolves, tests := false, false
				ast.Inspect(is, func(k ast.Node) bool {
					if c, ok := k.(*ast.CallExpr); ok {
						if f := callee(info, c); f != nil {
							if f.Name() == "ResolveToType" && len(c.Args) == 1 && strings.Contains(exprString(c.Args[0]), "Last().Type") {
								resolves = true
							}
							if f.Name() == pred {
								tests = true
							}
						}
					}
					return true
				})
				if resolves && tests && is.Body != nil && k17ReturnsOption(is.Body) {
					checks = true
				}
				return true
			})
			n++
			r.Check(checks, "effects/action-checks-target-type", ctx.FuncName(fobj)+" checks what the argument is assigned to", lit.Pos(), "the option is returned unchanged unless the end of the assignment's path resolves to the expected kind ("+pred+")",
				ctx.FuncName(fobj)+" looks at the type of the argument only: after disjunction_as_options on `value: string | [...string]` the option arrayOfString assigns a list to a union, array_to_append turns it into `value.append(…)` — AttributeError: 'str' object has no attribute 'append' (Python), push on `string | string[]` (TypeScript)")
		}
		if fd.Name.Name == "StructFieldsAsArgumentsAction" {
			seen[fd.Name.Name] = true
			distinct := false
			ast.Inspect(lit.Body, func(m ast.Node) bool {
				rs, ok := m.(*ast.RangeStmt)
				if !ok {
					return true
				}
				if ff := fieldOf(info, rs.X); ff == nil || ff.Name() != "Args" {
					return true
				}
				ast.Inspect(rs.Body, func(k ast.Node) bool {
					is, ok := k.(*ast.IfStmt)
					if !ok || is.Init == nil {
						return true
					}
					if as, ok := is.Init.(*ast.AssignStmt); ok && len(as.Rhs) == 1 {
						if ix, ok := ast.Unparen(as.Rhs[0]).(*ast.IndexExpr); ok {
							if _, isMap := info.TypeOf(ix.X).Underlying().(*types.Map); isMap && strings.HasSuffix(exprString(ix.Index), ".Name") && k17ReturnsOption(is.Body) {
								distinct = true
							}
						}
					}
					return true
				})
				return true
			})
			n++
			r.Check(distinct, "effects/argument-names-distinct", ctx.FuncName(fobj)+" checks the names of the arguments it declares", lit.Pos(), "the arguments of the new option are looked up by name and the option left alone on a clash",
				"struct_fields_as_arguments names the new arguments after the fields and appends the remaining arguments of the option: `Outer{inner: Inner{name, size}, name}` unfolded twice gives outer(name, size, name) — name redeclared in this block")
		}
	})
	for name := range want {
		if !seen[name] {
			r.Undecided("anchor lost: option.%s", name)
		}
	}
	// factories
	bp := ctx.Pkg("internal/veneers/builder")
	if bp == nil {
		r.Undecided("anchor lost: internal/veneers/builder")
	} else {
		info := bp.TypesInfo
		for _, f := range bp.Syntax {
			for _, d := range f.Decls {
				fd, ok := d.(*ast.FuncDecl)
				if !ok || fd.Body == nil || (fd.Name.Name != "mergeBuilderInto" && fd.Name.Name != "Duplicate") {
					continue
				}
				excl, ren, calls := false, false, false
				ast.Inspect(fd.Body, func(m ast.Node) bool {
					rs, ok := m.(*ast.RangeStmt)
					if !ok {
						return true
					}
					if ff := fieldOf(info, rs.X); ff == nil || ff.Name() != "OptionCalls" {
						return true
					}
					calls = true
					ast.Inspect(rs.Body, func(k ast.Node) bool {
						if id, ok := k.(*ast.Ident); ok {
							switch id.Name {
							case "excludeOptions":
								excl = true
							case "renameOptions":
								ren = true
							}
						}
						return true
					})
					return true
				})
				n++
				okk := calls && excl && (ren || fd.Name.Name == "Duplicate")
				r.Check(okk, "effects/copied-factories-follow-options", "builder."+fd.Name.Name+" looks at the option calls of the factories it copies", fd.Pos(), "the calls are checked against exclude_options (and renamed after rename_options)",
					"builder."+fd.Name.Name+" copies the factories of the source builder as they are: with `exclude_options: [hide]` and `rename_options: {title: targetTitle}` the copied factory still calls hide — builder.Hide undefined — and its call to title now reaches the destination's own title option")
			}
		}
	}
	r.Count("hunted clauses of the veneer actions (6th round)", n)
	r.Floor("hunted clauses of the veneer actions (6th round)", 6)
}

// k17ReturnsOption: the block returns a list holding the option it was given (`return []ast.Option{option}`).
func k17ReturnsOption(b *ast.BlockStmt) bool {
	for _, st := range b.List {
		if rs, ok := st.(*ast.ReturnStmt); ok && len(rs.Results) == 1 {
			if cl, ok := ast.Unparen(rs.Results[0]).(*ast.CompositeLit); ok && len(cl.Elts) == 1 {
				if id, ok := ast.Unparen(cl.Elts[0]).(*ast.Ident); ok && id.Name == "option" {
					return true
				}
			}
		}
	}
	return false
}

// c17SeventhRound — fifth hunt:
//   - promote_options_to_constructor compares the name of every argument it adds with those the constructor already
//     has (as struct_fields_as_arguments does for options): `constructor(name string, name string)` otherwise;
//   - merge_into / compose: a factory calls the constructor without argument — mergeBuilderInto leaves with an error
//     when the source has factories and the destination a constructor with parameters (AddFactory and
//     PromoteOptionsToConstructor each refuse that combination; the merge did not);
//   - the option rules replace the options of a builder and its factories call options by name: what a rule makes of an
//     option is handed, with the builder, to a function that walks the factories and can fail;
//   - add_factory stores a copy of the factory the rule holds (the rule is applied to every selected builder, for every
//     language).
func c17SeventhRound(ctx *Ctx, r *Report) {
	n := 0
	bp := ctx.Pkg("internal/veneers/builder")
	if bp == nil {
		r.Undecided("anchor lost: internal/veneers/builder")
		return
	}
	info := bp.TypesInfo
	// (a)
	if fn := ctx.LookupFunc("internal/veneers/builder", "PromoteOptionsToConstructor"); fn == nil {
		r.Undecided("anchor lost: builder.PromoteOptionsToConstructor")
	} else if fd, _ := ctx.DeclOf(fn); fd != nil {
		var appendPos token.Pos
		ast.Inspect(fd.Body, func(m ast.Node) bool {
			if as, ok := m.(*ast.AssignStmt); ok && len(as.Lhs) == 1 && strings.HasSuffix(exprString(as.Lhs[0]), ".Constructor.Args") {
				appendPos = as.Pos()
			}
			return true
		})
		compares := false
		ast.Inspect(fd.Body, func(m ast.Node) bool {
			rs, ok := m.(*ast.RangeStmt)
			if !ok || !strings.HasSuffix(exprString(rs.X), ".Constructor.Args") || !appendPos.IsValid() || rs.Pos() > appendPos {
				return true
			}
			ast.Inspect(rs.Body, func(k ast.Node) bool {
				is, ok := k.(*ast.IfStmt)
				if !ok || len(is.Body.List) == 0 {
					return true
				}
				be, ok := ast.Unparen(is.Cond).(*ast.BinaryExpr)
				if !ok || be.Op != token.EQL || !strings.HasSuffix(exprString(be.X), ".Name") || !strings.HasSuffix(exprString(be.Y), ".Name") {
					return true
				}
				if ret, ok := is.Body.List[len(is.Body.List)-1].(*ast.ReturnStmt); ok && len(ret.Results) == 2 && !isNilIdent(info, ret.Results[1]) {
					compares = true
				}
				return true
			})
			return true
		})
		n++
		r.Check(appendPos.IsValid() && compares, "effects/argument-names-distinct", "builder.PromoteOptionsToConstructor adds arguments to the constructor", fd.Pos(), "after comparing their names with those the constructor has, with an error exit",
			"PromoteOptionsToConstructor appends the arguments of the promoted options to the constructor whatever it already declares: promoting `name` and `ownerName` (an option merged from Owner, renamed, whose argument is still `name`) gives `constructor(name string, name string)` — name redeclared in Go, SyntaxError: duplicate argument in Python")
	}
	// (b)
	if fn := ctx.LookupFunc("internal/veneers/builder", "mergeBuilderInto"); fn == nil {
		r.Undecided("anchor lost: builder.mergeBuilderInto")
	} else if fd, _ := ctx.DeclOf(fn); fd != nil {
		refuses := false
		ast.Inspect(fd.Body, func(m ast.Node) bool {
			is, ok := m.(*ast.IfStmt)
			if !ok || len(is.Body.List) == 0 {
				return true
			}
			cond := exprString(is.Cond)
			if !strings.Contains(cond, ".Factories") || !strings.Contains(cond, ".Constructor.Args") {
				return true
			}
			if ret, ok := is.Body.List[len(is.Body.List)-1].(*ast.ReturnStmt); ok && len(ret.Results) == 2 && !isNilIdent(info, ret.Results[1]) {
				refuses = true
			}
			return true
		})
		n++
		r.Check(refuses, "effects/factories-need-a-bare-constructor", "builder.mergeBuilderInto copies the factories of the source", fd.Pos(), "unless the destination's constructor has parameters: an error",
			"mergeBuilderInto copies every factory of the source into the destination without looking at the destination's constructor: Dashboard (name promoted to the constructor) merged with Owner (factory Anonymous) gets `Anonymous()`, which calls NewDashboardBuilder() — not enough arguments in call; AddFactory and PromoteOptionsToConstructor each refuse this combination")
	}
	// (d)
	if fn := ctx.LookupFunc("internal/veneers/builder", "AddFactory"); fn == nil {
		r.Undecided("anchor lost: builder.AddFactory")
	} else if fd, _ := ctx.DeclOf(fn); fd != nil {
		var param types.Object
		sig := fn.Type().(*types.Signature)
		for i := 0; i < sig.Params().Len(); i++ {
			if namedName(sig.Params().At(i).Type()) == "BuilderFactory" {
				param = sig.Params().At(i)
			}
		}
		shared, copied := false, false
		ast.Inspect(fd.Body, func(m ast.Node) bool {
			c, ok := m.(*ast.CallExpr)
			if !ok {
				return true
			}
			if id, ok := ast.Unparen(c.Fun).(*ast.Ident); !ok || id.Name != "append" || len(c.Args) < 2 || !strings.HasSuffix(exprString(c.Args[0]), ".Factories") {
				return true
			}
			for _, a := range c.Args[1:] {
				if param != nil && isIdentOf(info, a, param) {
					shared = true
				}
				if cc, ok := ast.Unparen(a).(*ast.CallExpr); ok && isCopyCall(info, cc) {
					copied = true
				}
			}
			return true
		})
		n++
		r.Check(copied && !shared, "ownership/factory-copied-from-the-rule", "builder.AddFactory stores the factory of the rule", fd.Pos(), "as a deep copy",
			"AddFactory appends the very BuilderFactory the rule holds to every selected builder, for every language: its OptionCalls are one array — what renames a call for Go (the factories follow the option rules) renames it for Python too")
	}
	// (c)
	if fn := ctx.LookupMethod("internal/veneers/rewrite", "Rewriter", "applyOptionRules"); fn == nil {
		r.Undecided("anchor lost: rewrite.Rewriter.applyOptionRules")
	} else if fd, p := ctx.DeclOf(fn); fd != nil {
		rinfo := p.TypesInfo
		// variables holding the result of rule.Action
		results := map[types.Object]bool{}
		ast.Inspect(fd.Body, func(m ast.Node) bool {
			if as, ok := m.(*ast.AssignStmt); ok && len(as.Lhs) == 1 && len(as.Rhs) == 1 {
				if c, ok := ast.Unparen(as.Rhs[0]).(*ast.CallExpr); ok && strings.HasSuffix(exprString(c.Fun), ".Action") {
					if id, ok := as.Lhs[0].(*ast.Ident); ok {
						results[objOf(rinfo, id)] = true
					}
				}
			}
			return true
		})
		follows := false
		ast.Inspect(fd.Body, func(m ast.Node) bool {
			c, ok := m.(*ast.CallExpr)
			if !ok {
				return true
			}
			f := callee(rinfo, c)
			if f == nil || f.Pkg() != p.Types {
				return true
			}
			takesResult := false
			for _, a := range c.Args {
				if id, ok := ast.Unparen(a).(*ast.Ident); ok && results[objOf(rinfo, id)] {
					takesResult = true
				}
			}
			if !takesResult {
				return true
			}
			hfd, _ := ctx.DeclOf(f)
			if hfd == nil || hfd.Body == nil {
				return true
			}
			walksFactories, canFail := false, false
			ast.Inspect(hfd.Body, func(k ast.Node) bool {
				switch x := k.(type) {
				case *ast.RangeStmt:
					if strings.HasSuffix(exprString(x.X), ".Factories") {
						walksFactories = true
					}
				case *ast.ReturnStmt:
					if len(x.Results) == 1 && !isNilIdent(rinfo, x.Results[0]) {
						canFail = true
					}
				}
				return true
			})
			if walksFactories && canFail {
				follows = true
			}
			return true
		})
		n++
		r.Check(follows, "effects/factories-follow-option-rules", "rewrite.Rewriter.applyOptionRules replaces the options of a builder", fd.Pos(), "what a rule makes of an option is handed to a function that walks the factories of the builder and can fail",
			"applyOptionRules replaces Options and never looks at Factories, which call options by name: the common veneers add the factory Titled (calls `title`), the Go veneers rename Dashboard.title to heading — the Go factory still calls builder.Title, undefined; an omitted option leaves the same dangling call")
	}
	r.Count("hunted clauses of the veneers (7th round)", n)
	r.Floor("hunted clauses of the veneers (7th round)", 4)
}

// c17EighthRound — sixth hunt of C17:
//   - an option rule that keeps the name of an option and changes its arguments breaks the factories that call it as
//     surely as one that removes it: in factoriesFollowOption the same-name case compares the arguments of the rewritten
//     option with those of the original one before it answers "nothing to do";
//   - the actions that make an argument of an option go away (array_to_append, map_to_index, unfold_boolean,
//     struct_fields_as_arguments) count the uses of that argument among all the assignments of the option first.
func c17EighthRound(ctx *Ctx, r *Report) {
	n := 0
	if fn := ctx.LookupMethod("internal/veneers/rewrite", "Rewriter", "factoriesFollowOption"); fn == nil {
		r.Undecided("anchor lost: rewrite.Rewriter.factoriesFollowOption")
	} else if fd, _ := ctx.DeclOf(fn); fd != nil {
		compares := false
		ast.Inspect(fd.Body, func(m ast.Node) bool {
			c, ok := m.(*ast.CallExpr)
			if !ok || len(c.Args) != 2 {
				return true
			}
			a, b := exprString(c.Args[0]), exprString(c.Args[1])
			if strings.HasSuffix(a, ".Args") && strings.HasSuffix(b, ".Args") && a != b {
				compares = true
			}
			return true
		})
		n++
		r.Check(compares, "effects/factories-follow-option-rules", "rewrite.factoriesFollowOption meets an option that keeps its name", fd.Pos(), "its arguments are compared with those the factories pass",
			"factoriesFollowOption answers `nothing to do` as soon as a rewritten option keeps the name of the original one: struct_fields_as_arguments turns time(time) into time(from, to) and the factory InRange keeps calling time(<TimeRange>) — `builder.Time(time)` does not compile (same with map_to_index and array_to_append)")
	}
	p := ctx.Pkg("internal/veneers/option")
	if p == nil {
		r.Undecided("anchor lost: internal/veneers/option")
		return
	}
	info := p.TypesInfo
	removers := 0
	for _, name := range []string{"ArrayToAppendAction", "MapToIndexAction", "UnfoldBooleanAction", "StructFieldsAsArgumentsAction"} {
		fd, _ := ctx.DeclOf(ctx.LookupFunc("internal/veneers/option", name))
		if fd == nil {
			r.Undecided("anchor lost: option.%s", name)
			continue
		}
		removers++
		counts := false
		ast.Inspect(fd.Body, func(m ast.Node) bool {
			if c, ok := m.(*ast.CallExpr); ok {
				if f := callee(info, c); f != nil && (f.Name() == "countArgumentUses" || f.Name() == "assignmentOfArgument") {
					counts = true
				}
			}
			return true
		})
		n++
		r.Check(counts, "effects/removed-arguments-unused", "option."+name+" makes an argument of the option go away", fd.Pos(), "after counting its uses among all the assignments of the option",
			"option."+name+" removes the argument it unfolds and copies the other assignments of the option as they are: after `add_assignment` made the option assign its argument a second time (locked = <argument editable>), unfold_boolean gives editable() { editable = true; locked = editable } — an argument declared nowhere")
	}
	r.Count("actions removing an argument", removers)
	r.Floor("actions removing an argument", 4)
	r.Count("hunted clauses of the veneer rules (8th round)", n)
	r.Floor("hunted clauses of the veneer rules (8th round)", 5)
}
